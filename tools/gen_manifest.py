#!/usr/bin/env python3
"""Generates /verif/MANIFEST.json from the table below (kept next to the checks so the
manifest is always valid and in step with what is built)."""
import json, os, subprocess, sys

HERE = os.path.dirname(os.path.dirname(os.path.abspath(__file__)))

# property id -> (technique, level text, level note, design ref)
CLAIMED = {}

def claim(pid, technique, text, note, ref):
    CLAIMED[pid] = (technique, text, note, ref)

exec(open(os.path.join(HERE, "tools", "claims.py")).read())

ALL = [json.loads(l)["id"] for l in open(os.path.join(HERE, "properties.jsonl"))]

def hook_commits():
    try:
        out = subprocess.check_output(["git", "-C", "/repo", "log", "--format=%H %s"], text=True)
        return [l.split()[0] for l in out.splitlines() if "verif hooks" in l]
    except Exception:
        return []

checks = []
for pid in ALL:
    if pid not in CLAIMED:
        continue
    technique, text, note, ref = CLAIMED[pid]
    checks.append({
        "property_id": pid,
        "quick_cmd": f"./check {pid} quick",
        "thorough_cmd": f"./check {pid} thorough",
        "evidence_file": f"/verif/evidence/{pid}.json",
        "replay_cmd_template": f"./check {pid} --replay {{path}}",
        "engine": "harness",
        "level_claimed": {"category": "model_checking", "text": text, "design_ref": ref},
        "level_note": note,
        "technique": technique,
    })

NOT_YET = "check not built yet in this snapshot of /verif (planned in DESIGN.md section 5); not claimed until its check exists"
manifest = {
    "version": 1,
    "setup_cmd": "cd /verif/harness && CARGO_NET_OFFLINE=true cargo build --release --offline",
    "hooks": {
        "guard": "cargo feature `verif` on crates renet and renetcode (off by default)",
        "enable": "the harness crate depends on renet/renetcode by path with features = [\"verif\"]; ./check rebuilds it from /repo's working tree",
        "baseline_off_cmd": "cd /repo && cargo test --workspace --no-fail-fast --offline",
        "source_commits": hook_commits(),
        "add_only": True,
    },
    "engines": [{
        "name": "harness",
        "path": "/verif/harness",
        "serves_properties": sorted(CLAIMED.keys()),
        "kind_free_text": "hand-rolled stateless model checker for the real renet/renetcode code: M2 deviation-bounded schedule enumeration (iterative context bounding by prefix re-execution), M1 explicit-state DFS with de-duplication on cloned real objects, exhaustive sweeps of finite input alphabets over prepared protocol states",
    }],
    "checks": checks,
    "not_applicable": [{"property_id": p, "reason": NOT_YET} for p in ALL if p not in CLAIMED],
    "notes": "hooks are additive (the only rewritten line is the last line of renetcode/Cargo.toml, which lacked a trailing newline). exit 0 = property held on everything explored, 1 = VIOLATION line, 2 = machinery error (build failure, nondeterminism, wall cap) which is never a verdict. Known findings live in /verif/known_findings.txt.",
}
json.dump(manifest, open(os.path.join(HERE, "MANIFEST.json"), "w"), indent=1)
print("wrote MANIFEST.json with", len(checks), "checks;", len(manifest["not_applicable"]), "not claimed")
