#!/usr/bin/env python3
"""usage: tools/benign_eval.py a b ...  — evaluates /tmp/wt5-<x>/SEEDED/{A..D}: property-PRESERVING changes; every quick check must stay silent (exit 0).
Kept under /verif/benign/<x><V>/ with patch.diff, NOTES.md, meta.json."""
import json, os, re, shutil, subprocess, sys
VER = os.path.dirname(os.path.dirname(os.path.abspath(__file__)))
assert subprocess.run(['git', '-C', '/repo', 'status', '--porcelain'], capture_output=True, text=True).stdout.strip() == '', '/repo not clean'
for x in sys.argv[1:]:
    for v in 'ABCD':
        d = f'/tmp/wt{os.environ.get("BENIGN_WT", "5")}-{x}/SEEDED/{v}'
        if not os.path.exists(os.path.join(d, 'patch.diff')):
            print(x, v, 'missing'); continue
        r = subprocess.run(['git', '-C', '/repo', 'apply', os.path.join(d, 'patch.diff')], capture_output=True, text=True)
        if r.returncode != 0:
            print(x, v, 'PATCH DOES NOT APPLY', r.stderr[:200]); continue
        suite = subprocess.run('cd /repo && cargo test -p renet -p renetcode -p renet_netcode --offline 2>&1 | grep -E "^test result|error\\[|FAILED"', shell=True, capture_output=True, text=True).stdout
        suite_ok = 'FAILED' not in suite and 'error[' not in suite and suite.count('test result: ok') >= 6
        env = dict(os.environ, VERIF_SCRATCH='/tmp/verif-scratch-benign')
        out = subprocess.run([os.path.join(VER, 'tools/run_all.sh'), 'quick'], capture_output=True, text=True, env=env).stdout
        subprocess.run(['git', '-C', '/repo', 'checkout', '--', '.'])
        det = {}
        for line in out.splitlines():
            m = re.match(r'^(C\d+) (\d+) ?(.*)$', line)
            if m: det[m.group(1)] = (int(m.group(2)), m.group(3))
        alarms = {k: s for k, (c, s) in det.items() if c == 1}
        machinery = sorted(k for k, (c, _) in det.items() if c not in (0, 1))
        build_failed = 'BUILD FAILED' in out
        print(f'{x}{v}: suite_ok={suite_ok} alarms={alarms} machinery={machinery} build_failed={build_failed}', flush=True)
        dst = os.path.join(VER, 'benign', f'{os.environ.get("BENIGN_PREFIX", "")}{x}{v}')
        os.makedirs(dst, exist_ok=True)
        for f in ('patch.diff', 'NOTES.md'):
            if os.path.exists(os.path.join(d, f)): shutil.copy(os.path.join(d, f), dst)
        json.dump({'kind': 'property-preserving change written by an independent sub-agent', 'repository_suite_passes': suite_ok,
                   'quick_checks_raising_an_alarm': alarms, 'checks_with_machinery_exit': machinery, 'harness_build_failed': build_failed},
                  open(os.path.join(dst, 'meta.json'), 'w'), indent=1)
