#!/usr/bin/env python3
"""Re-runs every quick check against every kept seeded change (/verif/seeded/*/patch.diff) and refreshes meta.json + seeded/RESULTS.md.
Applies each patch to /repo, runs tools/run_all.sh quick with evidence redirected to a scratch dir, reverts."""
import json, os, re, subprocess, sys, glob
VER = os.path.dirname(os.path.dirname(os.path.abspath(__file__)))
TABLE_ONLY = '--table-only' in sys.argv
only = [a for a in sys.argv[1:] if not a.startswith('--')]
rows = []
assert TABLE_ONLY or subprocess.run(['git', '-C', '/repo', 'status', '--porcelain'], capture_output=True, text=True).stdout.strip() == '', '/repo not clean'
for d in ([] if TABLE_ONLY else sorted(glob.glob(os.path.join(VER, 'seeded', 'C*-*')))):
    name = os.path.basename(d)
    if only and name not in only and name.split('-')[0] not in only:
        continue
    meta = json.load(open(os.path.join(d, 'meta.json')))
    r = subprocess.run(['git', '-C', '/repo', 'apply', os.path.join(d, 'patch.diff')], capture_output=True, text=True)
    if r.returncode != 0:
        print(name, 'PATCH DOES NOT APPLY', r.stderr[:200]); continue
    env = dict(os.environ, VERIF_SCRATCH='/tmp/verif-scratch')
    out = subprocess.run([os.path.join(VER, 'tools/run_all.sh'), 'quick'], capture_output=True, text=True, env=env).stdout
    subprocess.run(['git', '-C', '/repo', 'checkout', '--', '.'])
    det = {}
    for line in out.splitlines():
        m = re.match(r'^(C\d+) (\d+) ?(.*)$', line)
        if m: det[m.group(1)] = (int(m.group(2)), m.group(3))
    caught = sorted(k for k, (c, _) in det.items() if c == 1)
    other = sorted(k for k, (c, _) in det.items() if c not in (0, 1))
    meta['quick_checks_reporting_a_violation'] = {k: det[k][1] for k in caught}
    meta['caught_by_own_property_check'] = meta['property'] in caught
    meta['checks_ending_with_a_machinery_exit'] = other
    json.dump(meta, open(os.path.join(d, 'meta.json'), 'w'), indent=1)
    print(name, 'own' if meta['property'] in caught else 'OWN-MISS', caught, other, flush=True)
# summary table over all kept changes
lines = ['# Seeded changes: which quick checks report them', '',
         'Each row: a change written by an independent sub-agent from the property text alone (patch.diff, demo.rs, NOTES.md, meta.json in the directory).',
         'All of them compile, pass the repository\'s own suite, and are shown to break the property by their demo test.', '',
         '| change | property | quick checks that report a violation | own check |', '|---|---|---|---|']
for d in sorted(glob.glob(os.path.join(VER, 'seeded', 'C*-*'))):
    m = json.load(open(os.path.join(d, 'meta.json')))
    c = m.get('quick_checks_reporting_a_violation', {})
    lines.append(f"| {os.path.basename(d)} | {m['property']} | {', '.join(sorted(c)) or '— (none)'} | {'yes' if m.get('caught_by_own_property_check') else 'no'} |")
open(os.path.join(VER, 'seeded', 'RESULTS.md'), 'w').write('\n'.join(lines) + '\n')
