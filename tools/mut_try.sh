#!/bin/sh
# usage: tools/mut_try.sh <patch.diff> [quick|thorough] <ids...>
# Runs the given checks of the CURRENT /verif working tree against a private copy of /repo with the patch applied
# (the real trees are not touched). The copy lives in /tmp/mutw and is refreshed (rsync) on every call.
P="$(readlink -f "$1")"; shift
TIER=quick
case "$1" in quick|thorough) TIER="$1"; shift;; esac
S=/tmp/mutw
mkdir -p $S
# --checksum --no-times: a file restored after the previous patch gets a fresh mtime, so cargo rebuilds its crate
# (with -a alone the restored file keeps /repo's old mtime and cargo keeps the previous mutant's object code)
rsync -a --no-times --checksum --delete --exclude target --exclude .git /repo/ $S/repo/
rsync -a --delete --exclude target --exclude .git --exclude seeded --exclude benign --exclude findings --exclude evidence /verif/ $S/verif/
mkdir -p $S/verif/evidence
sed -i "s#/repo/#$S/repo/#g" $S/verif/harness/Cargo.toml
sed -i "s#/verif/target#$S/verif/target#" $S/verif/harness/.cargo/config.toml
(cd $S/repo && patch -p1 -s < "$P") || { echo "PATCH DOES NOT APPLY"; exit 2; }
VERIF_SCRATCH=$S/scratch $S/verif/tools/run_all.sh $TIER "$@"
