#!/bin/sh
# Runs tools/seeded_rerun.py on private copies of /repo (HEAD working tree) and /verif (working tree), so that
# the real trees stay free for other work. The result files (seeded/*/meta.json, seeded/RESULTS.md) are copied back.
set -e
S=/tmp/snap
rm -rf $S; mkdir -p $S
rsync -a --exclude target --exclude .git /repo/ $S/repo/
( cd $S/repo && git init -q && git add -A >/dev/null 2>&1 && git -c user.email=x@x -c user.name=x commit -qm snap )
rsync -a --exclude target --exclude .git /verif/ $S/verif/
sed -i "s#/repo/#$S/repo/#g" $S/verif/harness/Cargo.toml
sed -i "s#/verif/target#$S/verif/target#" $S/verif/harness/.cargo/config.toml
sed -i "s#'/repo'#'$S/repo'#g" $S/verif/tools/seeded_rerun.py
cd $S/verif && python3 tools/seeded_rerun.py "$@"
for d in $S/verif/seeded/C*-*; do cp $d/meta.json /verif/seeded/$(basename $d)/meta.json; done
cp $S/verif/seeded/RESULTS.md /verif/seeded/RESULTS.md
echo "snapshot rerun done (harness commit $(git -C /verif rev-parse --short HEAD) + working tree at start)"
