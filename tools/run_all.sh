#!/bin/sh
# usage: tools/run_all.sh [quick|thorough] [ids...]  -> one line per check: "<id> <exit code> <first violation signature>"
# Evidence and replays are redirected to a scratch VERIF_DIR when VERIF_SCRATCH is set (mutant evaluation).
DIR="$(cd "$(dirname "$0")/.." && pwd)"
TIER="${1:-quick}"; shift 2>/dev/null
IDS="${*:-C01 C02 C03 C04 C05 C06 C07 C08 C09 C10 C11 C12 C13 C14 C15 C16 C17 C18 C19 C20}"
export CARGO_NET_OFFLINE=true
export CARGO_TARGET_DIR="$DIR/target"
mkdir -p "$DIR/target"
(cd "$DIR/harness" && cargo build --release --offline >"$DIR/target/build.log" 2>&1) || { echo "BUILD FAILED"; tail -20 "$DIR/target/build.log"; exit 2; }
if [ -n "$VERIF_SCRATCH" ]; then
  mkdir -p "$VERIF_SCRATCH"; cp "$DIR/known_findings.txt" "$VERIF_SCRATCH/" 2>/dev/null
  export VERIF_DIR="$VERIF_SCRATCH"
else
  export VERIF_DIR="$DIR"
fi
for id in $IDS; do
  out=$("$DIR/target/release/verif" "$id" --tier "$TIER" 2>&1); code=$?
  sig=$(printf '%s\n' "$out" | grep -m1 'signature:' | sed 's/.*signature: //')
  echo "$id $code $sig"
done
