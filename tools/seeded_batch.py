#!/usr/bin/env python3
"""usage: tools/seeded_batch.py C01 C02 ...  — evaluates /tmp/wt-<id>/SEEDED/{A,B}, copies kept ones to /verif/seeded/<id>-<A|B>/ with meta.json"""
import json, os, re, shutil, subprocess, sys
VER = os.path.dirname(os.path.dirname(os.path.abspath(__file__)))
props = {json.loads(l)['id']: json.loads(l) for l in open(os.path.join(VER, 'properties.jsonl'))}
ROUND2 = '--round2' in sys.argv
ROUND7 = '--round7' in sys.argv or '--round9' in sys.argv or '--round11' in sys.argv
ROUND3 = '--round3' in sys.argv or '--round4' in sys.argv or '--round6' in sys.argv or ROUND7
ROUND4 = '--round4' in sys.argv or '--round6' in sys.argv or ROUND7
ROUND6 = '--round6' in sys.argv or ROUND7
RN = '11' if '--round11' in sys.argv else '9' if '--round9' in sys.argv else ('7' if ROUND7 else '6')
R3 = {'a': 'C20', 'b': 'C11', 'c': 'C18', 'd': 'C02'}
args = [a for a in sys.argv[1:] if not a.startswith('--')]
for arg in args:
    pid = R3[arg] if (ROUND3 and not ROUND4) else arg
    for v0 in ('ABCD' if ROUND3 else 'AB'):
        if ROUND4:
            d = f'/tmp/wt{RN}-{arg}/SEEDED/{v0}' if ROUND6 else f'/tmp/wt4-{arg}/SEEDED/{v0}'
            try:
                first = open(os.path.join(d, 'NOTES.md')).readline()
                pid = re.search(r'C\d\d', first).group(0)
            except Exception:
                pid = 'C07'
            v = f'R{RN}{arg}{v0}' if ROUND6 else f'R4{arg}{v0}'
        elif ROUND3:
            d = f'/tmp/wt3-{arg}/SEEDED/{v0}'
            v = {'A': 'E', 'B': 'F', 'C': 'G', 'D': 'H'}[v0]
        else:
            d = f'/tmp/wt2-{pid}/SEEDED/{v0}' if ROUND2 else f'/tmp/wt-{pid}/SEEDED/{v0}'
            v = {'A': 'C', 'B': 'D'}[v0] if ROUND2 else v0
        if not os.path.exists(os.path.join(d, 'patch.diff')):
            print(pid, v, 'missing'); continue
        out = subprocess.run([os.path.join(VER, 'tools/seeded_eval.sh'), d], capture_output=True, text=True).stdout
        sec = re.split(r'^== ', out, flags=re.M)
        def part(name):
            for s in sec:
                if s.startswith(name): return s
            return ''
        demo_clean = part('demo without')
        demo_mut = part('demo with the patch')
        suite = part('repository suite')
        checks = part('checks against')
        demo_clean_ok = 'test result: ok' in demo_clean and 'FAILED' not in demo_clean
        demo_mut_fails = 'FAILED' in demo_mut or 'error' in demo_mut
        suite_ok = 'FAILED' not in suite and 'error[' not in suite and suite.count('test result: ok') >= 6
        det = {}
        for line in checks.splitlines():
            m = re.match(r'^(C\d+) (\d+) ?(.*)$', line)
            if m: det[m.group(1)] = (int(m.group(2)), m.group(3))
        caught = sorted(k for k, (c, _) in det.items() if c == 1)
        broken = sorted(k for k, (c, _) in det.items() if c not in (0, 1))
        keep = demo_clean_ok and demo_mut_fails and suite_ok
        print(f'{pid}-{v}: demo_clean_ok={demo_clean_ok} demo_mut_fails={demo_mut_fails} suite_ok={suite_ok} caught_by={caught} own={"yes" if pid in caught else "NO"} machinery={broken}')
        dst = os.path.join(VER, 'seeded', f'{pid}-{v}')
        if keep:
            os.makedirs(dst, exist_ok=True)
            for f in ('patch.diff', 'demo.rs', 'NOTES.md'):
                if os.path.exists(os.path.join(d, f)): shutil.copy(os.path.join(d, f), dst)
            notes = open(os.path.join(d, 'NOTES.md')).read() if os.path.exists(os.path.join(d, 'NOTES.md')) else ''
            meta = {
                'property': pid,
                'title': props[pid]['title'],
                'origin': 'independent sub-agent given only the property text and a scratch worktree',
                'needs_to_manifest': 'see NOTES.md',
                'verified': {
                    'repository_suite_passes_with_change': suite_ok,
                    'demo_fails_with_change': demo_mut_fails,
                    'demo_passes_without_change': demo_clean_ok,
                    'how': 'tools/seeded_eval.sh: scratch worktree of /repo HEAD, cargo test -p renet -p renetcode -p renet_netcode -p renet_visualizer --offline; then git -C /repo apply, tools/run_all.sh quick, git -C /repo checkout -- .',
                },
                'quick_checks_reporting_a_violation': {k: det[k][1] for k in caught},
                'caught_by_own_property_check': pid in caught,
            }
            json.dump(meta, open(os.path.join(dst, 'meta.json'), 'w'), indent=1)
        else:
            open(f'/tmp/seeded-rejected-{pid}-{v}.txt', 'w').write(out)
