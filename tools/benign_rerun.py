#!/usr/bin/env python3
"""usage: tools/benign_rerun.py [names...] — re-evaluates the property-preserving changes kept in /verif/benign/<name>/patch.diff
against the current checks: apply to /repo, run every quick check (evidence redirected), revert. Updates meta.json and benign/RESULTS.md."""
import json, os, re, subprocess, sys
VER = os.path.dirname(os.path.dirname(os.path.abspath(__file__)))
assert subprocess.run(['git', '-C', '/repo', 'status', '--porcelain'], capture_output=True, text=True).stdout.strip() == '', '/repo not clean'
names = sys.argv[1:] or sorted(d for d in os.listdir(os.path.join(VER, 'benign')) if os.path.isdir(os.path.join(VER, 'benign', d)))
rows = []
for n in names:
    d = os.path.join(VER, 'benign', n)
    r = subprocess.run(['git', '-C', '/repo', 'apply', os.path.join(d, 'patch.diff')], capture_output=True, text=True)
    if r.returncode != 0:
        print(n, 'PATCH DOES NOT APPLY', r.stderr[:200]); continue
    env = dict(os.environ, VERIF_SCRATCH='/tmp/verif-scratch-benign')
    out = subprocess.run([os.path.join(VER, 'tools/run_all.sh'), 'quick'], capture_output=True, text=True, env=env).stdout
    subprocess.run(['git', '-C', '/repo', 'checkout', '--', '.'])
    det = {}
    for line in out.splitlines():
        m = re.match(r'^(C\d+) (\d+) ?(.*)$', line)
        if m: det[m.group(1)] = (int(m.group(2)), m.group(3))
    alarms = {k: s for k, (c, s) in det.items() if c == 1}
    machinery = sorted(k for k, (c, _) in det.items() if c not in (0, 1))
    build_failed = 'BUILD FAILED' in out
    print(f'{n}: alarms={alarms} machinery={machinery} build_failed={build_failed}', flush=True)
    mp = os.path.join(d, 'meta.json')
    meta = json.load(open(mp)) if os.path.exists(mp) else {}
    meta.update({'quick_checks_raising_an_alarm': alarms, 'checks_with_machinery_exit': machinery, 'harness_build_failed': build_failed})
    json.dump(meta, open(mp, 'w'), indent=1)
    rows.append((n, alarms, machinery, build_failed))
if not sys.argv[1:]:
    with open(os.path.join(VER, 'benign', 'RESULTS.md'), 'w') as f:
        f.write('# Property-preserving changes against the current quick checks\n\n| change | alarms | machinery exits | harness build |\n|---|---|---|---|\n')
        for n, a, m, b in rows:
            f.write(f'| {n} | {", ".join(f"{k}: {v}" for k, v in a.items()) or "none"} | {", ".join(m) or "none"} | {"FAILED" if b else "ok"} |\n')
