#!/bin/sh
# usage: tools/coverage.sh [scratch dir]   (default /tmp/verif-cov; removed and re-created)
# Line / region coverage of the library sources (/repo/renet*, /repo/renetcode) reached by the quick tier of all 20
# checks: an instrumented build of the harness with the nightly toolchain's llvm-tools, every quick check run once
# (the instrumented binary is several times slower, so wall-clock caps may stop some searches early: the numbers are
# a lower bound), then llvm-cov report. Not part of any check; a vacuity measurement.
S="${1:-/tmp/verif-cov}"
DIR="$(cd "$(dirname "$0")/.." && pwd)"
B="$HOME/.rustup/toolchains/nightly-x86_64-unknown-linux-gnu/lib/rustlib/x86_64-unknown-linux-gnu/bin"
rm -rf "$S"; mkdir -p "$S/scratch"
(cd "$DIR/harness" && RUSTFLAGS="-C instrument-coverage" CARGO_TARGET_DIR="$S/target" CARGO_NET_OFFLINE=true cargo +nightly build --release --offline >"$S/build.log" 2>&1) || { tail -20 "$S/build.log"; exit 2; }
cp "$DIR/known_findings.txt" "$S/scratch/" 2>/dev/null
for i in 01 02 03 04 05 06 07 08 09 10 11 12 13 14 15 16 17 18 19 20; do
  LLVM_PROFILE_FILE="$S/C$i-%p.profraw" VERIF_DIR="$S/scratch" "$S/target/release/verif" C$i --tier quick >"$S/C$i.log" 2>&1
  echo "C$i exit $?"
done
"$B/llvm-profdata" merge -sparse "$S"/*.profraw -o "$S/all.profdata"
"$B/llvm-cov" report "$S/target/release/verif" -instr-profile="$S/all.profdata" --ignore-filename-regex='(\.cargo|rustc|/verif/|harness/)' | cut -c1-170
echo "uncovered lines per file: $B/llvm-cov show $S/target/release/verif -instr-profile=$S/all.profdata /repo/<file> --show-line-counts | grep -E '\\| +0\\|'"
