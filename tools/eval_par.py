#!/usr/bin/env python3
"""Parallel evaluation of candidate changes on private copies of /repo and /verif (the real trees stay free).

usage: tools/eval_par.py [--workers N] [--benign] <name>=<dir> ...
       tools/eval_par.py [--workers N] --rerun [--benign] [names...]   re-runs every quick check against the kept changes
                         (/verif/seeded/* or /verif/benign/*) on private copies and refreshes their meta.json (+ RESULTS.md)
  <dir> holds patch.diff (+ demo.rs, NOTES.md for seeded changes). <name> is the directory name under
  /verif/seeded (or /verif/benign with --benign) the change is kept as when it qualifies.

For a seeded change: demo passes without the patch, fails with it, repository suite passes with it (all in the
worker's copy of /repo), then every quick check is run in the worker's copy of /verif against the patched copy.
For a benign change: repository suite + every quick check; alarms are listed.
Each worker owns /tmp/evalw<k>/{repo,verif,repo-target}; copies are taken once at start (HEAD working trees)."""
import json, os, re, shutil, subprocess, sys, threading, queue
VER = os.path.dirname(os.path.dirname(os.path.abspath(__file__)))
props = {json.loads(l)['id']: json.loads(l) for l in open(os.path.join(VER, 'properties.jsonl'))}
args = sys.argv[1:]
W = 4
BENIGN = '--benign' in args
RERUN = '--rerun' in args
# --known-only: re-run only the checks that reported the change before plus the check of its own property
KNOWN_ONLY = '--known-only' in args
# --own-first (first evaluation of a new change): the check of the change's own property first; all the others only when
# that one stays silent (meta.json then says which scope was run)
OWN_FIRST = '--own-first' in args
if '--workers' in args:
    i = args.index('--workers'); W = int(args[i + 1]); del args[i:i + 2]
args = [a for a in args if not a.startswith('--')]
jobs = queue.Queue()
if RERUN:
    import glob
    base = os.path.join(VER, 'benign' if BENIGN else 'seeded')
    for d in sorted(glob.glob(os.path.join(base, '*'))):
        name = os.path.basename(d)
        if not os.path.exists(os.path.join(d, 'patch.diff')):
            continue
        if args and name not in args and name.split('-')[0] not in args:
            continue
        jobs.put((name, d))
else:
    for a in args:
        name, d = a.split('=', 1)
        jobs.put((name, d))
W = max(1, min(W, jobs.qsize()))
lock = threading.Lock()

def sh(cmd, **kw):
    return subprocess.run(cmd, shell=True, capture_output=True, text=True, **kw)

def setup(k):
    S = f'/tmp/{os.environ.get("EVAL_PREFIX", "evalw")}{k}'
    sh(f'rm -rf {S}/repo {S}/verif {S}/scratch; mkdir -p {S}')
    sh(f'rsync -a --exclude target --exclude .git /repo/ {S}/repo/')
    sh(f'cd {S}/repo && git init -q && git add -A >/dev/null 2>&1 && git -c user.email=x@x -c user.name=x commit -qm snap')
    rev = os.environ.get('VERIF_REV')
    if rev:
        # the harness as committed at <rev> (first evaluation of a round: before any strengthening in the working tree)
        sh(f'mkdir -p {S}/verif && git -C {VER} archive {rev} -- harness tools known_findings.txt properties.jsonl check | tar -x -C {S}/verif')
    else:
        sh(f'rsync -a --exclude target --exclude .git --exclude seeded --exclude benign --exclude findings {VER}/ {S}/verif/')
    sh(f'sed -i "s#/repo/#{S}/repo/#g" {S}/verif/harness/Cargo.toml')
    sh(f'sed -i "s#/verif/target#{S}/verif/target#" {S}/verif/harness/.cargo/config.toml')
    return S

def section(out, name):
    for s in re.split(r'^== ', out, flags=re.M):
        if s.startswith(name): return s
    return ''

def evaluate(S, name, d):
    env = dict(os.environ, CARGO_NET_OFFLINE='true', CARGO_TARGET_DIR=f'{S}/repo-target')
    R = f'{S}/repo'
    res = {'name': name}
    sh(f'cd {R} && git checkout -q -- . && git clean -fdq -e Cargo.lock')
    filt = '| grep -E "^test result|error\\[|error:|FAILED|panicked" | head -8'
    if not BENIGN and not RERUN:
        first = open(os.path.join(d, 'demo.rs')).readline()
        m = re.search(r'[a-z_]+/tests/[A-Za-z0-9_]+\.rs', first)
        demo_path = m.group(0) if m else 'renet/tests/seeded_demo.rs'
        crate, tname = demo_path.split('/')[0], os.path.basename(demo_path)[:-3]
        os.makedirs(os.path.join(R, os.path.dirname(demo_path)), exist_ok=True)
        shutil.copy(os.path.join(d, 'demo.rs'), os.path.join(R, demo_path))
        o = sh(f'cd {R} && cargo test -p {crate} --test {tname} --offline 2>&1 {filt}', env=env).stdout
        res['demo_clean_ok'] = 'test result: ok' in o and 'FAILED' not in o
        res['demo_clean_out'] = o
    r = sh(f'cd {R} && git apply {os.path.join(d, "patch.diff")}')
    if r.returncode != 0:
        res['error'] = 'PATCH DOES NOT APPLY: ' + r.stderr[:300]
        return res
    if not BENIGN and not RERUN:
        o = sh(f'cd {R} && cargo test -p {crate} --test {tname} --offline 2>&1 {filt}', env=env).stdout
        res['demo_mut_fails'] = 'FAILED' in o or 'error' in o
        res['demo_mut_out'] = o
        os.remove(os.path.join(R, demo_path))
    if RERUN:
        res['suite_ok'] = True
    else:
        o = sh(f'cd {R} && cargo test -p renet -p renetcode -p renet_netcode -p renet_visualizer --offline 2>&1 | grep -E "^test result|error\\[|FAILED"', env=env).stdout
        res['suite_ok'] = 'FAILED' not in o and 'error[' not in o and o.count('test result: ok') >= 6
        res['suite_out'] = o
    env2 = dict(os.environ, VERIF_SCRATCH=f'{S}/scratch')
    env2.pop('CARGO_TARGET_DIR', None)
    ids = ''
    if RERUN and KNOWN_ONLY and not BENIGN:
        m = json.load(open(os.path.join(d, 'meta.json')))
        ids = ' '.join(sorted(set(m.get('quick_checks_reporting_a_violation', {})) | {m['property']}))
    if os.environ.get('EVAL_IDS'):
        ids = os.environ['EVAL_IDS']   # restrict the checks that are run (recorded by the caller)
    if OWN_FIRST and not RERUN and not BENIGN:
        ids = name.split('-')[0]
    out = sh(f'{S}/verif/tools/run_all.sh quick {ids}', env=env2).stdout
    if OWN_FIRST and not RERUN and not BENIGN and not re.search(r'^%s 1 ' % ids, out, flags=re.M):
        rest = ' '.join(k for k in sorted(props) if k != ids)
        out += sh(f'{S}/verif/tools/run_all.sh quick {rest}', env=env2).stdout
        res['scope'] = 'all quick checks'
    elif OWN_FIRST and not RERUN and not BENIGN:
        res['scope'] = 'the check of its own property only (it reported the change)'
    det = {}
    for line in out.splitlines():
        m = re.match(r'^(C\d+) (\d+) ?(.*)$', line)
        if m: det[m.group(1)] = (int(m.group(2)), m.group(3))
    res['build_failed'] = 'BUILD FAILED' in out
    if res['build_failed']: res['build_log'] = out[-1500:]
    res['caught'] = {k: s for k, (c, s) in det.items() if c == 1}
    res['machinery'] = sorted(k for k, (c, _) in det.items() if c not in (0, 1))
    sh(f'cd {R} && git checkout -q -- . && git clean -fdq -e Cargo.lock')
    return res

def refresh(name, d, res):
    mp = os.path.join(d, 'meta.json')
    meta = json.load(open(mp))
    if BENIGN:
        meta['quick_checks_raising_an_alarm'] = res['caught']
        meta['checks_with_machinery_exit'] = res['machinery']
        meta['harness_build_failed'] = res['build_failed']
    else:
        if KNOWN_ONLY:
            meta['rerun_scope'] = 'checks that reported it before + the check of its own property'
        else:
            meta.pop('rerun_scope', None)
        meta['quick_checks_reporting_a_violation'] = res['caught']
        meta['caught_by_own_property_check'] = meta['property'] in res['caught']
        meta['checks_ending_with_a_machinery_exit'] = res['machinery']
    json.dump(meta, open(mp, 'w'), indent=1)

def keep(name, d, res):
    if RERUN:
        return refresh(name, d, res)
    if BENIGN:
        dst = os.path.join(VER, 'benign', name)
        os.makedirs(dst, exist_ok=True)
        for f in ('patch.diff', 'NOTES.md'):
            if os.path.exists(os.path.join(d, f)): shutil.copy(os.path.join(d, f), dst)
        json.dump({'kind': 'property-preserving change written by an independent sub-agent', 'repository_suite_passes': res['suite_ok'],
                   'quick_checks_raising_an_alarm': res['caught'], 'checks_with_machinery_exit': res['machinery'],
                   'harness_build_failed': res['build_failed']}, open(os.path.join(dst, 'meta.json'), 'w'), indent=1)
        return
    pid = name.split('-')[0]
    ok = res.get('demo_clean_ok') and res.get('demo_mut_fails') and res.get('suite_ok')
    if not ok:
        json.dump(res, open(f'/tmp/seeded-rejected-{name}.json', 'w'), indent=1)
        return
    dst = os.path.join(VER, 'seeded', name)
    os.makedirs(dst, exist_ok=True)
    for f in ('patch.diff', 'demo.rs', 'NOTES.md'):
        if os.path.exists(os.path.join(d, f)): shutil.copy(os.path.join(d, f), dst)
    meta = {
        'property': pid, 'title': props[pid]['title'],
        'origin': 'independent sub-agent given only the property text and a scratch worktree',
        'needs_to_manifest': 'see NOTES.md',
        'verified': {'repository_suite_passes_with_change': True, 'demo_fails_with_change': True, 'demo_passes_without_change': True,
                     'how': 'tools/eval_par.py: private copy of /repo HEAD, demo test without / with the patch, cargo test -p renet -p renetcode -p renet_netcode -p renet_visualizer --offline with the patch; then every quick check of a private copy of /verif against the patched copy (tools/seeded_rerun.py repeats that against /repo itself)'},
        'quick_checks_reporting_a_violation': res['caught'],
        'caught_by_own_property_check': pid in res['caught'],
        'checks_ending_with_a_machinery_exit': res['machinery'],
    }
    if 'scope' in res: meta['first_evaluation_scope'] = res['scope']
    json.dump(meta, open(os.path.join(dst, 'meta.json'), 'w'), indent=1)

def worker(k):
    S = setup(k)
    while True:
        try: name, d = jobs.get_nowait()
        except queue.Empty: return
        try:
            res = evaluate(S, name, d)
        except Exception as e:
            res = {'name': name, 'error': repr(e)}
        with lock:
            if 'error' in res:
                print(f'{name}: ERROR {res["error"]}', flush=True)
            elif RERUN and not BENIGN:
                own = json.load(open(os.path.join(d, 'meta.json')))['property']
                print(f'{name}: caught_by={sorted(res["caught"])} own={"yes" if own in res["caught"] else "NO"} machinery={res["machinery"]} build_failed={res["build_failed"]}', flush=True)
                keep(name, d, res)
            elif BENIGN:
                print(f'{name}: suite_ok={res["suite_ok"]} alarms={res["caught"]} machinery={res["machinery"]} build_failed={res["build_failed"]}', flush=True)
                keep(name, d, res)
            else:
                pid = name.split('-')[0]
                print(f'{name}: demo_clean_ok={res["demo_clean_ok"]} demo_mut_fails={res["demo_mut_fails"]} suite_ok={res["suite_ok"]} '
                      f'caught_by={sorted(res["caught"])} own={"yes" if pid in res["caught"] else "NO"} machinery={res["machinery"]} build_failed={res["build_failed"]}', flush=True)
                keep(name, d, res)

ts = [threading.Thread(target=worker, args=(k,)) for k in range(W)]
for t in ts: t.start()
for t in ts: t.join()
