# one claim(...) per property whose check exists; read by gen_manifest.py
TB = "trusted: rustc, the harness driver (network/clock/application ownership), the cfg-guarded read-only snapshot hooks; bounds as stated in the evidence file; payload contents limited to the harness pattern"

claim("C01",
      "bounded exhaustive schedule enumeration (deviation-bounded, stateless re-execution of the real code)",
      "every fault schedule with at most d deviations (drop, duplicate, delay 1/2 ticks, late duplicate, batch reversal, skipped drain) over a 5-tick horizon, for every script x tick-length x direction scenario, executed on the real RenetClient/RenetServer; prefix oracle after every drain and completion after a fault-free tail",
      TB, "DESIGN.md §5 C01")
