# one claim(...) per property whose check exists; read by gen_manifest.py
TB = "trusted: rustc, the harness driver (network/clock/application ownership), the cfg-guarded read-only snapshot hooks; bounds as stated in the evidence file; payload contents limited to the harness pattern"

claim("C01",
      "bounded exhaustive schedule enumeration (deviation-bounded, stateless re-execution of the real code)",
      "M2: every fault schedule with at most d deviations (drop, duplicate, delay 1/2 ticks, late duplicate, batch reversal, skipped drain) over a 4-5 tick horizon for script x tick-length x direction scenarios (incl. bidirectional traffic, other resend times, a message larger than half the budget) on the real RenetClient/RenetServer; prefix oracle after every drain, completion after a fault-free tail. M1 (API soup): every interleaving of send/update/flush/deliver/drop/duplicate/receive calls up to depth D with <= 3 packets in flight, with a liveness probe on a clone in every state",
      TB, "DESIGN.md §5 C01")

claim("C02",
      "bounded exhaustive schedule enumeration (deviation-bounded, stateless re-execution of the real code)",
      "M2 as C01 on unordered channels with the application draining at the end / not at all / after every single arrival; at-most-once + provenance after every drain, complete => yielded by the next drain, completion after the tail. M1 (API soup) with the same oracles and a liveness probe on a clone in every state",
      TB, "DESIGN.md §5 C02")

claim("C08",
      "bounded exhaustive schedule enumeration + explicit-state DFS of the ack range list (real code, reference set model)",
      "M2 over data and ack packet fates (d deviations): a message leaves the unacknowledged set / returns its bytes only if every packet needed to rebuild it was handed to the peer; M1 (ack world): all interleavings of arrivals of every ordered subset of a small sequence universe, flushes and acks-of-acks, and continuations from prebuilt 63/64/65-range states: ack packets only cover sequence numbers that arrived; M1 (API soup) with the release oracle after every call",
      TB, "DESIGN.md §5 C08")

claim("C09",
      "bounded exhaustive schedule enumeration (deviation-bounded, stateless re-execution of the real code)",
      "M2 over ample-budget, exactly-filled-budget, tight-budget (gated send cycles), bandwidth-starved, unreliable-overrun and 1-second-tick unreliable-fragment scenarios: accounted bytes of all four channel kinds within [0,max] and equal to what the channel still holds after every library call, no unreliable reservation older than 3 s after update, zero residue and full budget at the quiescent end, no budget disconnect for in-budget traffic; M1 (API soup) with the same bounds and a quiescence probe on a clone in every state",
      TB, "DESIGN.md §5 C09")

claim("C03",
      "exhaustive enumeration of delivery sequences (permutations, duplicates, losses) of real packet batches",
      "sweep over (message set, delivery sequence) cases: every boundary length on every channel kind and direction, every ordered pair from the packing alphabet, all 24/720 interleavings of the slices of two sliced messages, one message per channel in every delivery permutation; each with every single duplicate and every single loss; oracle: byte identity with a message submitted on the same channel/direction, unreliable copies bounded by packet deliveries, reliable exactly once after a fault-free tail",
      TB, "DESIGN.md §5 C03")

claim("C13",
      "exhaustive sweeps over size/counter classes + explicit-state DFS of the ack range list + schedule enumeration with a size oracle",
      "all pairs/triples of message lengths 1188..1201 x 8 sequence classes x 8 message-id classes on reliable and unreliable channels through the real sender (packet <= 1300, never PacketSerialization, peer reads everything back); ack packets for 1..400 pending ranges x 6 spacings x 3 arrival orders; the ack-world DFS; the C01 schedule exploration with the size oracle on every flush; netcode datagram sizes for payload lengths {0,1,1299,1300,1301} x sequence classes",
      TB, "DESIGN.md §5 C13")

claim("C14",
      "bounded exhaustive schedule enumeration (deviation-bounded, stateless re-execution of the real code)",
      "9 budgets x 8 channel lists x mixed-size script, every schedule with <= d drop/delay deviations on data and ack packets; constraint oracle on the decoded packets of every get_packets_to_send (sum <= budget, unsent eligible items did not fit what their channel left, unreliable whole-or-dropped-forever, reliable backlog eventually sent)",
      TB, "DESIGN.md §5 C14")

claim("C15",
      "bounded exhaustive schedule enumeration over tick-length words and ack fates",
      "every tick-length word over {R/3,R/2,R,3R/2} up to length 2/4 x 4 scripts x every schedule with <= 2 deviations on data and ack packets, plus 3.1 s silences; oracle on decoded packets: spacing >= resend_time, prompt retransmission at the first due flush, silence after a processed ack (< 3 s old)",
      TB, "DESIGN.md §5 C15")

claim("C16",
      "exhaustive enumeration of value products and byte mutations through the crates' own codecs + explicit-state DFS of the ack range list",
      "decode(encode(v)) = v over the product of field classes for all five renet packet kinds, all seven netcode packet kinds x 18 sequence values x keys x payload lengths, challenge tokens, connect tokens with every 1..32 address shape through write/read and seal/open; every single-byte substitution / truncation of exemplar encodings and hand-assembled token slot patterns must re-encode to the same value; ack packet = reference set in every state of the ack world",
      TB, "DESIGN.md §5 C16")

claim("C06",
      "exhaustive sweep of a hostile packet alphabet and of slice-family words over prepared protocol states (real endpoints)",
      "every single packet of a hand-assembled boundary-value alphabet, and every pair / triple over the slice family {index} x {count} x {payload length} of one message id on all three channel kinds, injected into 7 prepared states of a client endpoint and of a server-side connection; oracle: no unwind, connected-or-disconnected-with-reason, receive accounting within budget, follow-up API calls return, the server's other connection completes a reliable exchange",
      TB, "DESIGN.md §5 C06")

claim("C11",
      "explicit-state DFS over a multi-client API alphabet with differential isolation probes on clones in every state",
      "all action sequences up to depth D for 2 and 3 clients (connect, disconnect, remove, send, broadcast, broadcast_except, client send, tick, link-down tick, hostile packet); in every state: uniquely labelled messages are only obtained by their recipients / under their sender's id, on their channel, once; fault-free probe delivers every reliable message to every still-healthy recipient; probes with one client's link down or one ordered stream stalled leave every other observer's (label, tick) log identical",
      TB, "DESIGN.md §5 C11")

claim("C12",
      "explicit-state DFS over the public API alphabet of RenetServer and RenetClient (real objects, cloned per state)",
      "all public-API call sequences up to depth D on a server with a remote and a local client id and on a stand-alone client; in every state disconnected connections are probed on a clone (emit nothing, yield nothing, accept nothing, cannot be revived, reason unchanged) and the event stream is checked for strict Connected/Disconnected alternation and first-reason reporting",
      TB, "DESIGN.md §5 C12")

claim("C04",
      "explicit-state DFS over delivery histories of genuine / replayed / tampered payload datagrams against a reference window",
      "all histories up to length L over genuine payload packets at the anti-replay window boundaries (bases 0, 2^32-256, 2^56, 2^64-600) with one tampered copy per history (11 tamper kinds), against both NetcodeServer::process_packet and NetcodeClient::process_packet of a connected session; reference-window oracle: non-authentic never surfaces nor moves the window (hook digest), genuine at most once, byte-identical, right client id, and must surface when fresh and < 256 behind",
      TB + "; ChaCha20-Poly1305 (RustCrypto) trusted", "DESIGN.md §5 C04")

claim("C07",
      "exhaustive sweep of hostile datagram and token byte-string alphabets over prepared protocol states",
      "all 256 prefix bytes x 20 lengths x 3 fills, every genuine datagram kind with prefix / sequence replaced, truncated or extended, foreign-session and foreign-protocol packets, against server states {source unknown, pending, connected} and client states {requesting, responding, connected, disconnected}; oracle: no unwind, no result, hook snapshot identical, genuine follow-up accepted; connect-token byte strings (truncations, address count x type-byte products, timestamp/timeout extremes) through read -> NetcodeClient::new -> update",
      TB, "DESIGN.md §5 C07")

claim("C05",
      "explicit-state DFS over an attacker-driven handshake alphabet on the real NetcodeServer (cloned per state)",
      "M1: all sequences up to depth D of requests with 9 tokens (valid, expiring, foreign key, foreign protocol, wrong host, sealed for another protocol id / expiry with rewritten public fields) from 2 addresses, 9 single-field corruptions, responses echoing every issued challenge under every owned key from every address, garbage responses and clock moves around expiry; a second search starts from a full one-slot server with disconnects in the alphabet; every ClientConnected is checked against a reference model of acceptable requests (token validity, expiry at that moment, host list, token-to-address binding), exact id / user data, and the echoed challenge's client id",
      TB + "; challenge recognition by decrypting server replies with the token's keys", "DESIGN.md §5 C05")

claim("C10",
      "explicit-state DFS over a table-centred handshake/disconnect/time-out alphabet on the real NetcodeServer",
      "M1: all sequences up to depth D of requests, responses with any issued challenge, genuine disconnects and payloads, server disconnects, time-out ticks and limit changes for identities including two half-open sessions for one id and one address presenting several tokens, on servers built with 1 and 2 slots, and from a non-initial state with three clients connected on 3 slots; table invariants (distinct ids, distinct addresses, bound, lookups referring to the authenticated session, event matching, denials leave sessions untouched) in every state",
      TB, "DESIGN.md §5 C10")

claim("C17",
      "exhaustive tamper sweep (every bit / truncation / extension / foreign key / foreign protocol) + bounded exhaustive schedule enumeration with a nonce monitor",
      "(a) every single-bit flip, truncation, extension and re-sealing of one genuine datagram of every sealed kind in its accepting state is rejected without content or state change while the untampered datagram is accepted; (b) M2 over netcode sessions of 1-3 clients with losses, duplicates, delays, denials, disconnects, time-outs and fail-over: a monitor opens every emitted datagram with the session keys and finds no two different datagrams under one key with one sequence number",
      TB + "; AEAD primitives trusted", "DESIGN.md §5 C17")

claim("C18",
      "bounded exhaustive schedule enumeration over the netcode world (real server and clients, harness-owned network, clock and attacker)",
      "every schedule with <= d deviations (datagram drop/dup/delay both ways, attacker injections of forged and replayed datagrams) for handshakes at four tick lengths, two clients, address fail-over, silent client / silent server with time-outs 1/2/5 s and disabled, limit raised and lowered at run time, token expiry while half-open, coarse-tick keep-alive sessions; time-out iff no authentic datagram for longer than the token time-out (from the harness's own delivery log), half-open sessions gone after expiry, every undisturbed client with room connected after the fault-free tail",
      TB, "DESIGN.md §5 C18")

claim("C19",
      "exhaustive sweep of a datagram alphabet over server states, each datagram repeated three times",
      "valid / padded / truncated / corrupted / foreign / expired requests, valid / padded / truncated / cross-session responses and all 256 prefix bytes x parser-threshold lengths from an address without a completed handshake in six server states: at most one reply per call, to the source, strictly smaller than the datagram received, none for datagrams without a valid token or response",
      TB, "DESIGN.md §5 C19")

claim("C20",
      "bounded exhaustive schedule enumeration over real UDP transports behind a harness-owned relay (one thread, harness-owned time)",
      "every schedule with <= d per-datagram deviations (drop, duplicate, delay, corrupt body, corrupt prefix, replay; plus an on-path replay of the connection request at any tick) applied by an in-path relay to the real NetcodeServerTransport / NetcodeClientTransport / RenetServer / RenetClient over loopback UDP sockets, for fifteen session scripts (no disconnect; client renet / transport disconnect after and during the handshake; server renet disconnect; disconnect_all; kick + disconnect_all; silent client; client sending on a channel the server lacks; two clients with one client id; a listen-server host next to the transport): lock-step of message and handshake layers and of the event stream after every server update, no lingering message-layer disconnects, prompt propagation of disconnects, no session outliving its time-out without authentic traffic, both-side teardown, untouched sessions stay healthy with every reliable message delivered exactly once in order",
      TB + "; Linux loopback UDP synchronous delivery (guarded by the determinism gate)", "DESIGN.md §5 C20")

# deterministic scale cases added after the "hard mode" rounds of seeded changes (DESIGN.md §0, §8)
SCALE = {
    "C01": "lazy-application scenarios on a 12 000-byte budget; a 120-slice message at 50 slices per tick with every single (thorough: pair of) lost packet(s); 257-5000 messages queued behind a missing one",
    "C02": "as C01 on unordered channels; 300-5000 messages received ahead of a missing one, duplicates of all of them",
    "C03": "connections with 129/200/256 channels (ids up to 255), three sizes per channel and direction; single messages of 1.2 MB - 5 MiB on all channel kinds",
    "C05": "used-token table filled with 2047-2100 older tokens, and with 2047-4200 retransmissions of one request, before the token under test is presented from a second address",
    "C06": "31-80 partially reassembled unreliable messages at once",
    "C08": "the quick ack world keeps two ack packets outstanding; a 66 000-slice (79 MB) message with three packets lost once",
    "C09": "single reliable messages up to the 5 MiB default budget (found defect F18, repaired in 4436e16); 1250-2500 packets in flight before the first ack (4 ticks of latency); 60 ticks of exact tick-budget saturation against a reliable stream in the other direction",
    "C10": "servers with max_clients 255/256/257/1024 (thorough: 12 sizes) filled by real clients: refusal of one more, payload routing both ways for every client, keep-alive rounds, kick and replace, one time-out",
    "C11": "crowds of 2-300 (thorough: 2000) clients: broadcast, broadcast_except, unicast, sliced broadcast, every client sends; one kicked, one link dead",
    "C12": "2-1000 clients connecting and disconnecting between two event drains",
    "C13": "255-1000 one-byte messages in one flush",
    "C15": "sessions starting at 7 and 100 days of uptime; acknowledgements 2.2-2.9 s late",
    "C17": "key-stream reuse oracle on every pair of datagrams sealed under one key; fail-over to a second address of the same (multi-homed) server after a challenge and a whole time-out of silence",
    "C18": "300-4100 half-open sessions (table limit 4096); tokens with 32 addresses (only the last / none answering); server uptime of 100 days and 2^32+7 s; late confirmation followed by partial silence; client clocks ahead of / behind the token issuer's; a server with two public addresses; stale denials with a 2 s time-out",
    "C20": "token whose first address is silent; a second, slow server on the same host whose answers arrive after the fail-over; one 2250 ms server update; 12 empty datagrams from a stranger",
}
for _pid, _s in SCALE.items():
    if _pid in CLAIMED:
        t, text, note, ref = CLAIMED[_pid]
        CLAIMED[_pid] = (t, text + " Scale cases (deterministic, same oracles): " + _s + ".", note, ref)

# classes added in the ninth to eleventh rounds of seeded changes (recovery, configuration, outage; DESIGN.md §0, §8)
MORE = {
    "C01": "link outages of 1 / 3.25 / 10 s beginning while a sliced message is partly delivered; ~75 pending ack ranges on a live link; a tick budget that makes the packer skip a message (non-consecutive ids in one packet)",
    "C02": "the same outage, many-ack-ranges and skip-packing scenarios on unordered channels",
    "C04": "sessions whose handshake ran over a lossy path (repeated response); jumps of exactly 64 / 128 / 192 sequence numbers",
    "C05": "third search with sessions that end (time-out, kick, client disconnect) and restart; the token history on 1-3 slot servers; new tokens after ~2048 requests in total",
    "C06": "receive channels 2400 / 2000 / 1300 bytes below their budget; a later update (4 s) and every channel getter after each hostile packet",
    "C07": "floods: the same hostile datagram 2-1100 (thorough: 5000) times in a row; requests of tokens bound to another (connected / half-open) address; announced sequences around 2^31, 2^62, 2^63; the quick tier runs the thorough bounds",
    "C08": "outage and skip-packing scenarios; ack packets of the peer that are themselves late packets",
    "C09": "link outages on all three channel kinds with the residue oracle",
    "C10": "max_clients changed at run time (raised at once / one by one / raised-lowered-raised) with overlapping handshakes for the last places; aggregate getters (clients_slot) agree with per-id ones",
    "C11": "reconnect class: nine states an earlier session is left in x (same id / another id / local client) compared with a fresh server; a refused hostile slice and a 3.1 s tick in the alphabet",
    "C12": "broadcasts over the channel budget; disconnect_local_client with the handle of the previous local session; connected_clients / has_connections / network_info agree with the per-id getters",
    "C13": "fill sweep (third message of every length 1-1300 across sequence-width boundaries); ack shapes built 'every second one, then the ones in between'; the quick tier runs the thorough bounds",
    "C15": "3.4 s outages at 16 / 70 / 110 / 250 ms ticks; messages submitted in different ticks; tick budgets of 1-3 slices for a 3-slice message (budget-aware promptness)",
    "C16": "255-600 messages per packet; tokens from ConnectToken::generate incl. repeated addresses; the ack packet is compared with the endpoint's own record, which is bounded by two reference sets; the quick tier runs the thorough bounds",
    "C17": "tampered copies of a repeated request while its handshake is pending",
    "C18": "a client returning from an address whose slot was re-used (kick / time-out / disconnect datagram x same / new id x 2, 3, 8 slots); fail-over between two different servers (first one silent from the start / after its challenge / after a lost response; tokens that expire and that never do)",
    "C20": "sessions ended by broadcast_message / broadcast_message_except over the channel budget, one with a vanished peer",
}
for _pid, _s in MORE.items():
    if _pid in CLAIMED:
        t, text, note, ref = CLAIMED[_pid]
        CLAIMED[_pid] = (t, text + " Further classes: " + _s + ".", note, ref)

# classes added in the thirteenth round of seeded changes (R17; DESIGN.md §8)
R17 = {
    "C03": "unreliable messages under a tick budget: every triple over 9 lengths, one per tick, x 9 budgets x direction on a lossless link (only whole submitted messages, each at most once)",
    "C05": "the attacker answers challenges with the keys of the invalid tokens it owns too (foreign key, foreign protocol id, wrong host list)",
    "C10": "limits requested above the library maximum of 1024 (clamped) with overlapping handshakes for the last places; ids without a session resolve to nothing in every lookup",
    "C11": "reconnect class also after a local client that left through disconnect_local_client; broadcast_message / broadcast_message_except in the new session's standard exchange",
    "C13": "fill sweep across slices: small + sliced + small of every length 1-1300 in one flush, started 0-7 packets before each sequence-width boundary",
    "C14": "7 budgets x 2 channel lists with 2500-3601-byte unreliable messages (budgets covering some of their slices) beside a reliable channel",
    "C20": "transport-level lookups (user_data, time_since_last_received_packet) agree with the session authenticated for the id and answer nothing for ids without one",
}
for _pid, _s in R17.items():
    if _pid in CLAIMED:
        t, text, note, ref = CLAIMED[_pid]
        CLAIMED[_pid] = (t, text + " Round R17: " + _s + ".", note, ref)

# classes added in the fourteenth round of seeded changes (R18; DESIGN.md §8)
R18 = {
    "C04": "reflection of an endpoint's own datagrams in a secure and an unsecure session; set_max_clients sequences while sessions run (everything surfaced earlier stays refused)",
    "C18": "payload-only session: both sides send a payload every 100 ms for four time-outs, no keep-alive is ever emitted",
    "C19": "states in which the token's client id is connected from another address (silent since its handshake / heard)",
}
for _pid, _s in R18.items():
    if _pid in CLAIMED:
        t, text, note, ref = CLAIMED[_pid]
        CLAIMED[_pid] = (t, text + " Round R18: " + _s + ".", note, ref)
