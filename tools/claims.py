# one claim(...) per property whose check exists; read by gen_manifest.py
TB = "trusted: rustc, the harness driver (network/clock/application ownership), the cfg-guarded read-only snapshot hooks; bounds as stated in the evidence file; payload contents limited to the harness pattern"

claim("C01",
      "bounded exhaustive schedule enumeration (deviation-bounded, stateless re-execution of the real code)",
      "every fault schedule with at most d deviations (drop, duplicate, delay 1/2 ticks, late duplicate, batch reversal, skipped drain) over a 5-tick horizon, for every script x tick-length x direction scenario, executed on the real RenetClient/RenetServer; prefix oracle after every drain and completion after a fault-free tail",
      TB, "DESIGN.md §5 C01")

claim("C02",
      "bounded exhaustive schedule enumeration (deviation-bounded, stateless re-execution of the real code)",
      "every fault schedule with at most d deviations (incl. the application draining after every single arrival / not at all) over a 5-tick horizon per scenario on the real endpoints; at-most-once + provenance oracle after every drain, no-head-of-line-blocking oracle (complete => yielded by the next drain), completion after a fault-free tail",
      TB, "DESIGN.md §5 C02")

claim("C08",
      "bounded exhaustive schedule enumeration + explicit-state DFS of the ack range list (real code, reference set model)",
      "M2 over data and ack packet fates: a message leaves the unacknowledged set / returns its bytes only if every packet needed to rebuild it was handed to the peer; M1 over all interleavings of arrivals of every ordered subset of a small sequence universe, flushes and acks-of-acks, and continuations from prebuilt 63/64/65-range states: ack packets only cover sequence numbers that arrived",
      TB, "DESIGN.md §5 C08")

claim("C09",
      "bounded exhaustive schedule enumeration (deviation-bounded, stateless re-execution of the real code)",
      "M2 over ample-budget, tight-budget (three gated send cycles) and 1-second-tick unreliable-fragment scenarios: accounted bytes of all four channel kinds within [0,max] after every library call, no unreliable reservation older than 3 s after update, zero residue and full budget at the quiescent end, no budget disconnect for in-budget traffic",
      TB, "DESIGN.md §5 C09")
