#!/bin/sh
# usage: tools/seeded_eval.sh <dir with patch.diff and demo.rs>
# 1. in a scratch worktree: the repository's own tests pass with the patch, the demo fails with it and passes without
# 2. against /repo: apply the patch, run every quick check (evidence redirected to a scratch dir), revert
D="$(cd "$1" && pwd)"
WT=/tmp/wt-eval
DIR="$(cd "$(dirname "$0")/.." && pwd)"
set -u
git -C /repo worktree remove --force $WT >/dev/null 2>&1
git -C /repo worktree add -q $WT HEAD && cp /repo/Cargo.lock $WT/ || exit 2
export CARGO_NET_OFFLINE=true
export CARGO_TARGET_DIR=/tmp/wt-eval-target
demo_path=$(head -1 "$D/demo.rs" | grep -o '[a-z_]*/tests/[A-Za-z0-9_]*\.rs' | head -1)
[ -z "$demo_path" ] && demo_path="renet/tests/seeded_demo.rs"
crate=$(echo "$demo_path" | cut -d/ -f1)
tname=$(basename "$demo_path" .rs)
mkdir -p "$WT/$(dirname $demo_path)"; cp "$D/demo.rs" "$WT/$demo_path"
echo "== demo without the patch (must pass)"
(cd $WT && cargo test -p $crate --test $tname --offline 2>&1 | grep -E "^test result|error\[|FAILED|panicked" | head -5)
echo "== apply patch"
(cd $WT && git apply "$D/patch.diff") || { echo "PATCH DOES NOT APPLY"; exit 2; }
echo "== demo with the patch (must fail)"
(cd $WT && cargo test -p $crate --test $tname --offline 2>&1 | grep -E "^test result|error\[|FAILED|panicked" | head -5)
echo "== repository suite with the patch (must pass)"
rm -f "$WT/$demo_path"
(cd $WT && cargo test -p renet -p renetcode -p renet_netcode -p renet_visualizer --offline 2>&1 | grep -E "^test result|error\[|FAILED" )
git -C /repo worktree remove --force $WT
echo "== checks against /repo with the patch"
git -C /repo apply "$D/patch.diff" || { echo "PATCH DOES NOT APPLY TO /repo"; exit 2; }
VERIF_SCRATCH=/tmp/verif-scratch "$DIR/tools/run_all.sh" quick
git -C /repo checkout -- .
git -C /repo status --short
