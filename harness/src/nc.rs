//! World N1 toolkit: a real NetcodeServer (secure mode), real NetcodeClients, deterministic
//! tokens, owned server results, and an attacker's view of the crates' own packet codec.

use crate::explore::Violation;
use crate::link::guard;
use renetcode::verif::{Packet, VerifPrivateToken};
use renetcode::{ClientAuthentication, ConnectToken, NetcodeClient, NetcodeServer, ServerAuthentication, ServerConfig, ServerResult};
use std::net::{IpAddr, Ipv4Addr, SocketAddr};
use std::time::Duration;

pub const PROTOCOL: u64 = 0x7e57_0001;
pub const SERVER_KEY: [u8; 32] = [0x42; 32];
pub const FOREIGN_KEY: [u8; 32] = [0x43; 32];

pub fn server_addr(i: u16) -> SocketAddr {
    SocketAddr::new(IpAddr::V4(Ipv4Addr::new(10, 0, 0, 1)), 5000 + i)
}

/// Client addresses: i and i+1 share the IP (odd i) or the port (even i), like peers behind one NAT or
/// peers that picked the same source port: an address is only identified by the (IP, port) pair.
pub fn client_addr(i: u16) -> SocketAddr {
    SocketAddr::new(IpAddr::V4(Ipv4Addr::new(192, 168, 1, 10 + ((i + 1) / 2) as u8)), 40_000 + i / 2 + 1)
}

/// the same numbering with IPv6 addresses
pub fn client_addr6(i: u16) -> SocketAddr {
    SocketAddr::new(IpAddr::V6(std::net::Ipv6Addr::new(0x2001, 0xdb8, 0, 0, 0, 0x100, 0, 10 + (i + 1) / 2)), 40_000 + i / 2 + 1)
}

pub fn server_addr6(i: u16) -> SocketAddr {
    SocketAddr::new(IpAddr::V6(std::net::Ipv6Addr::new(0x2001, 0xdb8, 0, 0, 0, 0, 0, 1)), 5000 + i)
}

pub fn new_server(max_clients: usize, public: Vec<SocketAddr>, now: Duration) -> NetcodeServer {
    NetcodeServer::new(ServerConfig {
        current_time: now,
        max_clients,
        protocol_id: PROTOCOL,
        public_addresses: public,
        authentication: ServerAuthentication::Secure { private_key: SERVER_KEY },
    })
}

pub fn user_data(tag: u8) -> [u8; 256] {
    let mut u = [0u8; 256];
    for (i, b) in u.iter_mut().enumerate() {
        *b = tag ^ (i as u8).wrapping_mul(3);
    }
    u[0] = tag;
    u
}

#[derive(Clone, Debug)]
pub struct TokenSpec {
    pub client_id: u64,
    pub create: u64,
    pub expire: u64,
    pub timeout: i32,
    pub addrs: Vec<SocketAddr>,
    pub tag: u8,
    pub protocol: u64,
    pub key: [u8; 32],
}

impl TokenSpec {
    pub fn new(client_id: u64, tag: u8, addrs: Vec<SocketAddr>) -> Self {
        TokenSpec {
            client_id,
            create: 0,
            expire: 30,
            timeout: 5,
            addrs,
            tag,
            protocol: PROTOCOL,
            key: SERVER_KEY,
        }
    }
}

/// Deterministic connect token (fixed session keys and xnonce derived from the tag), sealed
/// with the crate's own PrivateConnectToken::encode.
pub fn make_token(s: &TokenSpec) -> ConnectToken {
    let mut server_addresses = [None; 32];
    for (i, a) in s.addrs.iter().enumerate() {
        server_addresses[i] = Some(*a);
    }
    let c2s = [s.tag.wrapping_mul(5).wrapping_add(1); 32];
    let s2c = [s.tag.wrapping_mul(5).wrapping_add(2); 32];
    let mut xnonce = [s.tag; 24];
    xnonce[0] = (s.client_id & 0xff) as u8;
    let private = VerifPrivateToken {
        client_id: s.client_id,
        timeout_seconds: s.timeout,
        server_addresses,
        client_to_server_key: c2s,
        server_to_client_key: s2c,
        user_data: user_data(s.tag),
    };
    let private_data = private.seal(s.protocol, s.expire, &xnonce, &s.key).expect("seal");
    ConnectToken {
        client_id: s.client_id,
        version_info: *b"NETCODE 1.02\0",
        protocol_id: s.protocol,
        create_timestamp: s.create,
        expire_timestamp: s.expire,
        xnonce,
        server_addresses,
        client_to_server_key: c2s,
        server_to_client_key: s2c,
        private_data,
        timeout_seconds: s.timeout,
    }
}

/// Like make_token, but session keys, xnonce and user data are derived from a wide index (scale cases with
/// more than 256 distinct tokens).
pub fn make_token_wide(s: &TokenSpec, n: u32) -> ConnectToken {
    let mut server_addresses = [None; 32];
    for (i, a) in s.addrs.iter().enumerate() {
        server_addresses[i] = Some(*a);
    }
    let nb = n.to_le_bytes();
    let mut c2s = [0x51u8; 32];
    let mut s2c = [0xA7u8; 32];
    c2s[..4].copy_from_slice(&nb);
    s2c[..4].copy_from_slice(&nb);
    let mut xnonce = [0x33u8; 24];
    xnonce[..4].copy_from_slice(&nb);
    let private = VerifPrivateToken {
        client_id: s.client_id,
        timeout_seconds: s.timeout,
        server_addresses,
        client_to_server_key: c2s,
        server_to_client_key: s2c,
        user_data: user_data_wide(n),
    };
    let private_data = private.seal(s.protocol, s.expire, &xnonce, &s.key).expect("seal");
    ConnectToken {
        client_id: s.client_id,
        version_info: *b"NETCODE 1.02\0",
        protocol_id: s.protocol,
        create_timestamp: s.create,
        expire_timestamp: s.expire,
        xnonce,
        server_addresses,
        client_to_server_key: c2s,
        server_to_client_key: s2c,
        private_data,
        timeout_seconds: s.timeout,
    }
}

pub fn user_data_wide(n: u32) -> [u8; 256] {
    let mut u = user_data((n & 0xff) as u8);
    u[1..5].copy_from_slice(&n.to_le_bytes());
    u
}

pub fn wide_addr(n: u32) -> SocketAddr {
    SocketAddr::new(IpAddr::V4(Ipv4Addr::new(172, 20, (n >> 8) as u8, (n & 0xff) as u8)), 30_000 + (n % 20_000) as u16)
}

pub fn new_client(now: Duration, token: &ConnectToken) -> NetcodeClient {
    NetcodeClient::new(now, ClientAuthentication::Secure { connect_token: token.clone() }).expect("client")
}

/// Owned copy of a ServerResult.
#[derive(Clone, Debug, PartialEq, Eq)]
pub enum SR {
    None,
    Send { addr: SocketAddr, bytes: Vec<u8> },
    Payload { client_id: u64, bytes: Vec<u8> },
    Connected { client_id: u64, addr: SocketAddr, user_data: Box<[u8; 256]>, bytes: Vec<u8> },
    Disconnected { client_id: u64, addr: SocketAddr, bytes: Option<Vec<u8>> },
}

pub fn own(r: ServerResult) -> SR {
    match r {
        ServerResult::None => SR::None,
        ServerResult::PacketToSend { addr, payload } => SR::Send { addr, bytes: payload.to_vec() },
        ServerResult::Payload { client_id, payload } => SR::Payload { client_id, bytes: payload.to_vec() },
        ServerResult::ClientConnected { client_id, addr, user_data, payload } => SR::Connected { client_id, addr, user_data, bytes: payload.to_vec() },
        ServerResult::ClientDisconnected { client_id, addr, payload } => SR::Disconnected { client_id, addr, bytes: payload.map(|p| p.to_vec()) },
    }
}

impl SR {
    /// datagram the transport would send in response, with its destination
    pub fn reply(&self) -> Option<(SocketAddr, &Vec<u8>)> {
        match self {
            SR::Send { addr, bytes } => Some((*addr, bytes)),
            SR::Connected { addr, bytes, .. } => Some((*addr, bytes)),
            SR::Disconnected { addr, bytes: Some(b), .. } => Some((*addr, b)),
            _ => None,
        }
    }
    pub fn kind(&self) -> &'static str {
        match self {
            SR::None => "None",
            SR::Send { .. } => "PacketToSend",
            SR::Payload { .. } => "Payload",
            SR::Connected { .. } => "ClientConnected",
            SR::Disconnected { .. } => "ClientDisconnected",
        }
    }
}

pub fn srv_process(server: &mut NetcodeServer, from: SocketAddr, datagram: &[u8]) -> Result<SR, Violation> {
    let mut buf = datagram.to_vec();
    guard("NetcodeServer::process_packet", || own(server.process_packet(from, &mut buf)))
}

pub fn srv_update_client(server: &mut NetcodeServer, id: u64) -> Result<SR, Violation> {
    guard("NetcodeServer::update_client", || own(server.update_client(id)))
}

pub fn cli_process(client: &mut NetcodeClient, datagram: &[u8]) -> Result<Option<Vec<u8>>, Violation> {
    let mut buf = datagram.to_vec();
    guard("NetcodeClient::process_packet", || client.process_packet(&mut buf).map(|p| p.to_vec()))
}

pub fn cli_update(client: &mut NetcodeClient, dt: Duration) -> Result<Option<(Vec<u8>, SocketAddr)>, Violation> {
    guard("NetcodeClient::update", || client.update(dt).map(|(p, a)| (p.to_vec(), a)))
}

/// drives an honest handshake to completion on a perfect network; returns true if both sides are connected
pub fn connect(server: &mut NetcodeServer, client: &mut NetcodeClient, caddr: SocketAddr) -> Result<bool, Violation> {
    for _ in 0..6 {
        if let Some((pkt, _to)) = cli_update(client, Duration::from_millis(250))? {
            let r = srv_process(server, caddr, &pkt)?;
            if let Some((_, bytes)) = r.reply() {
                cli_process(client, bytes)?;
            }
        }
        if client.is_connected() && server.is_client_connected(client.client_id()) {
            return Ok(true);
        }
    }
    Ok(false)
}

/// handshake over a lossy path: the server's answer to the first response is held back, the client repeats its
/// response, whatever the server answers to the repetition is delivered, then the held-back answer arrives late
pub fn connect_lossy(server: &mut NetcodeServer, client: &mut NetcodeClient, caddr: SocketAddr) -> Result<bool, Violation> {
    let dt = Duration::from_millis(250);
    let Some((req, _)) = cli_update(client, dt)? else { return Ok(false) };
    let r = srv_process(server, caddr, &req)?;
    let Some((_, chal)) = r.reply() else { return Ok(false) };
    cli_process(client, chal)?;
    let Some((resp, _)) = cli_update(client, dt)? else { return Ok(false) };
    let first = srv_process(server, caddr, &resp)?;
    let held: Option<Vec<u8>> = first.reply().map(|(_, b)| b.to_vec());
    if let Some((resp2, _)) = cli_update(client, dt)? {
        let second = srv_process(server, caddr, &resp2)?;
        if let Some((_, b)) = second.reply() {
            cli_process(client, b)?;
        }
    }
    if let Some(b) = held {
        cli_process(client, &b)?;
    }
    Ok(client.is_connected() && server.is_client_connected(client.client_id()))
}

/// attacker-side sealing with the crate's own encoder
pub fn seal(p: &Packet, protocol: u64, seq: u64, key: &[u8; 32]) -> Vec<u8> {
    let mut buf = [0u8; 1500];
    let n = p.encode(&mut buf, protocol, Some((seq, key))).expect("encode");
    buf[..n].to_vec()
}

/// attacker/monitor-side opening with the crate's own decoder (no replay protection)
pub fn open<'a>(buf: &'a mut [u8], protocol: u64, key: &[u8; 32]) -> Option<(u64, Packet<'a>)> {
    if buf.len() < 18 {
        return None;
    }
    // guard against decoder panics on monitor side: announced sequence length must fit
    let seq_len = (buf[0] >> 4) as usize;
    if seq_len > 8 || buf.len() < 1 + seq_len + 16 {
        return None;
    }
    Packet::decode(buf, protocol, Some(key), None).ok()
}

pub fn hexs(b: &[u8]) -> String {
    b.iter().take(24).map(|x| format!("{:02x}", x)).collect::<String>() + if b.len() > 24 { ".." } else { "" }
}
