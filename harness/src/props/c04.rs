//! C04 — Netcode payloads: only authentic ones surface, each at most once (anti-replay).

use crate::explore::{self, h128, DfsCfg, Violation, World};
use crate::json::J;
use crate::nc::{self, client_addr, make_token, new_client, new_server, server_addr, TokenSpec, PROTOCOL};
use crate::report::{Report, Tier};
use renetcode::verif::Packet;
use renetcode::{NetcodeClient, NetcodeServer};
use std::collections::BTreeSet;
use std::sync::Arc;
use std::time::Duration;

#[derive(Clone, Copy, Debug, PartialEq, Eq, Hash)]
pub enum Tamper {
    PrefixTypeBit,
    PrefixLenBit,
    SequenceBit,
    CiphertextBit,
    MacBit,
    Truncate1,
    Truncate16,
    Extend1,
    OtherClientsAddress,
    OtherSessionsKeys,
    OtherProtocol,
    /// sealed under a protocol id that differs from ours only in bit 40 / only in bit 63
    OtherProtocolBit40,
    OtherProtocolBit63,
}

const TAMPERS: [Tamper; 13] = [
    Tamper::PrefixTypeBit,
    Tamper::PrefixLenBit,
    Tamper::SequenceBit,
    Tamper::CiphertextBit,
    Tamper::MacBit,
    Tamper::Truncate1,
    Tamper::Truncate16,
    Tamper::Extend1,
    Tamper::OtherClientsAddress,
    Tamper::OtherSessionsKeys,
    Tamper::OtherProtocol,
    Tamper::OtherProtocolBit40,
    Tamper::OtherProtocolBit63,
];

#[derive(Clone, Debug, PartialEq, Eq, Hash)]
pub enum Act {
    Genuine(usize),
    Tampered(usize, Tamper),
}

/// which endpoint receives
#[derive(Clone, Copy, PartialEq, Eq, Debug)]
pub enum Rx {
    Server,
    Client,
}

pub struct Fixture {
    pub rx: Rx,
    pub seqs: Vec<u64>,
    /// genuine datagram and payload per sequence
    pub genuine: Vec<(Vec<u8>, Vec<u8>)>,
    /// same sequence sealed under the other session's keys / another protocol id
    pub other_keys: Vec<Vec<u8>>,
    pub other_protocol: Vec<Vec<u8>>,
    pub other_protocol_hi: Vec<[Vec<u8>; 2]>,
}

#[derive(Clone)]
pub struct ReplayWorld {
    pub fx: Arc<Fixture>,
    pub server: NetcodeServer,
    pub client: NetcodeClient,
    pub accepted: BTreeSet<u64>,
    /// highest replay-protected sequence accepted before the history starts (handshake keep-alive)
    pub initial_max: u64,
    pub tamper_used: bool,
    pub flags: u64,
}

fn payload_for(seq: u64) -> Vec<u8> {
    let mut v = vec![0xD0u8];
    v.extend(seq.to_le_bytes());
    v.extend((0..(seq % 7) as usize).map(|i| i as u8));
    v
}

pub fn build(rx: Rx, base: u64, offsets: &[u64]) -> Result<ReplayWorld, Violation> {
    build_with(rx, base, offsets, false)
}

/// `lossy`: client 1's handshake ran over a path that delayed the server's first keep-alive (the client repeated its response)
pub fn build_with(rx: Rx, base: u64, offsets: &[u64], lossy: bool) -> Result<ReplayWorld, Violation> {
    let public = vec![server_addr(0)];
    let mut server = new_server(4, public.clone(), Duration::ZERO);
    let t1 = make_token(&TokenSpec::new(1, 11, public.clone()));
    let t2 = make_token(&TokenSpec::new(2, 22, public.clone()));
    let mut c1 = new_client(Duration::ZERO, &t1);
    let mut c2 = new_client(Duration::ZERO, &t2);
    let ok1 = if lossy { nc::connect_lossy(&mut server, &mut c1, client_addr(1))? } else { nc::connect(&mut server, &mut c1, client_addr(1))? };
    if !ok1 || !nc::connect(&mut server, &mut c2, client_addr(2))? {
        return Err(Violation::new("C04/fixture-handshake-failed", "honest handshakes did not complete on a perfect network".to_string()));
    }
    // genuine packets can only carry sequence numbers the sender has not used yet
    let next = match rx {
        Rx::Server => c1.verif_snapshot().sequence,
        Rx::Client => server.verif_snapshot().slots.iter().flatten().find(|c| c.client_id == 1).map(|c| c.sequence).unwrap_or(0),
    };
    let seqs: Vec<u64> = offsets.iter().map(|o| next.wrapping_add(base).wrapping_add(*o)).collect();
    let mut genuine = vec![];
    let mut other_keys = vec![];
    let mut other_protocol = vec![];
    let mut other_protocol_hi = vec![];
    for &s in &seqs {
        let p = payload_for(s);
        match rx {
            Rx::Server => {
                // the session peer of the server is client 1: its real generate_payload_packet
                let mut g = c1.clone();
                g.verif_set_sequence(s);
                let (_, d) = g.generate_payload_packet(&p).map_err(|e| Violation::new("C04/fixture", format!("{}", e)))?;
                genuine.push((d.to_vec(), p.clone()));
                let mut g2 = c2.clone();
                g2.verif_set_sequence(s);
                let (_, d2) = g2.generate_payload_packet(&p).map_err(|e| Violation::new("C04/fixture", format!("{}", e)))?;
                other_keys.push(d2.to_vec());
                other_protocol.push(nc::seal(&Packet::Payload(&p), PROTOCOL ^ 1, s, &t1.client_to_server_key));
                other_protocol_hi.push([nc::seal(&Packet::Payload(&p), PROTOCOL ^ (1 << 40), s, &t1.client_to_server_key), nc::seal(&Packet::Payload(&p), PROTOCOL ^ (1 << 63), s, &t1.client_to_server_key)]);
            }
            Rx::Client => {
                let mut g = server.clone();
                g.verif_set_client_sequence(1, s);
                let (_, d) = g.generate_payload_packet(1, &p).map_err(|e| Violation::new("C04/fixture", format!("{}", e)))?;
                genuine.push((d.to_vec(), p.clone()));
                let mut g2 = server.clone();
                g2.verif_set_client_sequence(2, s);
                let (_, d2) = g2.generate_payload_packet(2, &p).map_err(|e| Violation::new("C04/fixture", format!("{}", e)))?;
                other_keys.push(d2.to_vec());
                other_protocol.push(nc::seal(&Packet::Payload(&p), PROTOCOL ^ 1, s, &t1.server_to_client_key));
                other_protocol_hi.push([nc::seal(&Packet::Payload(&p), PROTOCOL ^ (1 << 40), s, &t1.server_to_client_key), nc::seal(&Packet::Payload(&p), PROTOCOL ^ (1 << 63), s, &t1.server_to_client_key)]);
            }
        }
    }
    Ok(ReplayWorld {
        fx: Arc::new(Fixture { rx, seqs, genuine, other_keys, other_protocol, other_protocol_hi }),
        server,
        client: c1,
        accepted: BTreeSet::new(),
        initial_max: 0,
        tamper_used: false,
        flags: 0,
    })
    .map(|mut w: ReplayWorld| {
        w.initial_max = w.window_digest().1;
        w
    })
}

impl ReplayWorld {
    /// returns the surfaced (client id, payload), if any
    fn deliver(&mut self, from_other_addr: bool, d: &[u8]) -> Result<Option<(u64, Vec<u8>)>, Violation> {
        match self.fx.rx {
            Rx::Server => {
                let from = if from_other_addr { client_addr(2) } else { client_addr(1) };
                match nc::srv_process(&mut self.server, from, d)? {
                    nc::SR::Payload { client_id, bytes } => Ok(Some((client_id, bytes))),
                    nc::SR::None => Ok(None),
                    other => Err(Violation::new(
                        "C04/unexpected-server-result",
                        format!("a payload-typed datagram produced {} on a connected session", other.kind()),
                    )),
                }
            }
            Rx::Client => Ok(nc::cli_process(&mut self.client, d)?.map(|p| (1, p))),
        }
    }

    fn window_digest(&self) -> (u64, u64) {
        match self.fx.rx {
            Rx::Server => {
                let s = self.server.verif_snapshot();
                let c = s.slots.iter().flatten().find(|c| c.client_id == 1).unwrap();
                (c.replay_window_digest, c.replay_most_recent_sequence)
            }
            Rx::Client => {
                let s = self.client.verif_snapshot();
                (s.replay_window_digest, s.replay_most_recent_sequence)
            }
        }
    }
}

fn tamper(fx: &Fixture, i: usize, t: Tamper) -> (Vec<u8>, bool) {
    let mut d = fx.genuine[i].0.clone();
    let seq_len = (d[0] >> 4) as usize;
    let mut other_addr = false;
    match t {
        Tamper::PrefixTypeBit => d[0] ^= 0x01, // payload (5) <-> keep-alive (4)
        Tamper::PrefixLenBit => d[0] ^= 0x10,
        Tamper::SequenceBit => {
            if seq_len > 0 {
                d[1] ^= 0x01
            } else {
                d[0] ^= 0x10
            }
        }
        Tamper::CiphertextBit => {
            let p = 1 + seq_len;
            d[p] ^= 0x80;
        }
        Tamper::MacBit => {
            let n = d.len();
            d[n - 1] ^= 0x01;
        }
        Tamper::Truncate1 => {
            d.pop();
        }
        Tamper::Truncate16 => {
            let n = d.len().saturating_sub(16);
            d.truncate(n);
        }
        Tamper::Extend1 => d.push(0),
        Tamper::OtherClientsAddress => other_addr = true,
        Tamper::OtherSessionsKeys => d = fx.other_keys[i].clone(),
        Tamper::OtherProtocol => d = fx.other_protocol[i].clone(),
        Tamper::OtherProtocolBit40 => d = fx.other_protocol_hi[i][0].clone(),
        Tamper::OtherProtocolBit63 => d = fx.other_protocol_hi[i][1].clone(),
    }
    (d, other_addr)
}

impl World for ReplayWorld {
    type Action = Act;

    fn actions(&self) -> Vec<Act> {
        let mut v: Vec<Act> = (0..self.fx.seqs.len()).map(Act::Genuine).collect();
        if !self.tamper_used {
            for i in 0..self.fx.seqs.len() {
                for t in TAMPERS {
                    if t == Tamper::OtherClientsAddress && self.fx.rx == Rx::Client {
                        continue;
                    }
                    v.push(Act::Tampered(i, t));
                }
            }
        }
        v
    }

    fn step(&mut self, a: &Act) -> Result<(), Violation> {
        let fx = self.fx.clone();
        match a {
            Act::Genuine(i) => {
                let s = fx.seqs[*i];
                let got = self.deliver(false, &fx.genuine[*i].0)?;
                let max = Some(self.accepted.iter().next_back().copied().unwrap_or(0).max(self.initial_max));
                let fresh = !self.accepted.contains(&s);
                let must = fresh && max.map(|m| s > m || m - s < 256).unwrap_or(true);
                match got {
                    Some((id, bytes)) => {
                        if !fresh {
                            return Err(Violation::new(
                                "C04/replayed-packet-surfaced-again",
                                format!("{:?}: genuine packet with sequence {} surfaced a second time (accepted so far {:?})", fx.rx, s, self.accepted),
                            ));
                        }
                        if bytes != fx.genuine[*i].1 {
                            return Err(Violation::new("C04/surfaced-payload-differs", format!("sequence {}: {} bytes surfaced, {} generated", s, bytes.len(), fx.genuine[*i].1.len())));
                        }
                        if id != 1 {
                            return Err(Violation::new("C04/attributed-to-wrong-client", format!("payload of client 1 surfaced under id {}", id)));
                        }
                        self.accepted.insert(s);
                        self.flags |= 1;
                    }
                    None => {
                        if must {
                            return Err(Violation::new(
                                "C04/fresh-genuine-packet-not-surfaced",
                                format!(
                                    "{:?}: genuine packet with sequence {} arriving for the first time was not surfaced although it is less than 256 behind the highest accepted ({:?}); accepted {:?}",
                                    fx.rx, s, max, self.accepted
                                ),
                            ));
                        }
                        self.flags |= if fresh { 4 } else { 2 };
                    }
                }
            }
            Act::Tampered(i, t) => {
                self.tamper_used = true;
                let before = self.window_digest();
                let (d, other_addr) = tamper(&fx, *i, *t);
                let got = self.deliver(other_addr, &d)?;
                if let Some((id, bytes)) = got {
                    return Err(Violation::new(
                        format!("C04/non-authentic-datagram-surfaced/{:?}", t),
                        format!("{:?}: a {:?} copy of the packet with sequence {} surfaced {} bytes under id {}", fx.rx, t, fx.seqs[*i], bytes.len(), id),
                    ));
                }
                if self.window_digest() != before {
                    return Err(Violation::new(
                        format!("C04/non-authentic-datagram-moved-the-replay-window/{:?}", t),
                        format!("{:?}: a {:?} copy of the packet with sequence {} changed the anti-replay state", fx.rx, t, fx.seqs[*i]),
                    ));
                }
                self.flags |= 8;
            }
        }
        Ok(())
    }

    fn fingerprint(&self) -> u128 {
        h128(&(&self.accepted, self.tamper_used, self.window_digest()))
    }

    fn flags(&self) -> u64 {
        self.flags
    }
}

pub fn parts(tier: Tier) -> Vec<(String, Rx, u64, Vec<u64>, u32)> {
    let small: Vec<u64> = vec![0, 1, 2, 255, 256, 257, 258, 511, 512, 513];
    let big: Vec<u64> = vec![0, 1, 2, 254, 255, 256, 257, 258, 300, 511, 512, 513, 767, 768];
    let offs = tier.pick(small.clone(), big);
    let d = tier.pick(7, 8);
    let mut v = vec![];
    for rx in [Rx::Server, Rx::Client] {
        v.push((format!("{:?} base 0", rx), rx, 0u64, offs.clone(), d));
        v.push((format!("{:?} base 2^32-256", rx), rx, (1u64 << 32) - 256, small.clone(), tier.pick(6, 6)));
        if tier == Tier::Thorough {
            v.push((format!("{:?} base 2^56", rx), rx, 1u64 << 56, small.clone(), 5));
            v.push((format!("{:?} base 2^64-600", rx), rx, u64::MAX - 600, small.clone(), 5));
        }
    }
    // jumps of exactly one, two and three 64-number words (and their neighbours)
    for rx in [Rx::Server, Rx::Client] {
        v.push((format!("{:?} base 0, jumps around multiples of 64", rx), rx, 0u64, vec![0, 1, 63, 64, 65, 127, 128, 129, 192, 193], tier.pick(5, 5)));
    }
    // sessions whose handshake ran over a lossy path (repeated response, late first keep-alive)
    for rx in [Rx::Server, Rx::Client] {
        v.push((format!("{:?} base 0 after a lossy handshake", rx), rx, 0u64, vec![0, 1, 2, 3, 255, 256, 257], tier.pick(5, 6)));
    }
    v
}

/// Reflection: a datagram an endpoint generated itself and that comes back to it (from its peer's address) was not passed
/// to generate_payload_packet by its *session peer*: nothing may surface, the anti-replay state must not move, and the
/// peer's genuine packets with the same sequence numbers must still surface afterwards. Secure and unsecure sessions
/// (in an unsecure session the keys are derived by the library itself, so their independence per direction is on trial).
pub fn reflection_case(unsecure: bool) -> Result<u64, Violation> {
    use renetcode::{ClientAuthentication, ServerAuthentication, ServerConfig};
    let bad = |sig: &str, msg: String| Violation::new(format!("C04/reflection/{}", sig), format!("{} session: {}", if unsecure { "unsecure" } else { "secure" }, msg));
    let public = vec![server_addr(0)];
    let (mut server, mut client) = if unsecure {
        let s = NetcodeServer::new(ServerConfig {
            current_time: Duration::ZERO,
            max_clients: 4,
            protocol_id: PROTOCOL,
            public_addresses: public.clone(),
            authentication: ServerAuthentication::Unsecure,
        });
        let c = NetcodeClient::new(Duration::ZERO, ClientAuthentication::Unsecure { protocol_id: PROTOCOL, client_id: 9, server_addr: server_addr(0), user_data: None })
            .map_err(|e| bad("fixture", e.to_string()))?;
        (s, c)
    } else {
        let t = make_token(&TokenSpec::new(9, 19, public.clone()));
        (new_server(4, public.clone(), Duration::ZERO), new_client(Duration::ZERO, &t))
    };
    if !nc::connect(&mut server, &mut client, client_addr(1))? {
        return Err(bad("fixture", "handshake failed".to_string()));
    }
    let mut steps = 0u64;
    for k in 0..4u8 {
        let up = vec![b'u', k];
        let down = vec![b'd', k];
        let pc = crate::link::guard("NetcodeClient::generate_payload_packet", || client.generate_payload_packet(&up).map(|(_, p)| p.to_vec()).ok())?.ok_or_else(|| bad("fixture", "client cannot send".into()))?;
        let ps = crate::link::guard("NetcodeServer::generate_payload_packet", || server.generate_payload_packet(9, &down).map(|(_, p)| p.to_vec()).ok())?.ok_or_else(|| bad("fixture", "server cannot send".into()))?;
        // the server's own datagram comes back to the server from the client's address
        let before = server.verif_snapshot();
        let r = nc::srv_process(&mut server, client_addr(1), &ps)?;
        if r != nc::SR::None {
            return Err(bad("own-datagram-accepted-by-server", format!("the server's own payload datagram #{} presented from the client's address produced {}", k, r.kind())));
        }
        if server.verif_snapshot() != before {
            return Err(bad("own-datagram-changes-server-state", format!("the server's own payload datagram #{} changed the server's state", k)));
        }
        // the client's own datagram comes back to the client
        let cb = client.verif_snapshot();
        if let Some(p) = nc::cli_process(&mut client, &pc)? {
            return Err(bad("own-datagram-accepted-by-client", format!("the client's own payload datagram #{} surfaced {:?} at the client", k, p)));
        }
        let ca = client.verif_snapshot();
        if ca.state != cb.state || ca.last_packet_received_time != cb.last_packet_received_time {
            return Err(bad("own-datagram-changes-client-state", format!("the client's own payload datagram #{} changed the client's state / receive timer", k)));
        }
        // the genuine directions still work (same sequence numbers as the reflected copies)
        match nc::srv_process(&mut server, client_addr(1), &pc)? {
            nc::SR::Payload { client_id: 9, bytes } if bytes == up => {}
            other => return Err(bad("genuine-refused-after-reflection", format!("the client's payload #{} produced {} at the server", k, other.kind()))),
        }
        match nc::cli_process(&mut client, &ps)? {
            Some(b) if b == down => {}
            other => return Err(bad("genuine-refused-after-reflection", format!("the server's payload #{} surfaced {:?} at the client", k, other))),
        }
        steps += 6;
    }
    Ok(steps)
}

/// The client limit is changed while a session is running (raised, lowered, raised again): the anti-replay state of the
/// connected clients must survive — datagrams surfaced before the change stay refused, fresh ones still surface.
pub fn limit_change_replay_case(initial: usize, steps: &[usize]) -> Result<u64, Violation> {
    let bad = |sig: &str, msg: String| Violation::new(format!("C04/limit-change/{}", sig), format!("max_clients {} then {:?}: {}", initial, steps, msg));
    let public = vec![server_addr(0)];
    let mut server = new_server(initial, public.clone(), Duration::ZERO);
    let mut clients: Vec<NetcodeClient> = vec![];
    let n = initial.min(2);
    for k in 0..n {
        let t = make_token(&TokenSpec::new(1 + k as u64, 11 + k as u8, public.clone()));
        let mut c = new_client(Duration::ZERO, &t);
        if !nc::connect(&mut server, &mut c, client_addr(1 + k as u16))? {
            return Err(bad("fixture", format!("handshake of client {} failed", k)));
        }
        clients.push(c);
    }
    let mut sent: Vec<(usize, Vec<u8>, Vec<u8>)> = vec![];
    let mut steps_n = 0u64;
    let mut round = 0u8;
    let mut exchange = |server: &mut NetcodeServer, clients: &mut Vec<NetcodeClient>, sent: &mut Vec<(usize, Vec<u8>, Vec<u8>)>, round: u8| -> Result<(), Violation> {
        for k in 0..clients.len() {
            for j in 0..3u8 {
                let body = vec![b'p', k as u8, round, j];
                let c = &mut clients[k];
                let d = crate::link::guard("NetcodeClient::generate_payload_packet", || c.generate_payload_packet(&body).map(|(_, p)| p.to_vec()).ok())?.ok_or_else(|| bad("fixture", "client cannot send".into()))?;
                match nc::srv_process(server, client_addr(1 + k as u16), &d)? {
                    nc::SR::Payload { client_id, bytes } if client_id == 1 + k as u64 && bytes == body => {}
                    other => return Err(bad("fresh-genuine-payload-refused", format!("round {} payload {} of client {} produced {}", round, j, k, other.kind()))),
                }
                sent.push((k, d, body));
            }
        }
        Ok(())
    };
    exchange(&mut server, &mut clients, &mut sent, round)?;
    for &l in steps {
        let s = &mut server;
        crate::link::guard("NetcodeServer::set_max_clients", || s.set_max_clients(l))?;
        round += 1;
        // every datagram surfaced so far is a replay now
        for (k, d, body) in &sent {
            let r = nc::srv_process(&mut server, client_addr(1 + *k as u16), d)?;
            if r != nc::SR::None {
                return Err(bad("replay-surfaces-after-limit-change", format!("after set_max_clients({}) the already surfaced payload {:?} of client {} produced {}", l, body, k, r.kind())));
            }
            steps_n += 1;
        }
        exchange(&mut server, &mut clients, &mut sent, round)?;
    }
    Ok(steps_n)
}

pub fn run(tier: Tier) -> i32 {
    let mut rep = Report::new("C04", tier);
    rep.rule("M1: every history up to length L over {deliver the genuine payload packet with sequence s (a second occurrence is the replay)} and, in one slot per history, {a tampered copy: prefix type/length bit, sequence bit, ciphertext bit, MAC bit, truncated by 1/16, extended by 1, from another connected client's address, sealed under another session's keys, sealed under another protocol id}, for sequence alphabets at the window boundaries (s, s+-255/256, multiples of 256) at bases 0, 2^32-256 (+2^56, 2^64-600), against both receivers (NetcodeServer::process_packet, NetcodeClient::process_packet) of a connected session; oracle = reference window: non-authentic surfaces nothing and leaves the anti-replay state (hook digest) unchanged; genuine surfaces at most once, byte-identical, attributed to the peer's id, and must surface when fresh and < 256 behind the highest accepted");
    rep.assume("ChaCha20-Poly1305 itself is trusted; genuine datagrams are produced by the peer's real generate_payload_packet with its send counter placed by a hook setter");
    for (k, (name, rx, base, offs, d)) in parts(tier).into_iter().enumerate() {
        match build_with(rx, base, &offs, name.contains("lossy")) {
            Err(v) => rep.violation(&name, v, J::obj().set("kind", J::s("fixture"))),
            Ok(w) => {
                let cfg = DfsCfg { depth: d, threads: explore::threads(), wall_cap_s: tier.pick(100.0, 1500.0), max_signatures: 8 };
                let r = explore::dfs(&w, &cfg);
                rep.vac("genuine_surfaced", (r.flags_seen & 1 != 0) as u64);
                rep.vac("replay_suppressed", (r.flags_seen & 2 != 0) as u64);
                rep.vac("too_old_suppressed", (r.flags_seen & 4 != 0) as u64);
                rep.vac("tampered_rejected", (r.flags_seen & 8 != 0) as u64);
                rep.add_dfs(&name, k, d, &r);
            }
        }
    }
    // reflection of an endpoint's own datagrams, secure and unsecure sessions
    {
        let mut n = 0u64;
        for unsecure in [false, true] {
            n += 1;
            if let Err(v) = reflection_case(unsecure) {
                rep.violation("reflection", v, J::obj().set("kind", J::s("reflection")).set("unsecure", J::Bool(unsecure)));
            }
        }
        rep.add_sweep("reflection", n, n, 2, vec!["4 payloads each way in a secure and an unsecure session: an endpoint's own datagram presented back to it surfaces nothing and changes nothing; the peer's genuine datagrams with the same sequence numbers still surface".to_string()]);
    }
    // the client limit changes while sessions run
    {
        let cases = limit_change_cases();
        for (i, (initial, steps)) in cases.iter().enumerate() {
            if let Err(v) = limit_change_replay_case(*initial, steps) {
                rep.violation("limit-change", v, J::obj().set("kind", J::s("limit-change")).set("case", J::i(i as u64)));
            }
        }
        rep.add_sweep("limit-change", cases.len() as u64, cases.len() as u64, 2, vec![format!("{:?}: payloads of the connected clients before and after every set_max_clients; everything surfaced earlier is refused as a replay afterwards, fresh payloads surface", cases)]);
    }
    rep.finish()
}

pub fn limit_change_cases() -> Vec<(usize, Vec<usize>)> {
    vec![(1, vec![2]), (2, vec![3]), (2, vec![5, 2, 9]), (2, vec![1, 4]), (1, vec![1024]), (4, vec![8, 16, 32])]
}

pub fn replay(j: &J) -> i32 {
    if j.get("kind").and_then(|k| k.as_str()) == Some("limit-change") {
        let i = j.get("case").and_then(|x| x.as_i()).unwrap_or(0) as usize;
        let cs = limit_change_cases();
        let Some((initial, steps)) = cs.get(i) else { return 2 };
        return match limit_change_replay_case(*initial, steps) {
            Err(v) => {
                println!("RESULT: violation {} — {}", v.signature, v.message);
                1
            }
            Ok(_) => {
                println!("RESULT: no violation");
                0
            }
        };
    }
    if j.get("kind").and_then(|k| k.as_str()) == Some("reflection") {
        let u = matches!(j.get("unsecure"), Some(J::Bool(true)));
        return match reflection_case(u) {
            Err(v) => {
                println!("RESULT: violation {} — {}", v.signature, v.message);
                1
            }
            Ok(_) => {
                println!("RESULT: no violation");
                0
            }
        };
    }
    let tier = match j.get("tier").and_then(|t| t.as_str()) {
        Some("thorough") => Tier::Thorough,
        _ => Tier::Quick,
    };
    let idx = j.get("scenario_index").and_then(|x| x.as_i()).unwrap_or(0) as usize;
    let Some((name, rx, base, offs, _)) = parts(tier).into_iter().nth(idx) else { return 2 };
    println!("part {}", name);
    let mut w = match build_with(rx, base, &offs, name.contains("lossy")) {
        Ok(w) => w,
        Err(v) => {
            println!("RESULT: violation {} — {}", v.signature, v.message);
            return 1;
        }
    };
    let acts: Vec<usize> = j
        .get("actions")
        .and_then(|a| a.as_arr())
        .map(|a| a.iter().filter_map(|x| x.as_i()).map(|x| x as usize).collect())
        .unwrap_or_default();
    for ai in acts {
        let al = w.actions();
        let Some(a) = al.get(ai) else { return 2 };
        match a {
            Act::Genuine(i) => println!("  deliver genuine sequence {}", w.fx.seqs[*i]),
            Act::Tampered(i, t) => println!("  deliver {:?} copy of sequence {}", t, w.fx.seqs[*i]),
        }
        if let Err(v) = w.step(a) {
            println!("RESULT: violation {} — {}", v.signature, v.message);
            return 1;
        }
    }
    println!("RESULT: no violation");
    0
}
