//! C12 — Disconnection is final and reported exactly once, with the first reason.

use crate::explore::{self, h128, DfsCfg, Violation, World};
use crate::json::J;
use crate::link::{guard, hash_conn};
use crate::props::c06::{slice_pkt, vmin};
use crate::report::{Report, Tier};
use renet::{ChannelConfig, ConnectionConfig, DisconnectReason, RenetClient, RenetServer, SendType, ServerEvent};
use std::hash::{Hash, Hasher};
use std::time::Duration;

fn config() -> ConnectionConfig {
    let chans = || {
        vec![
            ChannelConfig {
                channel_id: 0,
                max_memory_usage_bytes: 300,
                send_type: SendType::Unreliable,
            },
            ChannelConfig {
                channel_id: 1,
                max_memory_usage_bytes: 300,
                send_type: SendType::ReliableOrdered {
                    resend_time: Duration::from_millis(200),
                },
            },
        ]
    };
    ConnectionConfig {
        available_bytes_per_tick: 60_000,
        server_channels_config: chans(),
        client_channels_config: chans(),
    }
}

fn valid_packet(seq: u64, id: u64) -> Vec<u8> {
    let mut b = vec![0u8];
    b.extend(vmin(seq));
    b.push(1);
    b.extend(1u16.to_be_bytes());
    b.extend(vmin(id));
    b.extend(vmin(3));
    b.extend([7, 8, 9]);
    b
}

#[derive(Clone, Debug, PartialEq, Eq, Hash)]
pub enum Act {
    Add(u64),
    Remove(u64),
    Disconnect(u64),
    DisconnectAll,
    NewLocal(u64),
    DisconnectLocal(u64),
    /// disconnect_local_client with the handle of the previous local session of that id (clean-up code that kept it)
    DisconnectLocalOldHandle(u64),
    ProcessLocal(u64),
    Send(u64),
    SendOverBudget(u64),
    Broadcast,
    BroadcastOverBudget,
    BroadcastExcept(u64),
    BroadcastExceptOverBudget(u64),
    Receive(u64),
    PacketValid(u64),
    PacketBadChannel(u64),
    PacketGarbage(u64),
    PacketBudget(u64),
    Update,
    Flush(u64),
    // local client object (the application side of a local connection)
    LocalClientDisconnect(u64),
    LocalClientSendOverBudget(u64),
}

#[derive(Clone)]
pub struct ServerWorld {
    pub srv: RenetServer,
    pub ids: Vec<u64>,
    /// ids that may be local clients
    pub local_ids: Vec<u64>,
    pub local: Vec<Option<RenetClient>>,
    /// the handle new_local_client returned the time before (kept by the application)
    pub old_local: Vec<Option<RenetClient>>,
    /// per id: is the application currently told "connected"?
    pub reported_in: Vec<bool>,
    /// per id: first reason disconnect_reason(id) showed for the current connection object
    pub first_reason: Vec<Option<DisconnectReason>>,
    pub exists: Vec<bool>,
    pub next_seq: u64,
    pub flags: u64,
    /// set by step() before a DisconnectLocalOldHandle call
    pub old_handle_was_alive: bool,
}

impl ServerWorld {
    pub fn new() -> Self {
        ServerWorld {
            srv: RenetServer::new(config()),
            ids: vec![1, 2],
            local_ids: vec![2],
            local: vec![None, None],
            old_local: vec![None, None],
            reported_in: vec![false, false],
            first_reason: vec![None, None],
            exists: vec![false, false],
            next_seq: 0,
            flags: 0,
            old_handle_was_alive: false,
        }
    }

    fn idx(&self, id: u64) -> usize {
        self.ids.iter().position(|x| *x == id).unwrap()
    }

    /// consume the event stream and check alternation and reasons
    fn drain_events(&mut self, action: &Act, healthy_before: &[bool]) -> Result<(), Violation> {
        while let Some(ev) = self.srv.get_event() {
            match ev {
                ServerEvent::ClientConnected { client_id } => {
                    let Some(i) = self.ids.iter().position(|x| *x == client_id) else {
                        return Err(Violation::new("C12/event-for-unknown-id", format!("ClientConnected for id {}", client_id)));
                    };
                    if self.reported_in[i] {
                        return Err(Violation::new(
                            "C12/two-connects-without-disconnect",
                            format!("ClientConnected for id {} while it is already reported connected (after {:?})", client_id, action),
                        ));
                    }
                    self.reported_in[i] = true;
                    self.flags |= 1;
                }
                ServerEvent::ClientDisconnected { client_id, reason } => {
                    let Some(i) = self.ids.iter().position(|x| *x == client_id) else {
                        return Err(Violation::new("C12/event-for-unknown-id", format!("ClientDisconnected for id {}", client_id)));
                    };
                    if !self.reported_in[i] {
                        return Err(Violation::new(
                            "C12/disconnect-without-connect",
                            format!("ClientDisconnected for id {} which is not reported connected (after {:?})", client_id, action),
                        ));
                    }
                    self.reported_in[i] = false;
                    self.flags |= 2;
                    // the reason the connection was first disconnected with; Transport if it was still healthy
                    // (for disconnect_local_client on a healthy connection the cause is the client's own disconnect)
                    let expected = match self.first_reason[i] {
                        Some(r) => r,
                        None => {
                            // with an old handle the exemption only holds if that handle was still alive before the call
                            let by_live_handle = match action {
                                Act::DisconnectLocal(_) => true,
                                Act::DisconnectLocalOldHandle(_) => self.old_handle_was_alive,
                                _ => false,
                            };
                            if by_live_handle && healthy_before[i] {
                                DisconnectReason::DisconnectedByClient
                            } else {
                                DisconnectReason::Transport
                            }
                        }
                    };
                    if reason != expected {
                        return Err(Violation::new(
                            format!("C12/removal-reports-wrong-reason/{}", format!("{:?}", action).split('(').next().unwrap_or("")),
                            format!(
                                "ClientDisconnected for id {} reports {:?}, but the connection was first disconnected with {:?} (after {:?})",
                                client_id, reason, expected, action
                            ),
                        ));
                    }
                    self.first_reason[i] = None;
                }
            }
        }
        Ok(())
    }

    fn observe(&mut self) -> Result<(), Violation> {
        let conn_ids = self.srv.verif_connection_ids();
        for (i, &id) in self.ids.iter().enumerate() {
            let present = conn_ids.contains(&id);
            self.exists[i] = present;
            if !present {
                self.first_reason[i] = None;
                continue;
            }
            let r = self.srv.disconnect_reason(id);
            match (self.first_reason[i], r) {
                (None, Some(r)) => self.first_reason[i] = Some(r),
                (Some(f), Some(r)) => {
                    if f != r {
                        return Err(Violation::new(
                            "C12/disconnect-reason-changed",
                            format!("connection {} was first disconnected with {:?}, now shows {:?}", id, f, r),
                        ));
                    }
                }
                (Some(f), None) => {
                    return Err(Violation::new(
                        "C12/disconnected-connection-revived",
                        format!("connection {} was disconnected with {:?} and is now not disconnected", id, f),
                    ));
                }
                (None, None) => {}
            }
            // listing consistency
            let listed = self.srv.clients_id().contains(&id);
            let dlisted = self.srv.disconnections_id().contains(&id);
            if listed == dlisted || listed != self.srv.is_connected(id) {
                return Err(Violation::new(
                    "C12/listing-inconsistent",
                    format!("connection {}: clients_id {} disconnections_id {} is_connected {}", id, listed, dlisted, self.srv.is_connected(id)),
                ));
            }
            if r.is_some() {
                self.flags |= 4;
                // absorbing: emits nothing, yields nothing, accepts nothing (probed on a clone)
                let mut c = self.srv.clone();
                let before = c.verif_connection(id).map(|x| x.verif_snapshot());
                let pk = guard("get_packets_to_send", || c.get_packets_to_send(id).unwrap_or_default())?;
                if !pk.is_empty() {
                    return Err(Violation::new(
                        "C12/disconnected-connection-emits-packets",
                        format!("connection {} ({:?}) returned {} packets from get_packets_to_send", id, r, pk.len()),
                    ));
                }
                for ch in 0..2u8 {
                    if guard("receive_message", || c.receive_message(id, ch))?.is_some() {
                        return Err(Violation::new(
                            "C12/disconnected-connection-yields-messages",
                            format!("connection {} ({:?}) yielded a message on channel {}", id, r, ch),
                        ));
                    }
                }
                let vp = valid_packet(1 << 20, 40);
                let rx_before = c.bytes_received_per_sec(id).to_bits();
                guard("process_packet_from", || {
                    let _ = c.process_packet_from(&vp, id);
                })?;
                if c.bytes_received_per_sec(id).to_bits() != rx_before {
                    return Err(Violation::new(
                        "C12/disconnected-connection-accepts-input",
                        format!("connection {} ({:?}): a packet handed to it changed bytes_received_per_sec from {} to {}", id, r, f64::from_bits(rx_before), c.bytes_received_per_sec(id)),
                    ));
                }
                guard("send_message", || c.send_message(id, 1u8, vec![1u8]))?;
                let after = c.verif_connection(id).map(|x| x.verif_snapshot());
                if before != after {
                    return Err(Violation::new(
                        "C12/disconnected-connection-accepts-input",
                        format!("connection {} ({:?}) changed state on process_packet_from / send_message", id, r),
                    ));
                }
            }
        }
        // the aggregate getters agree with the per-id ones
        {
            let ids = self.srv.clients_id();
            let dis = self.srv.disconnections_id();
            if self.srv.connected_clients() != ids.len() || self.srv.has_connections() != !(ids.is_empty() && dis.is_empty()) {
                return Err(Violation::new(
                    "C12/listing-inconsistent",
                    format!("connected_clients() = {}, has_connections() = {}, clients_id() = {:?}, disconnections_id() = {:?}", self.srv.connected_clients(), self.srv.has_connections(), ids, dis),
                ));
            }
            for &id in &self.ids {
                let known = conn_ids.contains(&id);
                let srv = &self.srv;
                let info = guard("network_info", || srv.network_info(id).is_ok())?;
                if info != known {
                    return Err(Violation::new("C12/listing-inconsistent", format!("network_info({}) is_ok = {} but the connection {}", id, info, if known { "exists" } else { "does not exist" })));
                }
            }
        }
        // local client objects: once disconnected they stay so, whatever the transport status calls say
        for (i, lc) in self.local.iter().enumerate() {
            if let Some(lc) = lc {
                if let Some(r) = lc.disconnect_reason() {
                    let mut c = lc.clone();
                    c.set_connected();
                    c.set_connecting();
                    c.disconnect();
                    c.disconnect_due_to_transport();
                    if c.disconnect_reason() != Some(r) || !c.is_disconnected() {
                        return Err(Violation::new(
                            "C12/client-revived-or-reason-overwritten",
                            format!("local client {}: reason {:?} became {:?} after set_connected/set_connecting/disconnect calls", self.ids[i], r, c.disconnect_reason()),
                        ));
                    }
                    if !c.get_packets_to_send().is_empty() || c.receive_message(1u8).is_some() {
                        return Err(Violation::new("C12/disconnected-client-emits-or-yields", format!("local client {}", self.ids[i])));
                    }
                }
            }
        }
        Ok(())
    }
}

impl World for ServerWorld {
    type Action = Act;

    fn actions(&self) -> Vec<Act> {
        let mut v = vec![];
        for &id in &self.ids {
            let is_local = self.local_ids.contains(&id);
            if !is_local {
                v.push(Act::Add(id));
            }
            v.push(Act::Remove(id));
            v.push(Act::Disconnect(id));
            if is_local {
                v.push(Act::NewLocal(id));
                if self.old_local[self.idx(id)].is_some() {
                    v.push(Act::DisconnectLocalOldHandle(id));
                }
                if self.local[self.idx(id)].is_some() {
                    v.push(Act::DisconnectLocal(id));
                    v.push(Act::ProcessLocal(id));
                    v.push(Act::LocalClientDisconnect(id));
                    v.push(Act::LocalClientSendOverBudget(id));
                }
            }
            v.push(Act::Send(id));
            v.push(Act::SendOverBudget(id));
            v.push(Act::Receive(id));
            if !is_local {
                v.push(Act::PacketValid(id));
                v.push(Act::PacketBadChannel(id));
                v.push(Act::PacketGarbage(id));
                v.push(Act::PacketBudget(id));
            }
            v.push(Act::Flush(id));
        }
        v.push(Act::DisconnectAll);
        v.push(Act::Broadcast);
        v.push(Act::BroadcastOverBudget);
        for &id in &self.ids {
            v.push(Act::BroadcastExcept(id));
            v.push(Act::BroadcastExceptOverBudget(id));
        }
        v.push(Act::Update);
        v
    }

    fn step(&mut self, a: &Act) -> Result<(), Violation> {
        let healthy_before: Vec<bool> = self.ids.iter().map(|&id| self.srv.verif_connection_ids().contains(&id) && self.srv.disconnect_reason(id).is_none()).collect();
        if let Act::DisconnectLocalOldHandle(id) = a {
            let i = self.idx(*id);
            self.old_handle_was_alive = self.old_local[i].as_ref().map(|c| !c.is_disconnected()).unwrap_or(false);
        }
        let srv = &mut self.srv;
        let seq = self.next_seq;
        if matches!(a, Act::PacketValid(_) | Act::PacketBadChannel(_) | Act::PacketBudget(_)) {
            self.next_seq += 1;
        }
        match a {
            Act::Add(id) => guard("add_connection", || srv.add_connection(*id))?,
            Act::Remove(id) => guard("remove_connection", || srv.remove_connection(*id))?,
            Act::Disconnect(id) => guard("disconnect", || srv.disconnect(*id))?,
            Act::DisconnectAll => guard("disconnect_all", || srv.disconnect_all())?,
            Act::NewLocal(id) => {
                let i = self.ids.iter().position(|x| x == id).unwrap();
                let c = guard("new_local_client", || srv.new_local_client(*id))?;
                // the application keeps the newest handle (and remembers the one before)
                if let Some(prev) = self.local[i].take() {
                    self.old_local[i] = Some(prev);
                }
                self.local[i] = Some(c);
            }
            Act::DisconnectLocalOldHandle(id) => {
                let i = self.ids.iter().position(|x| x == id).unwrap();
                if let Some(c) = self.old_local[i].as_mut() {
                    guard("disconnect_local_client", || srv.disconnect_local_client(*id, c))?;
                }
            }
            Act::DisconnectLocal(id) => {
                let i = self.ids.iter().position(|x| x == id).unwrap();
                if let Some(c) = self.local[i].as_mut() {
                    guard("disconnect_local_client", || srv.disconnect_local_client(*id, c))?;
                }
            }
            Act::ProcessLocal(id) => {
                let i = self.ids.iter().position(|x| x == id).unwrap();
                if let Some(c) = self.local[i].as_mut() {
                    guard("process_local_client", || {
                        let _ = srv.process_local_client(*id, c);
                    })?;
                }
            }
            Act::LocalClientDisconnect(id) => {
                let i = self.ids.iter().position(|x| x == id).unwrap();
                if let Some(c) = self.local[i].as_mut() {
                    guard("RenetClient::disconnect", || c.disconnect())?;
                }
            }
            Act::LocalClientSendOverBudget(id) => {
                let i = self.ids.iter().position(|x| x == id).unwrap();
                if let Some(c) = self.local[i].as_mut() {
                    guard("RenetClient::send_message", || c.send_message(1u8, vec![0u8; 400]))?;
                }
            }
            Act::Send(id) => guard("send_message", || srv.send_message(*id, 1u8, vec![1u8; 10]))?,
            Act::SendOverBudget(id) => guard("send_message", || srv.send_message(*id, 1u8, vec![1u8; 400]))?,
            Act::Broadcast => guard("broadcast_message", || srv.broadcast_message(1u8, vec![2u8; 10]))?,
            Act::BroadcastOverBudget => guard("broadcast_message", || srv.broadcast_message(1u8, vec![2u8; 400]))?,
            Act::BroadcastExcept(id) => guard("broadcast_message_except", || srv.broadcast_message_except(*id, 1u8, vec![3u8; 10]))?,
            Act::BroadcastExceptOverBudget(id) => guard("broadcast_message_except", || srv.broadcast_message_except(*id, 1u8, vec![3u8; 400]))?,
            Act::Receive(id) => {
                guard("receive_message", || {
                    let _ = srv.receive_message(*id, 1u8);
                })?;
            }
            Act::PacketValid(id) => {
                let p = valid_packet(seq, seq % 3);
                guard("process_packet_from", || {
                    let _ = srv.process_packet_from(&p, *id);
                })?
            }
            Act::PacketBadChannel(id) => {
                let mut p = valid_packet(seq, 0);
                let pos = 1 + vmin(seq).len();
                p[pos] = 9;
                guard("process_packet_from", || {
                    let _ = srv.process_packet_from(&p, *id);
                })?
            }
            Act::PacketGarbage(id) => guard("process_packet_from", || {
                let _ = srv.process_packet_from(&[0xff, 1, 2], *id);
            })?,
            Act::PacketBudget(id) => {
                // a slice that reserves more than the receive budget: peer-caused ReceiveChannelError
                let p = slice_pkt(2, seq, 1, 50, 0, 3, 1200, 1200).bytes;
                guard("process_packet_from", || {
                    let _ = srv.process_packet_from(&p, *id);
                })?
            }
            Act::Update => guard("update", || srv.update(Duration::from_millis(100)))?,
            Act::Flush(id) => {
                let was_disconnected = srv.disconnect_reason(*id).is_some();
                let r = guard("get_packets_to_send", || srv.get_packets_to_send(*id))?;
                if let (true, Ok(p)) = (was_disconnected, &r) {
                    if !p.is_empty() {
                        return Err(Violation::new("C12/disconnected-connection-emits-packets", format!("connection {} returned {} packets", id, p.len())));
                    }
                }
            }
        }
        self.drain_events(a, &healthy_before)?;
        self.observe()
    }

    fn fingerprint(&self) -> u128 {
        let mut h = std::collections::hash_map::DefaultHasher::new();
        for &id in &self.ids {
            match self.srv.verif_connection(id) {
                Some(c) => {
                    1u8.hash(&mut h);
                    hash_conn(&c.verif_snapshot(), &mut h);
                }
                None => 0u8.hash(&mut h),
            }
        }
        for lc in self.local.iter().chain(self.old_local.iter()) {
            match lc {
                Some(c) => {
                    1u8.hash(&mut h);
                    hash_conn(&c.verif_snapshot(), &mut h);
                }
                None => 0u8.hash(&mut h),
            }
        }
        self.reported_in.hash(&mut h);
        format!("{:?}", self.first_reason).hash(&mut h);
        self.next_seq.hash(&mut h);
        h128(&h.finish())
    }

    fn flags(&self) -> u64 {
        self.flags
    }
}

// ---- the stand-alone client object ----

#[derive(Clone, Debug, PartialEq, Eq, Hash)]
pub enum CAct {
    SetConnected,
    SetConnecting,
    Disconnect,
    DisconnectTransport,
    PacketValid,
    PacketBadChannel,
    PacketGarbage,
    PacketBudget,
    Send,
    SendOverBudget,
    Receive,
    Update,
    Flush,
}

#[derive(Clone)]
pub struct ClientWorld {
    pub c: RenetClient,
    pub first: Option<DisconnectReason>,
    pub next_seq: u64,
    pub flags: u64,
}

impl World for ClientWorld {
    type Action = CAct;
    fn actions(&self) -> Vec<CAct> {
        use CAct::*;
        vec![SetConnected, SetConnecting, Disconnect, DisconnectTransport, PacketValid, PacketBadChannel, PacketGarbage, PacketBudget, Send, SendOverBudget, Receive, Update, Flush]
    }
    fn step(&mut self, a: &CAct) -> Result<(), Violation> {
        let c = &mut self.c;
        let seq = self.next_seq;
        if matches!(a, CAct::PacketValid | CAct::PacketBadChannel | CAct::PacketBudget) {
            self.next_seq += 1;
        }
        let before = c.verif_snapshot();
        let rx_before = c.bytes_received_per_sec().to_bits();
        let was = c.disconnect_reason();
        let mut emitted = 0usize;
        let mut yielded = false;
        match a {
            CAct::SetConnected => guard("set_connected", || c.set_connected())?,
            CAct::SetConnecting => guard("set_connecting", || c.set_connecting())?,
            CAct::Disconnect => guard("disconnect", || c.disconnect())?,
            CAct::DisconnectTransport => guard("disconnect_due_to_transport", || c.disconnect_due_to_transport())?,
            CAct::PacketValid => {
                let p = valid_packet(seq, seq % 3);
                guard("process_packet", || c.process_packet(&p))?
            }
            CAct::PacketBadChannel => {
                let mut p = valid_packet(seq, 0);
                let pos = 1 + vmin(seq).len();
                p[pos] = 9;
                guard("process_packet", || c.process_packet(&p))?
            }
            CAct::PacketGarbage => guard("process_packet", || c.process_packet(&[0xff, 1, 2]))?,
            CAct::PacketBudget => {
                let p = slice_pkt(2, seq, 1, 50, 0, 3, 1200, 1200).bytes;
                guard("process_packet", || c.process_packet(&p))?
            }
            CAct::Send => guard("send_message", || c.send_message(1u8, vec![1u8; 10]))?,
            CAct::SendOverBudget => guard("send_message", || c.send_message(1u8, vec![1u8; 400]))?,
            CAct::Receive => yielded = guard("receive_message", || c.receive_message(1u8))?.is_some(),
            CAct::Update => guard("update", || c.update(Duration::from_millis(100)))?,
            CAct::Flush => emitted = guard("get_packets_to_send", || c.get_packets_to_send())?.len(),
        }
        let now = c.disconnect_reason();
        if let Some(f) = was {
            self.flags |= 1;
            if now != Some(f) {
                return Err(Violation::new(
                    "C12/client-revived-or-reason-overwritten",
                    format!("client was disconnected with {:?}; after {:?} disconnect_reason is {:?}", f, a, now),
                ));
            }
            if emitted > 0 {
                return Err(Violation::new("C12/disconnected-client-emits-packets", format!("{} packets after {:?}", emitted, f)));
            }
            if yielded {
                return Err(Violation::new("C12/disconnected-client-yields-messages", format!("message yielded after {:?}", f)));
            }
            let mut after = c.verif_snapshot();
            // time may pass, nothing else may change
            after.current_time = before.current_time;
            if after != before {
                return Err(Violation::new(
                    "C12/disconnected-client-accepts-input",
                    format!("client disconnected with {:?} changed state on {:?}", f, a),
                ));
            }
            // also through the public statistics: a packet handed to a disconnected connection is not counted as received
            if !matches!(a, CAct::Update) && c.bytes_received_per_sec().to_bits() != rx_before {
                return Err(Violation::new(
                    "C12/disconnected-client-accepts-input",
                    format!("client disconnected with {:?}: {:?} changed bytes_received_per_sec from {} to {}", f, a, f64::from_bits(rx_before), c.bytes_received_per_sec()),
                ));
            }
        }
        if self.first.is_none() {
            self.first = now;
        } else if self.first != now {
            return Err(Violation::new("C12/client-first-reason-lost", format!("first {:?}, now {:?}", self.first, now)));
        }
        Ok(())
    }
    fn fingerprint(&self) -> u128 {
        let mut h = std::collections::hash_map::DefaultHasher::new();
        hash_conn(&self.c.verif_snapshot(), &mut h);
        self.next_seq.hash(&mut h);
        format!("{:?}", self.first).hash(&mut h);
        h128(&h.finish())
    }
    fn flags(&self) -> u64 {
        self.flags
    }
}

pub fn run(tier: Tier) -> i32 {
    let mut rep = Report::new("C12", tier);
    rep.rule("M1: every sequence of public API calls up to depth D on a RenetServer with a remote id and a local-client id (add/remove connection, disconnect, disconnect_all, new/disconnect/process local client, send in/over budget, broadcast, receive, process_packet_from valid / invalid channel / garbage / over-budget slice, update, get_packets_to_send) and on a stand-alone RenetClient (set_connected/connecting, disconnect, disconnect_due_to_transport, process_packet variants, send in/over budget, receive, update, flush); oracle in every state: a disconnected connection stays disconnected with the same reason, emits no packets, yields no messages, accepts no input (probed on a clone), transport status calls do not revive it; the event stream per id alternates Connected/Disconnected starting with Connected, and each ClientDisconnected carries the reason the connection first showed (Transport if healthy)");
    rep.assume("symmetric channel configuration (local clients are built with the server's channel perspective); events are consumed after every call, in order");
    let d = tier.pick(7, 9);
    let cfg = DfsCfg {
        depth: d,
        threads: explore::threads(),
        wall_cap_s: tier.pick(100.0, 1500.0),
        max_signatures: 8,
    };
    let w = ServerWorld::new();
    let r = explore::dfs(&w, &cfg);
    rep.vac("states_with_connect_event", (r.flags_seen & 1 != 0) as u64);
    rep.vac("states_with_disconnect_event", (r.flags_seen & 2 != 0) as u64);
    rep.vac("states_with_disconnected_connection_probed", (r.flags_seen & 4 != 0) as u64);
    rep.add_dfs("server-api", 0, d, &r);
    // scale class: hundreds of clients handled between two drains of the event queue
    {
        let mut cases = 0u64;
        for n in [2usize, 255, 256, 257, 300, 1000] {
            for drain_between in [false, true] {
                for variant in 0..3 {
                    cases += 1;
                    if let Some(v) = many_clients(n, drain_between, variant) {
                        rep.violation(
                            "many-clients",
                            v,
                            J::obj().set("kind", J::s("many")).set("clients", J::i(n as u64)).set("drain_between", J::Bool(drain_between)).set("variant", J::i(variant as u64)),
                        );
                    }
                }
            }
        }
        rep.add_sweep("many-clients", cases, cases, 6, vec!["n clients: add all, (drain,) disconnect / disconnect_all / hostile packet, remove all, drain: one Connected and one Disconnected per id, in that order, with the first reason".into()]);
    }
    let mut c = RenetClient::new(config());
    c.set_connecting();
    let cw = ClientWorld { c, first: None, next_seq: 0, flags: 0 };
    let d2 = tier.pick(9, 12);
    let cfg2 = DfsCfg { depth: d2, ..cfg };
    let r2 = explore::dfs(&cw, &cfg2);
    rep.add_dfs("client-api", 1, d2, &r2);
    rep.finish()
}

/// n clients connect; they are disconnected (variant 0: disconnect_all, 1: disconnect(id) one by one, 2: a
/// garbage packet each) and removed; the event queue is drained only at the end (or also in between)
pub fn many_clients(n: usize, drain_between: bool, variant: usize) -> Option<Violation> {
    let mut srv = RenetServer::new(config());
    let mut connected: Vec<bool> = vec![false; n];
    let mut done: Vec<bool> = vec![false; n];
    let mut check = |srv: &mut RenetServer, connected: &mut Vec<bool>, done: &mut Vec<bool>, expect_reason: Option<DisconnectReason>| -> Option<Violation> {
        while let Some(ev) = srv.get_event() {
            match ev {
                ServerEvent::ClientConnected { client_id } => {
                    let i = client_id as usize;
                    if i >= n || connected[i] || done[i] {
                        return Some(Violation::new("C12/many-clients/unexpected-connect-event", format!("id {} with {} clients", client_id, n)));
                    }
                    connected[i] = true;
                }
                ServerEvent::ClientDisconnected { client_id, reason } => {
                    let i = client_id as usize;
                    if i >= n || !connected[i] {
                        return Some(Violation::new(
                            "C12/disconnect-without-connect",
                            format!("with {} clients: ClientDisconnected for id {} without a preceding ClientConnected (events lost between two drains?)", n, client_id),
                        ));
                    }
                    connected[i] = false;
                    done[i] = true;
                    if let Some(r) = expect_reason {
                        if reason != r && !matches!((r, reason), (DisconnectReason::PacketDeserialization(_), DisconnectReason::PacketDeserialization(_))) {
                            return Some(Violation::new("C12/removal-reports-wrong-reason/many", format!("id {}: {:?} instead of {:?}", client_id, reason, r)));
                        }
                    }
                }
            }
        }
        None
    };
    let r = guard("many clients", || {
        for i in 0..n {
            srv.add_connection(i as u64);
        }
        if drain_between {
            if let Some(v) = check(&mut srv, &mut connected, &mut done, None) {
                return Some(v);
            }
        }
        let reason = match variant {
            0 => {
                srv.disconnect_all();
                DisconnectReason::DisconnectedByServer
            }
            1 => {
                for i in 0..n {
                    srv.disconnect(i as u64);
                }
                DisconnectReason::DisconnectedByServer
            }
            _ => {
                for i in 0..n {
                    let _ = srv.process_packet_from(&[0xff, 1, 2], i as u64);
                }
                DisconnectReason::PacketDeserialization(renet::verif::SerializationError::InvalidPacketType)
            }
        };
        for i in 0..n {
            srv.remove_connection(i as u64);
        }
        if let Some(v) = check(&mut srv, &mut connected, &mut done, Some(reason)) {
            return Some(v);
        }
        if let Some(i) = done.iter().position(|d| !*d) {
            return Some(Violation::new(
                "C12/many-clients/connect-or-disconnect-never-reported",
                format!("with {} clients (drain in between: {}): id {} was added and removed but its events did not both arrive", n, drain_between, i),
            ));
        }
        None
    });
    match r {
        Ok(v) => v,
        Err(v) => Some(v),
    }
}

pub fn replay(j: &J) -> i32 {
    if j.get("kind").and_then(|k| k.as_str()) == Some("many") {
        let n = j.get("clients").and_then(|x| x.as_i()).unwrap_or(300) as usize;
        let db = matches!(j.get("drain_between"), Some(J::Bool(true)));
        let variant = j.get("variant").and_then(|x| x.as_i()).unwrap_or(0) as usize;
        println!("{} clients, drain between: {}, variant {}", n, db, variant);
        return match many_clients(n, db, variant) {
            Some(v) => {
                println!("RESULT: violation {} — {}", v.signature, v.message);
                1
            }
            None => {
                println!("RESULT: no violation");
                0
            }
        };
    }
    let acts: Vec<usize> = j
        .get("actions")
        .and_then(|a| a.as_arr())
        .map(|a| a.iter().filter_map(|x| x.as_i()).map(|x| x as usize).collect())
        .unwrap_or_default();
    let idx = j.get("scenario_index").and_then(|x| x.as_i()).unwrap_or(0);
    if idx == 0 {
        let mut w = ServerWorld::new();
        for ai in acts {
            let al = w.actions();
            let Some(a) = al.get(ai) else {
                eprintln!("MACHINERY ERROR: divergence (action index {})", ai);
                return 2;
            };
            println!("  {:?}", a);
            if let Err(v) = w.step(a) {
                println!("RESULT: violation {} — {}", v.signature, v.message);
                return 1;
            }
        }
    } else {
        let mut c = RenetClient::new(config());
        c.set_connecting();
        let mut w = ClientWorld { c, first: None, next_seq: 0, flags: 0 };
        for ai in acts {
            let al = w.actions();
            let Some(a) = al.get(ai) else { return 2 };
            println!("  {:?}", a);
            if let Err(v) = w.step(a) {
                println!("RESULT: violation {} — {}", v.signature, v.message);
                return 1;
            }
        }
    }
    println!("RESULT: no violation");
    0
}
