//! C09 — Channel memory budgets: never exceeded, never leaked, fully returned after drain.

use super::{replay_link, run_link_scenarios, LinkScenario};
use crate::explore::Violation;
use crate::json::J;
use crate::link::{Chan, Drain, Fate, Kind, Link, LinkCfg, Probe, Send};
use crate::report::{Report, Tier};
use renet::{ChannelError, DisconnectReason};

pub struct MemoryProbe {
    /// scenario keeps traffic within budget and drains every tick: budget disconnects are violations
    pub within_budget: bool,
    max_seen: usize,
}

impl MemoryProbe {
    fn bounds(&mut self, l: &Link, what: &str) -> Result<(), Violation> {
        for e in 0..2 {
            let Some(s) = l.ends.snapshot(e) else { continue };
            let mut bad: Option<(String, u8, usize, usize)> = None;
            for c in &s.send_reliable {
                self.max_seen = self.max_seen.max(c.memory_usage_bytes);
                if c.memory_usage_bytes > c.max_memory_usage_bytes {
                    bad = Some(("send-reliable".into(), c.channel_id, c.memory_usage_bytes, c.max_memory_usage_bytes));
                }
            }
            for c in &s.send_unreliable {
                self.max_seen = self.max_seen.max(c.memory_usage_bytes);
                if c.memory_usage_bytes > c.max_memory_usage_bytes {
                    bad = Some(("send-unreliable".into(), c.channel_id, c.memory_usage_bytes, c.max_memory_usage_bytes));
                }
            }
            for c in &s.receive_reliable {
                self.max_seen = self.max_seen.max(c.memory_usage_bytes);
                if c.memory_usage_bytes > c.max_memory_usage_bytes {
                    bad = Some(("receive-reliable".into(), c.channel_id, c.memory_usage_bytes, c.max_memory_usage_bytes));
                }
            }
            for c in &s.receive_unreliable {
                self.max_seen = self.max_seen.max(c.memory_usage_bytes);
                if c.memory_usage_bytes > c.max_memory_usage_bytes {
                    bad = Some(("receive-unreliable".into(), c.channel_id, c.memory_usage_bytes, c.max_memory_usage_bytes));
                }
            }
            // accounting identities: what is accounted is exactly what the channel still holds
            for c in &s.send_reliable {
                let held: usize = c.unacked.iter().map(|u| u.len).sum();
                if c.memory_usage_bytes != held {
                    return Err(Violation::new(
                        "C09/accounting-differs-from-held-data/send-reliable",
                        format!("endpoint {} send-reliable channel {}: {} bytes accounted, unacknowledged messages hold {} ({}, tick {})", e, c.channel_id, c.memory_usage_bytes, held, what, l.tick),
                    ));
                }
            }
            for c in &s.send_unreliable {
                let held: usize = c.queued_lens.iter().sum();
                if c.memory_usage_bytes != held {
                    return Err(Violation::new(
                        "C09/accounting-differs-from-held-data/send-unreliable",
                        format!("endpoint {} send-unreliable channel {}: {} bytes accounted, queued messages hold {} ({}, tick {})", e, c.channel_id, c.memory_usage_bytes, held, what, l.tick),
                    ));
                }
            }
            // receive side: complete messages count with their length; how much a partial reassembly is charged is
            // the implementation's choice between nothing and its whole slices (num_slices * 1200)
            for c in &s.receive_reliable {
                let complete: usize = c.buffered.iter().map(|b| b.1).sum::<usize>();
                let partial_max: usize = c.partial.iter().map(|p| p.num_slices * 1200).sum::<usize>();
                if c.memory_usage_bytes < complete || c.memory_usage_bytes > complete + partial_max {
                    return Err(Violation::new(
                        "C09/accounting-differs-from-held-data/receive-reliable",
                        format!("endpoint {} receive-reliable channel {}: {} bytes accounted, buffered messages hold {} and partial reassemblies at most {} more ({}, tick {})", e, c.channel_id, c.memory_usage_bytes, complete, partial_max, what, l.tick),
                    ));
                }
            }
            for c in &s.receive_unreliable {
                let complete: usize = c.queued_lens.iter().sum::<usize>();
                let partial_max: usize = c.partial.iter().map(|p| p.num_slices * 1200).sum::<usize>();
                if c.memory_usage_bytes < complete || c.memory_usage_bytes > complete + partial_max {
                    return Err(Violation::new(
                        "C09/accounting-differs-from-held-data/receive-unreliable",
                        format!("endpoint {} receive-unreliable channel {}: {} bytes accounted, queued messages hold {} and partial reassemblies at most {} more ({}, tick {})", e, c.channel_id, c.memory_usage_bytes, complete, partial_max, what, l.tick),
                    ));
                }
            }
            if let Some((k, ch, used, max)) = bad {
                return Err(Violation::new(
                    format!("C09/over-budget/{}", k),
                    format!("endpoint {} {} channel {}: {} bytes accounted, maximum {} ({}, tick {})", e, k, ch, used, max, what, l.tick),
                ));
            }
        }
        Ok(())
    }
}

impl Probe for MemoryProbe {
    fn on_send(&mut self, l: &Link, _d: usize, _c: u8, _k: usize) -> Result<(), Violation> {
        self.bounds(l, "after send_message")
    }
    fn on_flush(&mut self, l: &Link, _d: usize, _f: usize) -> Result<(), Violation> {
        self.bounds(l, "after get_packets_to_send")
    }
    fn on_deliver(&mut self, l: &Link, _d: usize, _p: usize) -> Result<(), Violation> {
        self.bounds(l, "after process_packet")
    }
    fn on_drain(&mut self, l: &Link, _d: usize) -> Result<(), Violation> {
        self.bounds(l, "after receive_message")
    }
    fn on_update(&mut self, l: &Link, end: usize) -> Result<(), Violation> {
        self.bounds(l, "after update")?;
        // incomplete unreliable fragments stop counting after 3 s without progress
        if let Some(s) = l.ends.snapshot(end) {
            let now = s.current_time;
            for c in &s.receive_unreliable {
                for p in &c.partial {
                    if let Some(last) = p.last_received {
                        if now.saturating_sub(last).as_millis() >= 3000 {
                            return Err(Violation::new(
                                "C09/stale-unreliable-fragments-still-accounted",
                                format!(
                                    "endpoint {} unreliable channel {}: incomplete message id {} got its last fragment at {:?}; after update at {:?} (>= 3 s later) its {} bytes are still accounted",
                                    end,
                                    c.channel_id,
                                    p.message_id,
                                    last,
                                    now,
                                    p.num_slices * 1200
                                ),
                            ));
                        }
                    }
                }
            }
        }
        Ok(())
    }
    fn on_tick_end(&mut self, l: &Link) -> Result<(), Violation> {
        for e in 0..2 {
            if let Some(r) = l.ends.disconnect_reason(e) {
                let budget = matches!(
                    r,
                    DisconnectReason::ReceiveChannelError {
                        error: ChannelError::ReliableChannelMaxMemoryReached,
                        ..
                    } | DisconnectReason::SendChannelError {
                        error: ChannelError::ReliableChannelMaxMemoryReached,
                        ..
                    }
                );
                if budget && self.within_budget {
                    return Err(Violation::new(
                        "C09/disconnected-for-channel-memory-although-within-budget",
                        format!(
                            "endpoint {} disconnected with {:?} at tick {}; the script keeps reservations within the budget and the application drains every tick",
                            e, r, l.tick
                        ),
                    ));
                }
                if !budget {
                    return Err(Violation::new(
                        format!("C09/disconnected/{}", super::c01::reason_class(&r)),
                        format!("endpoint {} disconnected with {:?} at tick {} in an honest session", e, r, l.tick),
                    ));
                }
            }
        }
        Ok(())
    }
    fn on_end(&mut self, l: &Link) -> Result<(), Violation> {
        // quiescent point: fault-free tail is over, everything delivered/acknowledged/drained,
        // more than 3 s since the last unreliable fragment (tail length chosen accordingly)
        if l.ends.disconnect_reason(0).is_some() || l.ends.disconnect_reason(1).is_some() {
            return Ok(());
        }
        for dir in 0..2 {
            for (ci, ch) in l.cfg.chans[dir].iter().enumerate() {
                if ch.kind != Kind::Unreliable && l.obtained[dir][ci].len() != l.submitted[dir][ci].len() {
                    return Ok(()); // not quiescent (C01/C02 report that)
                }
            }
        }
        for e in 0..2 {
            let Some(s) = l.ends.snapshot(e) else { continue };
            let mut res: Vec<String> = vec![];
            for c in &s.send_reliable {
                if c.memory_usage_bytes != 0 {
                    res.push(format!("send-reliable ch{}: {}", c.channel_id, c.memory_usage_bytes));
                }
            }
            for c in &s.send_unreliable {
                if c.memory_usage_bytes != 0 {
                    res.push(format!("send-unreliable ch{}: {}", c.channel_id, c.memory_usage_bytes));
                }
            }
            for c in &s.receive_reliable {
                if c.memory_usage_bytes != 0 {
                    res.push(format!("receive-reliable ch{}: {}", c.channel_id, c.memory_usage_bytes));
                }
            }
            for c in &s.receive_unreliable {
                // fragments younger than 3 s may legitimately still be accounted (e.g. a late duplicate
                // fragment of an already delivered message); everything else must be gone
                let young: usize = c
                    .partial
                    .iter()
                    .filter(|p| p.last_received.map(|t| s.current_time.saturating_sub(t).as_millis() < 3000).unwrap_or(false))
                    .map(|p| p.num_slices * 1200)
                    .sum();
                if c.memory_usage_bytes > young {
                    res.push(format!(
                        "receive-unreliable ch{}: {} (fragments younger than 3 s explain {})",
                        c.channel_id, c.memory_usage_bytes, young
                    ));
                }
            }
            if !res.is_empty() {
                let kind = res[0].split(' ').next().unwrap_or("").to_string();
                return Err(Violation::new(
                    format!("C09/residue-at-quiescence/{}", kind),
                    format!(
                        "endpoint {}: everything was delivered, acknowledged and drained, yet bytes stay accounted: {}",
                        e,
                        res.join(", ")
                    ),
                ));
            }
            for ch in &l.cfg.chans[e] {
                let avail = l.ends.available_memory(e, ch.id);
                if avail != ch.max {
                    return Err(Violation::new(
                        "C09/budget-not-fully-returned",
                        format!("endpoint {} channel {}: channel_available_memory {} != configured {} at quiescence", e, ch.id, avail, ch.max),
                    ));
                }
            }
        }
        Ok(())
    }
    fn outcome(&self) -> u64 {
        self.max_seen as u64
    }
}

fn probe_ample() -> Box<dyn Probe> {
    Box::new(MemoryProbe {
        within_budget: false,
        max_seen: 0,
    })
}
fn probe_tight() -> Box<dyn Probe> {
    Box::new(MemoryProbe {
        within_budget: true,
        max_seen: 0,
    })
}

pub fn scenarios(tier: Tier) -> Vec<LinkScenario<fn() -> Box<dyn Probe>>> {
    let r = 300u64;
    let mut out: Vec<LinkScenario<fn() -> Box<dyn Probe>>> = vec![];
    let chans = |max: usize| {
        vec![
            Chan::new(0, Kind::Ordered, max, r),
            Chan::new(1, Kind::Unordered, max, r),
            Chan::new(2, Kind::Unreliable, max, 0),
        ]
    };
    // G1: ample budgets, drain timing varies, residue must be zero at quiescence
    let g1: Vec<(&str, Vec<(u32, u8, usize)>)> = vec![
        ("unord 1+2401", vec![(0, 1, 1), (0, 1, 2401)]),
        ("ord 1+2401", vec![(0, 0, 1), (0, 0, 2401)]),
        ("unord 1+1201 x2 cycles", vec![(0, 1, 1), (0, 1, 1201), (3, 1, 1), (3, 1, 1201)]),
        ("all kinds 1201", vec![(0, 0, 1201), (0, 1, 1201), (0, 2, 1201)]),
    ];
    for (name, script) in &g1 {
        for dir in 0..2usize {
            if tier == Tier::Quick && dir == 1 && *name != "unord 1+2401" {
                continue;
            }
            let mut cfg = LinkCfg::base(&format!("ample {} dir{}", name, dir), chans(100_000), chans(100_000));
            cfg.dt_ms = vec![100];
            cfg.horizon = 5;
            cfg.tail = 8;
            cfg.drains = vec![Drain::End, Drain::Skip, Drain::Each];
            cfg.script = script.iter().map(|&(tick, ch, len)| Send { tick, dir, ch, len }).collect();
            out.push(LinkScenario { cfg, probe: probe_ample as fn() -> Box<dyn Probe> });
        }
    }
    // G2: tight budget (6000 B), three cycles, application drains every tick: never a budget disconnect
    for (name, ch) in [("unord", 1u8), ("ord", 0u8)] {
        for dir in 0..2usize {
            if tier == Tier::Quick && dir == 1 {
                continue;
            }
            let mut cfg = LinkCfg::base(&format!("tight-6000 {} 3x(1+2401) dir{}", name, dir), chans(6000), chans(6000));
            cfg.dt_ms = vec![100];
            cfg.horizon = 12;
            cfg.tail = 8;
            cfg.drains = vec![Drain::End];
            cfg.gated_sends = true;
            cfg.allow_reverse = false;
            cfg.faults_dir = [dir == 0, dir == 1];
            cfg.fates = vec![Fate::Ok, Fate::Drop, Fate::DupLate, Fate::Delay2];
            cfg.script = (0..3u32)
                .flat_map(|c| vec![Send { tick: c * 4, dir, ch, len: 1 }, Send { tick: c * 4, dir, ch, len: 2401 }])
                .collect();
            out.push(LinkScenario { cfg, probe: probe_tight as fn() -> Box<dyn Probe> });
        }
    }
    // G5: the script fills the budget exactly (500 + 1200 + 1200 = 2900): the last byte of the budget is usable on
    // the send side, and duplicates of buffered messages must not be charged again on the receive side
    for (name, ch) in [("ord", 0u8), ("unord", 1u8)] {
        for dir in 0..2usize {
            if tier == Tier::Quick && dir == 1 {
                continue;
            }
            let mut cfg = LinkCfg::base(&format!("budget 2900 filled exactly by {} 500+1200+1200 dir{}", name, dir), chans(2900), chans(2900));
            cfg.dt_ms = vec![100];
            cfg.horizon = 5;
            cfg.tail = 8;
            cfg.drains = vec![Drain::End];
            cfg.gated_sends = true;
            cfg.fates = vec![Fate::Ok, Fate::Drop, Fate::Dup, Fate::DupLate, Fate::Delay2];
            cfg.script = vec![Send::at(0, dir, ch, 500), Send::at(0, dir, ch, 1200), Send::at(0, dir, ch, 1200)];
            out.push(LinkScenario { cfg, probe: probe_tight as fn() -> Box<dyn Probe> });
        }
    }
    // G7: scale class — one 1.5 MB reliable message sent in a single tick (1250 packets in flight at once) on a
    // 2 MB per tick link: everything is acknowledged one tick later and the budget comes back
    for (name, ch) in [("ord", 0u8), ("unord", 1u8)] {
        if tier == Tier::Quick && ch == 1 {
            continue;
        }
        let mut cfg = LinkCfg::base(&format!("1.5 MB {} message, 1250 packets in flight", name), chans(2_000_000), chans(2_000_000));
        cfg.bytes_per_tick = 2_000_000;
        cfg.dt_ms = vec![100];
        cfg.horizon = 1;
        cfg.tail = 8;
        cfg.drains = vec![Drain::End];
        cfg.allow_reverse = true;
        cfg.fates = vec![Fate::Ok];
        cfg.script = vec![Send::at(0, 0, ch, 1_500_000)];
        out.push(LinkScenario { cfg, probe: probe_tight as fn() -> Box<dyn Probe> });
    }
    // G8: scale class — latency: 4 ticks each way, 240 kB per tick, one 3 MB message: about 1600 packets are
    // in flight at any time for 15 ticks; after the tail everything is acknowledged and the budget is back
    if tier == Tier::Thorough || true {
        let mut cfg = LinkCfg::base("latency 4 ticks each way, 3 MB ordered message at 240 kB per tick", chans(4_000_000), chans(4_000_000));
        cfg.bytes_per_tick = 240_000;
        cfg.dt_ms = vec![100];
        cfg.base_delay_ticks = 4;
        cfg.horizon = 0;
        cfg.tail = 60;
        cfg.drains = vec![Drain::End];
        cfg.fates = vec![Fate::Ok];
        cfg.script = vec![Send::at(0, 0, 0, 3_000_000)];
        out.push(LinkScenario { cfg, probe: probe_tight as fn() -> Box<dyn Probe> });
    }
    // G9: scale class — one direction uses its tick budget to the last byte for 60 ticks (720 kB in full slices at
    // 12 000 B per tick) while the other direction sends a modest reliable stream (500 B per tick on a 20 kB
    // channel, not gated): acknowledgements are not message payload and keep flowing, so the stream's bytes come
    // back tick by tick and nobody runs out of channel memory
    for (dir, faults) in [(0usize, false), (1, false)] {
        if tier == Tier::Quick && dir == 1 {
            continue;
        }
        let (big, small) = (chans(1_000_000), chans(20_000));
        let mut cfg = LinkCfg::base(
            &format!("dir{} saturates 12000 B/tick exactly for 60 ticks, the other direction streams 500 B/tick on 20 kB{}", dir, if faults { ", faults in ticks 10..13" } else { "" }),
            if dir == 0 { big.clone() } else { small.clone() },
            if dir == 0 { small } else { big },
        );
        cfg.bytes_per_tick = 12_000;
        cfg.dt_ms = vec![100];
        cfg.horizon = 0;
        cfg.tail = 80;
        cfg.drains = vec![Drain::End];
        cfg.fates = if faults { vec![Fate::Ok, Fate::Drop, Fate::Dup] } else { vec![Fate::Ok] };
        let mut script = vec![Send::at(0, dir, 0, 720_000)];
        for t in 1..=58u32 {
            script.push(Send::at(t, 1 - dir, 1, 500));
        }
        cfg.script = script;
        out.push(LinkScenario { cfg, probe: probe_tight as fn() -> Box<dyn Probe> });
    }
    // G4: bandwidth-starved tick budget: unreliable messages are dropped at the flush, their bytes must come back
    for dir in 0..2usize {
        if tier == Tier::Quick && dir == 1 {
            continue;
        }
        let mut cfg = LinkCfg::base(&format!("bandwidth 2000 B/tick, unreliable 3x1000 + 2x1500 behind a reliable 500 dir{}", dir), chans(20_000), chans(20_000));
        cfg.bytes_per_tick = 2000;
        cfg.dt_ms = vec![100];
        cfg.horizon = 4;
        cfg.tail = 10;
        cfg.drains = vec![Drain::End];
        cfg.fates = vec![Fate::Ok, Fate::Drop, Fate::Dup];
        cfg.script = vec![
            Send::at(0, dir, 0, 500),
            Send::at(0, dir, 2, 1000),
            Send::at(0, dir, 2, 1000),
            Send::at(0, dir, 2, 1000),
            Send::at(2, dir, 2, 1500),
            Send::at(2, dir, 2, 1500),
            Send::at(2, dir, 1, 700),
        ];
        out.push(LinkScenario { cfg, probe: probe_ample as fn() -> Box<dyn Probe> });
    }
    // G6: unreliable receive budget too small for everything submitted in one tick (6000 B, three 2401-byte and
    // two 1200-byte messages): refusals are legitimate, but what is refused must not stay accounted
    for dir in 0..2usize {
        if tier == Tier::Quick && dir == 1 {
            continue;
        }
        let mut tight = chans(100_000);
        tight[2] = Chan::new(2, Kind::Unreliable, 6000, 0);
        let mut cfg = LinkCfg::base(&format!("unreliable receive budget 6000 overrun by 3x2401 + 2x1200 dir{}", dir), tight.clone(), tight);
        cfg.dt_ms = vec![1000];
        cfg.horizon = 3;
        cfg.tail = 6;
        cfg.drains = vec![Drain::End, Drain::Skip];
        cfg.fates = vec![Fate::Ok, Fate::Drop, Fate::Dup, Fate::Delay1];
        cfg.script = vec![
            Send::at(0, dir, 2, 2401),
            Send::at(0, dir, 2, 2401),
            Send::at(0, dir, 2, 1200),
            Send::at(1, dir, 2, 2401),
            Send::at(1, dir, 2, 1200),
            Send::at(2, dir, 2, 2401),
        ];
        out.push(LinkScenario { cfg, probe: probe_ample as fn() -> Box<dyn Probe> });
    }
    // G3: unreliable fragments and the 3 s rule (1 s ticks); lossy baseline: second slice always lost
    for dir in 0..2usize {
        if tier == Tier::Quick && dir == 1 {
            continue;
        }
        let mut cfg = LinkCfg::base(&format!("unreliable 2x2-slices lossy 1s-ticks dir{}", dir), chans(100_000), chans(100_000));
        cfg.dt_ms = vec![1000];
        cfg.horizon = 4;
        cfg.tail = 6;
        cfg.base_drop_slice_idx = Some(1);
        cfg.drains = vec![Drain::End, Drain::Skip];
        cfg.fates = vec![Fate::Ok, Fate::Drop, Fate::Dup, Fate::Delay1, Fate::Delay2, Fate::DupLate];
        cfg.script = vec![Send { tick: 0, dir, ch: 2, len: 2400 }, Send { tick: 0, dir, ch: 2, len: 1201 }, Send { tick: 1, dir, ch: 2, len: 2401 }];
        out.push(LinkScenario { cfg, probe: probe_ample as fn() -> Box<dyn Probe> });
    }
    out
}

/// One message of `len` bytes on a reliable channel with the default 5 MiB budget, both directions, perfect network,
/// application draining every tick: nobody may be disconnected for channel memory, and the budget comes back.
pub fn big_message_case(ordered: bool, len: usize) -> Option<Violation> {
    use renet::{ChannelConfig, ConnectionConfig, RenetClient, RenetServer, SendType};
    use std::time::Duration;
    const BUDGET: usize = 5 * 1024 * 1024;
    let chans = || {
        vec![ChannelConfig {
            channel_id: 0,
            max_memory_usage_bytes: BUDGET,
            send_type: if ordered { SendType::ReliableOrdered { resend_time: Duration::from_millis(300) } } else { SendType::ReliableUnordered { resend_time: Duration::from_millis(300) } },
        }]
    };
    let cfg = || ConnectionConfig { available_bytes_per_tick: 16_000_000, server_channels_config: chans(), client_channels_config: chans() };
    let kname = if ordered { "ordered" } else { "unordered" };
    let r = crate::link::guard("big message", || {
        let mut srv = RenetServer::new(cfg());
        let mut cl = RenetClient::new(cfg());
        srv.add_connection(1);
        cl.set_connected();
        if !srv.can_send_message(1, 0u8, len) || !cl.can_send_message(0u8, len) {
            return Some(Violation::new(format!("C09/big-message/sender-refuses-within-budget/{}", kname), format!("can_send_message says no to {} bytes on an idle {} byte channel", len, BUDGET)));
        }
        srv.send_message(1, 0u8, vec![7u8; len]);
        cl.send_message(0u8, vec![9u8; len]);
        let dt = Duration::from_millis(100);
        let mut got = [0usize; 2];
        for _ in 0..5 {
            srv.update(dt);
            cl.update(dt);
            if let Ok(pk) = srv.get_packets_to_send(1) {
                for p in pk {
                    cl.process_packet(&p);
                }
            }
            for p in cl.get_packets_to_send() {
                let _ = srv.process_packet_from(&p, 1);
            }
            while cl.receive_message(0u8).is_some() {
                got[0] += 1;
            }
            while srv.receive_message(1, 0u8).is_some() {
                got[1] += 1;
            }
        }
        let reasons = (cl.disconnect_reason(), srv.disconnect_reason(1));
        if reasons.0.is_some() || reasons.1.is_some() {
            let memory = format!("{:?}", reasons).contains("MaxMemoryReached");
            let rounded = len.div_ceil(1200) * 1200;
            let sig = if memory && rounded > BUDGET {
                // the receiver reserves num_slices * 1200 bytes, more than the message it is going to hold
                format!("C09/big-message/disconnected-although-within-budget/receive-reservation-rounded-up-to-whole-slices/{}", kname)
            } else {
                format!("C09/big-message/disconnected-although-within-budget/{}", kname)
            };
            return Some(Violation::new(
                sig,
                format!("one {} byte message on a {} byte {} channel, perfect network, application drains every tick: client {:?}, server side {:?} (the receiver reserves {} bytes for its {} slices)", len, BUDGET, kname, reasons.0, reasons.1, rounded, len.div_ceil(1200)),
            ));
        }
        if got != [1, 1] {
            return Some(Violation::new(format!("C09/big-message/not-delivered/{}", kname), format!("{} bytes: obtained {:?} of 1 message per direction", len, got)));
        }
        if srv.channel_available_memory(1, 0u8) != BUDGET || cl.channel_available_memory(0u8) != BUDGET {
            return Some(Violation::new(
                format!("C09/big-message/budget-not-returned/{}", kname),
                format!("{} bytes delivered and acknowledged, available memory server {} client {} of {}", len, srv.channel_available_memory(1, 0u8), cl.channel_available_memory(0u8), BUDGET),
            ));
        }
        None
    });
    match r {
        Ok(v) => v,
        Err(v) => Some(v),
    }
}

/// link-outage scenarios (run with their own deviation bound)
pub fn outage_scenarios(tier: Tier) -> Vec<LinkScenario<fn() -> Box<dyn Probe>>> {
    let r = 300u64;
    let _ = r;
    let mut out: Vec<LinkScenario<fn() -> Box<dyn Probe>>> = vec![];
    let chans = |max: usize| vec![Chan::new(0, Kind::Ordered, max, r), Chan::new(1, Kind::Unordered, max, r), Chan::new(2, Kind::Unreliable, max, 0)];
    // G10 (scale class: link outage): sliced messages on every channel kind partly delivered, then both directions
    // dead for 3.25 s / 10 s (longer than the 3 s for which sent-packet records and unreliable fragments are kept)
    for (dir, n) in [(0usize, 13u32), (1, 13), (0, 40)] {
        if tier == Tier::Quick && n == 40 {
            continue;
        }
        let mut cfg = LinkCfg::base(&format!("ample all kinds 3601, outage of {} ms from tick 2, dir{}", n * 250, dir), chans(100_000), chans(100_000));
        cfg.dt_ms = vec![250];
        cfg.horizon = 2;
        cfg.outage = Some((2, 2 + n));
        cfg.tail = n + 8 + 13;
        cfg.drains = vec![Drain::End];
        cfg.script = vec![Send { tick: 0, dir, ch: 0, len: 3601 }, Send { tick: 0, dir, ch: 1, len: 3601 }, Send { tick: 0, dir, ch: 2, len: 3601 }];
        out.push(LinkScenario { cfg, probe: probe_ample as fn() -> Box<dyn Probe> });
    }
    out
}

pub fn run(tier: Tier) -> i32 {
    let mut rep = Report::new("C09", tier);
    rep.rule("M2: every schedule with <= d deviations over the horizon of each scenario (ample budgets with varying drain timing; 6000-byte budgets with three send cycles and prompt drains; unreliable fragments with 1 s ticks over a lossy baseline) + fault-free tail; oracle after every library call: accounted bytes of every channel of both endpoints within [0, max] (hook; underflow panics under overflow checks); after update: no unreliable reservation older than 3 s; at the quiescent end: zero accounted everywhere and channel_available_memory = configured maximum; tight scenarios: no ReliableChannelMaxMemoryReached disconnect");
    rep.assume("receive-side accounting is read through the snapshot hook; the M2 'within budget' scenarios keep the sum of reservations (ceil(len/1200)*1200) of messages in flight <= budget and drain every tick; the big-message part measures 'within budget' in message bytes, as can_send_message does");
    let sc = scenarios(tier);
    run_link_scenarios(&mut rep, "m2", &sc, tier.pick(3, 4), tier.pick(120.0, 3000.0));
    if rep.machinery.is_none() {
        super::run_link_scenarios_from(&mut rep, "m2-outage", &outage_scenarios(tier), tier.pick(2, 3), tier.pick(120.0, 3000.0), 3000);
    }
    // scale class: single reliable messages up to the default channel budget (5 MiB)
    {
        let lens: Vec<usize> = tier.pick(vec![1_200_000, 5_241_600, 5_242_879, 5_242_880], vec![76_801, 1_200_000, 1_200_001, 3_000_000, 5_241_599, 5_241_600, 5_241_601, 5_242_000, 5_242_879, 5_242_880]);
        let cases: Vec<(bool, usize)> = [true, false].iter().flat_map(|&o| lens.iter().map(move |&l| (o, l))).collect();
        let res = crate::explore::par_cases(cases.len(), |i| big_message_case(cases[i].0, cases[i].1));
        for (i, r) in res.into_iter().enumerate() {
            if let Some(v) = r {
                rep.violation("big-messages", v, J::obj().set("kind", J::s("big-message")).set("ordered", J::Bool(cases[i].0)).set("len", J::i(cases[i].1 as u64)));
            }
        }
        rep.add_sweep("big-messages", cases.len() as u64, cases.len() as u64, 2, vec![format!("one message of {:?} bytes per direction on an ordered / unordered channel with the default 5 MiB budget", lens)]);
    }
    if rep.machinery.is_none() {
        rep.rule("M1 (API soup): every interleaving up to depth D of send / update / flush / deliver / drop / duplicate / receive with <= 3 packets in flight per direction (ordered and unordered channel); accounting within budget after every call, and from every state a probe on a clone ends with zero bytes accounted once everything is delivered, acknowledged and drained");
        super::soup::run_soup(&mut rep, tier, "soup-ordered", Kind::Ordered, super::soup::O_MEMORY, &["C09/"]);
        super::soup::run_soup(&mut rep, tier, "soup-unordered", Kind::Unordered, super::soup::O_MEMORY, &["C09/"]);
    }
    rep.finish()
}

pub fn replay(j: &J) -> i32 {
    let tier = match j.get("tier").and_then(|t| t.as_str()) {
        Some("thorough") => Tier::Thorough,
        _ => Tier::Quick,
    };
    if j.get("kind").and_then(|k| k.as_str()) == Some("big-message") {
        let ordered = matches!(j.get("ordered"), Some(J::Bool(true)));
        let len = j.get("len").and_then(|x| x.as_i()).unwrap_or(5_242_880) as usize;
        println!("one {} byte message per direction on an {} channel with a 5 MiB budget", len, if ordered { "ordered" } else { "unordered" });
        return match big_message_case(ordered, len) {
            Some(v) => {
                println!("RESULT: violation {} — {}", v.signature, v.message);
                1
            }
            None => {
                println!("RESULT: no violation");
                0
            }
        };
    }
    if j.get("kind").and_then(|k| k.as_str()) == Some("trace") {
        let part = j.get("part").and_then(|p| p.as_str()).unwrap_or("");
        let kind = if part.starts_with("soup-unordered") { Kind::Unordered } else { Kind::Ordered };
        return super::soup::replay_soup(j, kind, super::soup::O_MEMORY);
    }
    if j.get("scenario_index").and_then(|x| x.as_i()).unwrap_or(0) >= 3000 {
        return super::replay_link_from(&outage_scenarios(tier), j, 3000);
    }
    replay_link(&scenarios(tier), j)
}
