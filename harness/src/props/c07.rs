//! C07 — renetcode survives hostile datagrams and tokens: no panic, no state change.

use crate::explore::{self, h64, Violation};
use crate::json::J;
use crate::link::guard;
use crate::nc::{self, client_addr, make_token, new_client, new_server, server_addr, TokenSpec, PROTOCOL, SR};
use crate::report::{Report, Tier};
use renetcode::verif::Packet;
use renetcode::{ClientAuthentication, ConnectToken, NetcodeClient, NetcodeServer};
use std::net::SocketAddr;
use std::time::Duration;

pub const LENGTHS: [usize; 20] = [0, 1, 2, 17, 18, 19, 25, 26, 27, 33, 34, 35, 100, 324, 325, 326, 1077, 1078, 1079, 1400];

#[derive(Clone)]
pub struct ServerState {
    pub name: &'static str,
    pub server: NetcodeServer,
    /// source address of the hostile datagram
    pub from: SocketAddr,
    /// a genuine datagram from `from` that must still be accepted afterwards, and what it must produce
    pub follow_up: Vec<u8>,
    pub follow_kind: &'static str,
}

#[derive(Clone)]
pub struct ClientState {
    pub name: &'static str,
    pub client: NetcodeClient,
    pub follow_up: Option<Vec<u8>>,
    /// true = follow-up must surface a payload; false = must make the client connected / responding
    pub follow_payload: bool,
}

pub struct Fixture {
    pub server_states: Vec<ServerState>,
    pub client_states: Vec<ClientState>,
    /// genuine datagrams seen in the session: (kind, direction c2s?, bytes)
    pub genuine: Vec<(&'static str, bool, Vec<u8>)>,
    pub valid_request_body: Vec<u8>,
    /// the connection request of client 2, whose token is in use from client 2's address
    pub other_request: Vec<u8>,
    /// the connection request of a client that is half-open from its own address (token bound there, id not connected)
    pub half_open_request: Vec<u8>,
}

pub fn fixture() -> Result<Fixture, Violation> {
    let public = vec![server_addr(0)];
    let mut server = new_server(4, public.clone(), Duration::ZERO);
    let t1 = make_token(&TokenSpec::new(1, 11, public.clone()));
    let t2 = make_token(&TokenSpec::new(2, 22, public.clone()));
    let t3 = make_token(&TokenSpec::new(3, 33, public.clone()));
    let mut genuine: Vec<(&'static str, bool, Vec<u8>)> = vec![];
    // an untouched second connected client
    let mut c2 = new_client(Duration::ZERO, &t2);
    let other_request = {
        let mut c = c2.clone();
        nc::cli_update(&mut c, Duration::from_millis(250))?.map(|(p, _)| p).unwrap_or_default()
    };
    if !nc::connect(&mut server, &mut c2, client_addr(2))? {
        return Err(Violation::new("C07/fixture", "handshake of client 2 failed".to_string()));
    }
    // a fourth client is half-open from its own address throughout
    let half_open_request = {
        let t4 = make_token(&TokenSpec::new(4, 44, public.clone()));
        let mut c4 = new_client(Duration::ZERO, &t4);
        let r = nc::cli_update(&mut c4, Duration::from_millis(250))?.map(|(p, _)| p).unwrap_or_default();
        nc::srv_process(&mut server, client_addr(4), &r)?;
        r
    };
    let s_unknown = server.clone();
    // client 1: step by step, recording every datagram
    let mut c1 = new_client(Duration::ZERO, &t1);
    let c_requesting = c1.clone();
    let (req, _) = nc::cli_update(&mut c1, Duration::from_millis(250))?.ok_or_else(|| Violation::new("C07/fixture", "no request".to_string()))?;
    genuine.push(("request", true, req.clone()));
    let challenge = match nc::srv_process(&mut server, client_addr(1), &req)? {
        SR::Send { bytes, .. } => bytes,
        o => return Err(Violation::new("C07/fixture", format!("request answered with {}", o.kind()))),
    };
    genuine.push(("challenge", false, challenge.clone()));
    let s_pending = server.clone();
    nc::cli_process(&mut c1, &challenge)?;
    let c_responding = c1.clone();
    let (resp, _) = nc::cli_update(&mut c1, Duration::from_millis(250))?.ok_or_else(|| Violation::new("C07/fixture", "no response".to_string()))?;
    genuine.push(("response", true, resp.clone()));
    let ka = match nc::srv_process(&mut server, client_addr(1), &resp)? {
        SR::Connected { bytes, .. } => bytes,
        o => return Err(Violation::new("C07/fixture", format!("response answered with {}", o.kind()))),
    };
    genuine.push(("keep-alive s2c", false, ka.clone()));
    nc::cli_process(&mut c1, &ka)?;
    if !c1.is_connected() {
        return Err(Violation::new("C07/fixture", "client 1 not connected".to_string()));
    }
    let (ka_c, _) = nc::cli_update(&mut c1, Duration::from_millis(250))?.ok_or_else(|| Violation::new("C07/fixture", "no keep-alive".to_string()))?;
    genuine.push(("keep-alive c2s", true, ka_c.clone()));
    nc::srv_process(&mut server, client_addr(1), &ka_c)?;
    let pay_c = c1.generate_payload_packet(b"client payload").map(|(_, p)| p.to_vec()).map_err(|e| Violation::new("C07/fixture", e.to_string()))?;
    genuine.push(("payload c2s", true, pay_c.clone()));
    nc::srv_process(&mut server, client_addr(1), &pay_c)?;
    let pay_s = server.generate_payload_packet(1, b"server payload").map(|(_, p)| p.to_vec()).map_err(|e| Violation::new("C07/fixture", e.to_string()))?;
    genuine.push(("payload s2c", false, pay_s.clone()));
    nc::cli_process(&mut c1, &pay_s)?;
    // time passes without traffic so that a refreshed timer is visible
    server.update(Duration::from_secs(1));
    nc::cli_update(&mut c1, Duration::from_millis(100))?;
    // disconnect / denied datagrams built from clones (never processed by the live session)
    {
        let mut c = c1.clone();
        let d = c.disconnect().map(|(_, p)| p.to_vec()).map_err(|e| Violation::new("C07/fixture", e.to_string()))?;
        genuine.push(("disconnect c2s", true, d));
        let mut s = server.clone();
        if let SR::Disconnected { bytes: Some(b), .. } = nc::own(s.disconnect(1)) {
            genuine.push(("disconnect s2c", false, b));
        }
        genuine.push(("denied s2c", false, nc::seal(&Packet::ConnectionDenied, PROTOCOL, 77, &t1.server_to_client_key)));
    }
    let s_connected = server.clone();
    let c_connected = c1.clone();
    let mut c_disc = c1.clone();
    let _ = c_disc.disconnect();

    // follow-ups
    let follow_connected = {
        let mut c = c1.clone();
        c.generate_payload_packet(b"still alive").map(|(_, p)| p.to_vec()).map_err(|e| Violation::new("C07/fixture", e.to_string()))?
    };
    let follow_client_payload = {
        let mut s = server.clone();
        s.generate_payload_packet(1, b"server still alive").map(|(_, p)| p.to_vec()).map_err(|e| Violation::new("C07/fixture", e.to_string()))?
    };
    let req3 = {
        let mut c3 = new_client(Duration::ZERO, &t3);
        nc::cli_update(&mut c3, Duration::from_millis(250))?.map(|(p, _)| p).unwrap_or_default()
    };
    let mut s_unknown = s_unknown;
    s_unknown.update(Duration::from_secs(1));
    let mut s_pending = s_pending;
    s_pending.update(Duration::from_secs(1));

    Ok(Fixture {
        server_states: vec![
            ServerState { name: "source unknown", server: s_unknown, from: client_addr(3), follow_up: req3, follow_kind: "PacketToSend" },
            ServerState { name: "source pending", server: s_pending, from: client_addr(1), follow_up: resp.clone(), follow_kind: "ClientConnected" },
            ServerState { name: "source connected", server: s_connected, from: client_addr(1), follow_up: follow_connected, follow_kind: "Payload" },
        ],
        client_states: vec![
            ClientState { name: "requesting", client: c_requesting, follow_up: Some(challenge.clone()), follow_payload: false },
            ClientState { name: "responding", client: c_responding, follow_up: Some(ka.clone()), follow_payload: false },
            ClientState { name: "connected", client: c_connected, follow_up: Some(follow_client_payload), follow_payload: true },
            ClientState { name: "disconnected", client: c_disc, follow_up: None, follow_payload: false },
        ],
        valid_request_body: req[1..].to_vec(),
        other_request,
        half_open_request,
        genuine,
    })
}

/// hostile datagrams: (description, bytes)
pub fn datagrams(fx: &Fixture, tier: Tier) -> Vec<(String, Vec<u8>)> {
    let mut v: Vec<(String, Vec<u8>)> = vec![];
    // (a) every prefix byte x lengths x fills
    for prefix in 0..=255u8 {
        for &len in &LENGTHS {
            for fill in 0..3u8 {
                if tier == Tier::Quick && fill == 1 && len > 100 {
                    continue;
                }
                if len == 0 {
                    if prefix == 0 && fill == 0 {
                        v.push(("empty".into(), vec![]));
                    }
                    continue;
                }
                let mut d: Vec<u8> = match fill {
                    0 => vec![0u8; len],
                    1 => vec![0xFFu8; len],
                    _ => (0..len).map(|i| i as u8).collect(),
                };
                d[0] = prefix;
                v.push((format!("prefix {:#04x} len {} fill {}", prefix, len, fill), d));
            }
        }
    }
    if tier == Tier::Thorough {
        for prefix in 0..=255u8 {
            for len in 1..=80usize {
                let mut d: Vec<u8> = (0..len).map(|i| (i as u8).wrapping_mul(37).wrapping_add(prefix)).collect();
                d[0] = prefix;
                v.push((format!("prefix {:#04x} len {} pattern", prefix, len), d));
            }
        }
        // every single-bit flip of every genuine datagram (the request's unsealed prefix high nibble excepted)
        for (kind, _c2s, g) in &fx.genuine {
            for i in 0..g.len() {
                for b in 0..8u8 {
                    if *kind == "request" && i == 0 && b >= 4 {
                        continue;
                    }
                    let mut d = g.clone();
                    d[i] ^= 1 << b;
                    v.push((format!("genuine {} with bit {} of byte {} flipped", kind, b, i), d));
                }
            }
        }
    }
    // (b) genuine datagrams with the prefix / the sequence replaced, and truncated
    for (kind, _c2s, g) in &fx.genuine {
        for prefix in 0..=255u8 {
            if prefix == g[0] {
                continue;
            }
            let mut d = g.clone();
            d[0] = prefix;
            v.push((format!("genuine {} with prefix {:#04x}", kind, prefix), d));
        }
        if *kind != "request" {
            let seq_len = (g[0] >> 4) as usize;
            let body = &g[1 + seq_len..];
            for seq in [0u64, 1, 255, 256, 511, 512, 1 << 31, 1 << 32, (1 << 62) + 1, (1 << 63) - 1, 1 << 63, (1 << 63) + 1, (1 << 63) + 2, (1 << 63) + 300, u64::MAX - 256, u64::MAX - 255, u64::MAX - 1, u64::MAX] {
                for force_len in [0usize, 8] {
                    let bytes = seq.to_le_bytes();
                    let n = if force_len == 8 { 8 } else { (8 - seq.leading_zeros() as usize / 8).max(1) };
                    let mut d = vec![(g[0] & 0x0f) | ((n as u8) << 4)];
                    d.extend(&bytes[..n]);
                    d.extend(body);
                    if fx.genuine.iter().any(|(_, _, g)| *g == d) {
                        continue; // identical to a genuine datagram: authentic, not hostile
                    }
                    v.push((format!("genuine {} with sequence {} in {} bytes", kind, seq, n), d));
                }
            }
        }
        let step = if crate::report::deep() { 1 } else if g.len() > 200 { tier.pick(41, 7) } else { 1 };
        for n in (0..g.len()).step_by(step) {
            v.push((format!("genuine {} truncated to {}", kind, n), g[..n].to_vec()));
        }
        let mut d = g.clone();
        d.push(0);
        v.push((format!("genuine {} extended by one byte", kind), d));
    }
    // (c) packets of another session / another protocol id
    if !fx.other_request.is_empty() {
        // a genuinely sealed, unexpired token that is in use from another address (replayed by someone who saw it)
        v.push(("connection request of another client whose token is in use from that client's address".into(), fx.other_request.clone()));
        let mut d = fx.other_request.clone();
        d.resize(1400, 0);
        v.push(("the same request padded to 1400 bytes".into(), d));
    }
    if !fx.half_open_request.is_empty() {
        v.push(("connection request of a client that is half-open from another address (token bound there)".into(), fx.half_open_request.clone()));
    }
    let public = vec![server_addr(0)];
    let t9 = make_token(&TokenSpec::new(9, 99, public));
    v.push(("keep-alive sealed under another session's key".into(), nc::seal(&Packet::KeepAlive { client_index: 0, max_clients: 4 }, PROTOCOL, 5, &t9.client_to_server_key)));
    v.push(("payload sealed under another session's key".into(), nc::seal(&Packet::Payload(b"x"), PROTOCOL, 6, &t9.client_to_server_key)));
    v.push(("disconnect sealed under another session's key".into(), nc::seal(&Packet::Disconnect, PROTOCOL, 7, &t9.client_to_server_key)));
    let t1 = make_token(&TokenSpec::new(1, 11, vec![server_addr(0)]));
    v.push(("payload under the right key but another protocol id".into(), nc::seal(&Packet::Payload(b"x"), PROTOCOL + 1, 900, &t1.client_to_server_key)));
    v.push(("disconnect under the right key but another protocol id".into(), nc::seal(&Packet::Disconnect, PROTOCOL + 1, 901, &t1.client_to_server_key)));
    v.push(("s2c payload under the right key but another protocol id".into(), nc::seal(&Packet::Payload(b"x"), PROTOCOL + 1, 900, &t1.server_to_client_key)));
    v.push(("s2c disconnect under the right key but another protocol id".into(), nc::seal(&Packet::Disconnect, PROTOCOL + 1, 901, &t1.server_to_client_key)));
    v
}

fn is_valid_request(fx: &Fixture, d: &[u8]) -> bool {
    // a datagram of request type whose body is a genuine valid request is authentic whatever its high nibble says
    !d.is_empty() && d[0] & 0x0f == 0 && d.len() >= 1 + fx.valid_request_body.len() && d[1..1 + fx.valid_request_body.len()] == fx.valid_request_body[..]
}

pub fn inject_server(fx: &Fixture, st: &ServerState, d: &[u8]) -> (u64, Option<Violation>) {
    let mut s = st.server.clone();
    let before = s.verif_snapshot();
    let r = match nc::srv_process(&mut s, st.from, d) {
        Err(v) => return (0, Some(Violation::new(format!("C07/{}", v.signature), format!("server, {}: {}", st.name, v.message)))),
        Ok(r) => r,
    };
    if is_valid_request(fx, d) {
        return (1, None);
    }
    if r != SR::None {
        return (
            2,
            Some(Violation::new(
                format!("C07/non-authentic-datagram-produces-{}", r.kind()),
                format!("server, {}: a non-authentic datagram ({} bytes, prefix {:#04x}) produced {}", st.name, d.len(), d.first().copied().unwrap_or(0), r.kind()),
            )),
        );
    }
    let mut after = s.verif_snapshot();
    // the receive timestamp of a half-open session has no observable effect (half-open sessions end
    // by token expiry only and the value is overwritten when the session connects): not compared
    for (a, b) in after.pending.iter_mut().zip(before.pending.iter()) {
        a.last_packet_received_time = b.last_packet_received_time;
    }
    if after != before {
        let what = if after.slots != before.slots {
            let a = after.slots.iter().flatten().zip(before.slots.iter().flatten()).find(|(a, b)| a != b);
            match a {
                Some((a, b)) if a.last_packet_received_time != b.last_packet_received_time => "timeout-refreshed",
                Some((a, b)) if a.replay_window_digest != b.replay_window_digest => "replay-window-moved",
                _ => "connected-table-changed",
            }
        } else if after.pending != before.pending {
            "pending-table-changed"
        } else {
            "counters-changed"
        };
        return (
            3,
            Some(Violation::new(
                format!("C07/non-authentic-datagram-changes-server-state/{}", what),
                format!(
                    "server, {}: a non-authentic datagram ({} bytes, prefix {:#04x}) from {} changed the observable state ({})",
                    st.name,
                    d.len(),
                    d.first().copied().unwrap_or(0),
                    st.from,
                    what
                ),
            )),
        );
    }
    // genuine traffic afterwards is still accepted
    match nc::srv_process(&mut s, st.from, &st.follow_up) {
        Err(v) => (4, Some(Violation::new(format!("C07/{}", v.signature), v.message))),
        Ok(r) => {
            if r.kind() != st.follow_kind {
                (
                    5,
                    Some(Violation::new(
                        "C07/genuine-traffic-rejected-afterwards",
                        format!("server, {}: after the hostile datagram the genuine follow-up produced {} instead of {}", st.name, r.kind(), st.follow_kind),
                    )),
                )
            } else {
                (6, None)
            }
        }
    }
}

pub fn inject_client(st: &ClientState, d: &[u8], authentic: bool) -> (u64, Option<Violation>) {
    let mut c = st.client.clone();
    let before = c.verif_snapshot();
    let r = match nc::cli_process(&mut c, d) {
        Err(v) => return (0, Some(Violation::new(format!("C07/{}", v.signature), format!("client, {}: {}", st.name, v.message)))),
        Ok(r) => r,
    };
    if authentic {
        return (1, None);
    }
    if r.is_some() {
        return (2, Some(Violation::new("C07/non-authentic-datagram-surfaces-payload", format!("client, {}: payload surfaced from a non-authentic datagram", st.name))));
    }
    let after = c.verif_snapshot();
    if after != before {
        return (
            3,
            Some(Violation::new(
                "C07/non-authentic-datagram-changes-client-state",
                format!("client, {}: a non-authentic datagram ({} bytes, prefix {:#04x}) changed {:?} into {:?}", st.name, d.len(), d.first().copied().unwrap_or(0), before.state, after.state),
            )),
        );
    }
    if let Some(f) = &st.follow_up {
        match nc::cli_process(&mut c, f) {
            Err(v) => return (4, Some(Violation::new(format!("C07/{}", v.signature), v.message))),
            Ok(p) => {
                let ok = if st.follow_payload { p.is_some() } else { c.verif_snapshot().state != before.state };
                if !ok {
                    return (
                        5,
                        Some(Violation::new(
                            "C07/genuine-traffic-rejected-afterwards",
                            format!("client, {}: the genuine follow-up datagram was not accepted after the hostile one", st.name),
                        )),
                    );
                }
            }
        }
    }
    (6, None)
}


/// scale class: the same non-authentic datagram `n` times in a row (no authentic traffic in between), then one
/// zero-length server frame (`update` + `update_client` of every connected id): nothing observable may have changed,
/// nobody may be reported disconnected, and the genuine follow-up is still accepted
pub fn flood_server(fx: &Fixture, st: &ServerState, d: &[u8], n: usize) -> (u64, Option<Violation>) {
    if is_valid_request(fx, d) {
        return (1, None);
    }
    let mut s = st.server.clone();
    let before = s.verif_snapshot();
    for k in 0..n {
        match nc::srv_process(&mut s, st.from, d) {
            Err(v) => return (0, Some(Violation::new(format!("C07/{}", v.signature), format!("server, {}, copy {} of {}: {}", st.name, k + 1, n, v.message)))),
            Ok(SR::None) => {}
            Ok(r) => {
                return (
                    2,
                    Some(Violation::new(
                        format!("C07/non-authentic-datagram-produces-{}", r.kind()),
                        format!("server, {}: copy {} of {} of a non-authentic datagram ({} bytes, prefix {:#04x}) produced {}", st.name, k + 1, n, d.len(), d.first().copied().unwrap_or(0), r.kind()),
                    )),
                )
            }
        }
    }
    let mut after = s.verif_snapshot();
    for (a, b) in after.pending.iter_mut().zip(before.pending.iter()) {
        a.last_packet_received_time = b.last_packet_received_time;
    }
    if after != before {
        return (
            3,
            Some(Violation::new(
                "C07/non-authentic-datagrams-change-server-state/flood",
                format!("server, {}: {} copies of a non-authentic datagram ({} bytes, prefix {:#04x}) from {} changed the observable state", st.name, n, d.len(), d.first().copied().unwrap_or(0), st.from),
            )),
        );
    }
    let ids = s.clients_id();
    if let Err(v) = crate::link::guard("NetcodeServer::update", || s.update(Duration::from_millis(1))) {
        return (4, Some(v));
    }
    for id in ids {
        match nc::srv_update_client(&mut s, id) {
            Err(v) => return (4, Some(v)),
            Ok(SR::Disconnected { .. }) => {
                return (
                    5,
                    Some(Violation::new(
                        "C07/non-authentic-datagrams-disconnect-a-client",
                        format!("server, {}: after {} copies of a non-authentic datagram ({} bytes, prefix {:#04x}) from {} client {} is reported disconnected", st.name, n, d.len(), d.first().copied().unwrap_or(0), st.from, id),
                    )),
                )
            }
            Ok(_) => {}
        }
    }
    match nc::srv_process(&mut s, st.from, &st.follow_up) {
        Err(v) => (4, Some(Violation::new(format!("C07/{}", v.signature), v.message))),
        Ok(r) if r.kind() != st.follow_kind => (
            6,
            Some(Violation::new(
                "C07/genuine-traffic-rejected-afterwards",
                format!("server, {}: after {} copies of a hostile datagram the genuine follow-up produced {} instead of {}", st.name, n, r.kind(), st.follow_kind),
            )),
        ),
        Ok(_) => (7, None),
    }
}

pub fn flood_client(st: &ClientState, d: &[u8], n: usize) -> (u64, Option<Violation>) {
    let mut c = st.client.clone();
    let before = c.verif_snapshot();
    for k in 0..n {
        match nc::cli_process(&mut c, d) {
            Err(v) => return (0, Some(Violation::new(format!("C07/{}", v.signature), format!("client, {}, copy {} of {}: {}", st.name, k + 1, n, v.message)))),
            Ok(Some(_)) => return (2, Some(Violation::new("C07/non-authentic-datagram-surfaces-payload", format!("client, {}: payload surfaced from copy {} of a non-authentic datagram", st.name, k + 1)))),
            Ok(None) => {}
        }
    }
    let after = c.verif_snapshot();
    if after != before {
        return (
            3,
            Some(Violation::new(
                "C07/non-authentic-datagrams-change-client-state/flood",
                format!("client, {}: {} copies of a non-authentic datagram ({} bytes, prefix {:#04x}) changed {:?} into {:?}", st.name, n, d.len(), d.first().copied().unwrap_or(0), before.state, after.state),
            )),
        );
    }
    if let Some(f) = &st.follow_up {
        match nc::cli_process(&mut c, f) {
            Err(v) => return (4, Some(Violation::new(format!("C07/{}", v.signature), v.message))),
            Ok(p) => {
                let ok = if st.follow_payload { p.is_some() } else { c.verif_snapshot().state != before.state };
                if !ok {
                    return (5, Some(Violation::new("C07/genuine-traffic-rejected-afterwards", format!("client, {}: the genuine follow-up datagram was not accepted after {} copies of a hostile one", st.name, n))));
                }
            }
        }
    }
    (6, None)
}

/// the datagrams used for the flood: every `stride`-th one of the sweep's list
pub fn flood_picks(n_datagrams: usize, tier: Tier) -> Vec<usize> {
    let want = tier.pick(48usize, 400);
    let stride = (n_datagrams / want).max(1) | 1;
    (0..n_datagrams).step_by(stride).collect()
}

pub fn flood_counts(tier: Tier) -> Vec<usize> {
    tier.pick(vec![2, 32, 33, 256, 257, 1100], vec![2, 3, 16, 31, 32, 33, 64, 65, 100, 128, 255, 256, 257, 512, 1000, 1024, 1025, 5000])
}

// ---- tokens ----

pub fn token_byte_strings(tier: Tier) -> Vec<(String, Vec<u8>)> {
    let mut v = vec![];
    let public = vec![server_addr(0), server_addr(1), server_addr(2)];
    let mut base = vec![];
    make_token(&TokenSpec::new(1, 11, public)).write(&mut base).unwrap();
    for n in (0..=base.len()).step_by(tier.pick(5, 1)) {
        v.push((format!("truncated to {}", n), base[..n].to_vec()));
    }
    let head = base[..1097].to_vec();
    let tail = vec![0x5Au8; 64];
    let entry = |ty: u8, i: u8| -> Vec<u8> {
        match ty {
            1 => vec![1, 10, 0, 0, i, 0x88, 0x13],
            2 => {
                let mut e = vec![2u8];
                e.extend([0x20, 1, 0xd, 0xb8, 0, 0, 0, 0, 0, 0, 0, 0, 0, 0, 0, i]);
                e.extend([0x88, 0x13]);
                e
            }
            t => vec![t],
        }
    };
    for count in [0u32, 1, 2, 3, 32, 33, 255, u32::MAX] {
        for first_ty in [0u8, 1, 2, 3, 255] {
            for last_ty in [0u8, 1, 2, 3, 255] {
                let mut b = head.clone();
                b.extend(count.to_le_bytes());
                let present = count.min(34) as usize;
                for i in 0..present {
                    let ty = if i == 0 { first_ty } else if i + 1 == present { last_ty } else { 1 };
                    b.extend(entry(ty, i as u8));
                }
                b.extend(&tail);
                v.push((format!("count {} first type {} last type {}", count, first_ty, last_ty), b));
            }
        }
    }
    // timestamps and timeout
    for (create, expire) in [(0u64, 0u64), (100, 50), (0, u64::MAX), (u64::MAX, 0), (5, 5)] {
        for timeout in [-1i32, 0, 1, i32::MIN, i32::MAX] {
            let mut b = base.clone();
            b[29..37].copy_from_slice(&create.to_le_bytes());
            b[37..45].copy_from_slice(&expire.to_le_bytes());
            b[1093..1097].copy_from_slice(&timeout.to_le_bytes());
            v.push((format!("create {} expire {} timeout {}", create, expire, timeout), b));
        }
    }
    v
}

pub fn token_case(b: &[u8]) -> (u64, Option<Violation>) {
    let parsed = match guard("ConnectToken::read", || ConnectToken::read(&mut &b[..])) {
        Err(v) => return (0, Some(Violation::new(format!("C07/{}", v.signature), v.message))),
        Ok(Err(_)) => return (1, None),
        Ok(Ok(t)) => t,
    };
    let r = guard("NetcodeClient::new+update", || {
        let c = NetcodeClient::new(Duration::from_secs(10), ClientAuthentication::Secure { connect_token: parsed });
        if let Ok(mut c) = c {
            let mut state = vec![];
            for dt in [0u64, 1000, 1000, 100_000] {
                let _ = c.update(Duration::from_millis(dt));
                state.push(format!("{:?}", c.disconnect_reason()));
            }
            h64(&state)
        } else {
            7
        }
    });
    match r {
        Err(v) => (2, Some(Violation::new(format!("C07/token-accepted-by-read/{}", v.signature), format!("a byte string accepted by ConnectToken::read: {}", v.message)))),
        Ok(h) => (h, None),
    }
}

pub fn run(tier: Tier) -> i32 {
    let mut rep = Report::new("C07", tier);
    // the thorough bounds of this property take seconds: the quick tier runs them too
    crate::report::note_tier(tier);
    let tier = { let _ = tier; Tier::Thorough };
    rep.rule("sweep: hostile datagrams x protocol states. Datagrams: all 256 prefix bytes x 20 lengths (0..1400, around every parser threshold) x 3 fills; every genuine datagram kind of a recorded session (request, challenge, response, keep-alive, payload, disconnect both ways, denied) with its prefix replaced by each other value, its sequence replaced by {0,1,255,256,511,512,2^64-257..2^64-1} in minimal and 8-byte form, truncated to every length, extended; packets of another session and another protocol id. States: server with source address unknown / pending / connected (second client connected throughout, one second after the last genuine traffic); client requesting / responding / connected / disconnected. Oracle: no unwind, ServerResult::None / no payload, hook snapshot identical (tables, timers, replay window, counters), genuine follow-up still accepted. Tokens: every truncation, address count x first/last type byte products, timestamp/timeout extremes through ConnectToken::read, then NetcodeClient::new + updates");
    rep.assume("a datagram of request type whose body equals a genuine valid request is authentic regardless of its prefix high nibble and is exempt from the no-change clause");
    let fx = match fixture() {
        Ok(f) => f,
        Err(v) => {
            rep.violation("fixture", v, J::obj().set("kind", J::s("fixture")));
            return rep.finish();
        }
    };
    let ds = datagrams(&fx, tier);
    // server
    let ns = fx.server_states.len();
    let r = explore::sweep(ds.len() * ns, |i| {
        let (si, di) = (i % ns, i / ns);
        let (o, v) = inject_server(&fx, &fx.server_states[si], &ds[di].1);
        (h64(&(si, o, ds[di].1.first(), ds[di].1.len())), v)
    });
    rep.add_sweep("server-datagrams", r.cases, r.distinct_outcomes, ns as u64, vec![ds[1].0.clone(), ds[ds.len() / 2].0.clone(), ds[ds.len() - 1].0.clone()]);
    for (i, v) in r.found {
        let (si, di) = (i % ns, i / ns);
        rep.violation(
            "server-datagrams",
            v,
            J::obj().set("kind", J::s("server")).set("state", J::i(si as u64)).set("state_name", J::s(fx.server_states[si].name)).set("datagram_index", J::i(di as u64)).set("datagram", J::s(ds[di].0.clone())),
        );
    }
    // stale / replayed genuine datagrams that the receiving state machine must ignore
    {
        let g = |kind: &str| fx.genuine.iter().find(|(k, _, _)| *k == kind).map(|(_, _, b)| b.clone());
        let mut cases: Vec<(String, usize, Vec<u8>)> = vec![];
        for kind in ["challenge", "denied s2c", "keep-alive s2c", "payload s2c"] {
            if let Some(b) = g(kind) {
                if kind == "challenge" || kind == "denied s2c" {
                    cases.push((format!("stale genuine {} to a connected client", kind), 2, b.clone()));
                } else {
                    cases.push((format!("replay of the already processed {} to a connected client", kind), 2, b.clone()));
                }
                cases.push((format!("genuine {} to a disconnected client", kind), 3, b));
            }
        }
        if let Some(b) = g("disconnect s2c") {
            cases.push(("genuine disconnect to a client that is still requesting".into(), 0, b.clone()));
            cases.push(("genuine disconnect to a client that is still responding".into(), 1, b));
        }
        let mut n = 0u64;
        for (desc, si, b) in &cases {
            n += 1;
            // these datagrams are genuinely sealed, so the anti-replay window may record them; what must not
            // change is what the application can observe: state, reason, receive timer, no payload
            let v = {
                let mut c = fx.client_states[*si].client.clone();
                let before = c.verif_snapshot();
                match nc::cli_process(&mut c, b) {
                    Err(v) => Some(v),
                    Ok(p) => {
                        let after = c.verif_snapshot();
                        if p.is_some() && *si != 2 {
                            Some(Violation::new("C07/stale-datagram-surfaces-payload", format!("client state {:?}", before.state)))
                        } else if after.state != before.state || after.last_packet_received_time != before.last_packet_received_time {
                            Some(Violation::new(
                                "C07/stale-datagram-changes-client-state",
                                format!("client went from {:?} to {:?} (receive timer {:?} -> {:?})", before.state, after.state, before.last_packet_received_time, after.last_packet_received_time),
                            ))
                        } else {
                            None
                        }
                    }
                }
            };
            if let Some(v) = v {
                rep.violation(
                    "client-stale-genuine",
                    crate::explore::Violation::new(format!("{}/stale-genuine", v.signature), format!("{}: {}", desc, v.message)),
                    J::obj().set("kind", J::s("stale")).set("case", J::s(desc.clone())),
                );
            }
        }
        let mut scases: Vec<(String, usize, Vec<u8>)> = vec![];
        for kind in ["request", "response", "keep-alive c2s", "payload c2s"] {
            if let Some(b) = g(kind) {
                scases.push((format!("replay of the client's {} from its connected address", kind), 2, b));
            }
        }
        for (desc, si, b) in &scases {
            n += 1;
            let (_, v) = inject_server(&fx, &fx.server_states[*si], b);
            // a replayed valid request from a connected address is exempt by the validity rule but must still get no answer
            if let Some(v) = v {
                rep.violation(
                    "server-stale-genuine",
                    crate::explore::Violation::new(format!("{}/stale-genuine", v.signature), format!("{}: {}", desc, v.message)),
                    J::obj().set("kind", J::s("stale")).set("case", J::s(desc.clone())),
                );
            }
        }
        rep.add_sweep("stale-and-replayed-genuine-datagrams", n, n, 4, cases.iter().map(|c| c.0.clone()).take(3).collect());
    }
    // client
    let ncs = fx.client_states.len();
    let r = explore::sweep(ds.len() * ncs, |i| {
        let (si, di) = (i % ncs, i / ncs);
        let (o, v) = inject_client(&fx.client_states[si], &ds[di].1, false);
        (h64(&(si, o, ds[di].1.first(), ds[di].1.len())), v)
    });
    rep.add_sweep("client-datagrams", r.cases, r.distinct_outcomes, ncs as u64, vec![ds[3].0.clone()]);
    for (i, v) in r.found {
        let (si, di) = (i % ncs, i / ncs);
        rep.violation(
            "client-datagrams",
            v,
            J::obj().set("kind", J::s("client")).set("state", J::i(si as u64)).set("state_name", J::s(fx.client_states[si].name)).set("datagram_index", J::i(di as u64)).set("datagram", J::s(ds[di].0.clone())),
        );
    }
    // floods
    {
        let picks = flood_picks(ds.len(), tier);
        let counts = flood_counts(tier);
        let (np, ncn) = (picks.len(), counts.len());
        let r = explore::sweep(np * ncn * ns, |i| {
            let (si, pi, ci) = (i % ns, (i / ns) % np, i / ns / np);
            let (o, v) = flood_server(&fx, &fx.server_states[si], &ds[picks[pi]].1, counts[ci]);
            (h64(&(si, o, ci)), v)
        });
        rep.add_sweep("server-floods", r.cases, r.distinct_outcomes, ns as u64, vec![format!("{} datagrams of the sweep x {:?} copies in a row x {} server states", np, counts, ns)]);
        for (i, v) in r.found {
            let (si, pi, ci) = (i % ns, (i / ns) % np, i / ns / np);
            rep.violation("server-floods", v, J::obj().set("kind", J::s("server-flood")).set("state", J::i(si as u64)).set("datagram_index", J::i(picks[pi] as u64)).set("copies", J::i(counts[ci] as u64)).set("datagram", J::s(ds[picks[pi]].0.clone())));
        }
        let r = explore::sweep(np * ncn * ncs, |i| {
            let (si, pi, ci) = (i % ncs, (i / ncs) % np, i / ncs / np);
            let (o, v) = flood_client(&fx.client_states[si], &ds[picks[pi]].1, counts[ci]);
            (h64(&(si, o, ci)), v)
        });
        rep.add_sweep("client-floods", r.cases, r.distinct_outcomes, ncs as u64, vec![format!("{} datagrams x {:?} copies x {} client states", np, counts, ncs)]);
        for (i, v) in r.found {
            let (si, pi, ci) = (i % ncs, (i / ncs) % np, i / ncs / np);
            rep.violation("client-floods", v, J::obj().set("kind", J::s("client-flood")).set("state", J::i(si as u64)).set("datagram_index", J::i(picks[pi] as u64)).set("copies", J::i(counts[ci] as u64)).set("datagram", J::s(ds[picks[pi]].0.clone())));
        }
    }
    // tokens
    let ts = token_byte_strings(tier);
    let r = explore::sweep(ts.len(), |i| token_case(&ts[i].1));
    rep.add_sweep("token-byte-strings", r.cases, r.distinct_outcomes, 1, vec![ts[0].0.clone(), ts[ts.len() - 1].0.clone()]);
    for (i, v) in r.found {
        rep.violation("token-byte-strings", v, J::obj().set("kind", J::s("token")).set("token_index", J::i(i as u64)).set("token", J::s(ts[i].0.clone())));
    }
    rep.finish()
}

pub fn replay(j: &J) -> i32 {
    let tier = match j.get("tier").and_then(|t| t.as_str()) {
        Some("thorough") => Tier::Thorough,
        _ => Tier::Quick,
    };
    crate::report::note_tier(tier);
    let tier = { let _ = tier; Tier::Thorough };
    let v = match j.get("kind").and_then(|k| k.as_str()) {
        Some("token") => {
            let ts = token_byte_strings(tier);
            let i = j.get("token_index").and_then(|x| x.as_i()).unwrap_or(0) as usize;
            let Some(t) = ts.get(i) else { return 2 };
            println!("token bytes: {}", t.0);
            token_case(&t.1).1
        }
        Some(k @ ("server" | "client")) => {
            let fx = match fixture() {
                Ok(f) => f,
                Err(v) => {
                    println!("RESULT: violation {} — {}", v.signature, v.message);
                    return 1;
                }
            };
            let ds = datagrams(&fx, tier);
            let di = j.get("datagram_index").and_then(|x| x.as_i()).unwrap_or(0) as usize;
            let si = j.get("state").and_then(|x| x.as_i()).unwrap_or(0) as usize;
            let Some(d) = ds.get(di) else { return 2 };
            println!("{} state {}; datagram: {} [{}]", k, si, d.0, nc::hexs(&d.1));
            if k == "server" {
                inject_server(&fx, &fx.server_states[si.min(2)], &d.1).1
            } else {
                inject_client(&fx.client_states[si.min(3)], &d.1, false).1
            }
        }
        Some(k @ ("server-flood" | "client-flood")) => {
            let fx = match fixture() {
                Ok(f) => f,
                Err(v) => {
                    println!("RESULT: violation {} — {}", v.signature, v.message);
                    return 1;
                }
            };
            let ds = datagrams(&fx, tier);
            let di = j.get("datagram_index").and_then(|x| x.as_i()).unwrap_or(0) as usize;
            let si = j.get("state").and_then(|x| x.as_i()).unwrap_or(0) as usize;
            let n = j.get("copies").and_then(|x| x.as_i()).unwrap_or(2) as usize;
            let Some(d) = ds.get(di) else { return 2 };
            println!("{} state {}; {} copies of datagram: {} [{}]", k, si, n, d.0, nc::hexs(&d.1));
            if k == "server-flood" {
                flood_server(&fx, &fx.server_states[si.min(2)], &d.1, n).1
            } else {
                flood_client(&fx.client_states[si.min(3)], &d.1, n).1
            }
        }
        _ => return 2,
    };
    match v {
        Some(v) => {
            println!("RESULT: violation {} — {}", v.signature, v.message);
            1
        }
        None => {
            println!("RESULT: no violation");
            0
        }
    }
}
