//! C03 — Message integrity / fragmentation: nothing corrupted, fabricated or cross-delivered.

use crate::explore::{self, h64, permutations, Violation};
use crate::json::J;
use crate::link::{describe, Chan, Kind, Link, LinkCfg, Send};
use crate::report::{Report, Tier};
use bytes::Bytes;
use renet::verif::Packet;
use std::collections::HashMap;

const R: u64 = 300;

fn chans() -> Vec<Chan> {
    vec![
        Chan::new(0, Kind::Unreliable, 200_000, 0),
        Chan::new(1, Kind::Ordered, 200_000, R),
        Chan::new(2, Kind::Unordered, 200_000, R),
    ]
}

#[derive(Clone, Debug)]
pub struct Case {
    pub name: String,
    pub dir: usize,
    /// (channel, length) submitted in one tick
    pub msgs: Vec<(u8, usize)>,
    /// delivery sequence: indices into the emitted batch (repeats = duplicates, omissions = losses)
    pub order: Vec<usize>,
    /// drain after every arrival instead of once at the end
    pub drain_each: bool,
    /// tick budget of the sender (a message larger than it leaves over several ticks)
    pub bytes_per_tick: u64,
}

fn cfg_for(c: &Case) -> LinkCfg {
    let mut cfg = LinkCfg::base(&c.name, chans(), chans());
    cfg.bytes_per_tick = if c.bytes_per_tick == 0 { 1_000_000 } else { c.bytes_per_tick };
    cfg.script = c.msgs.iter().map(|&(ch, len)| Send::at(0, c.dir, ch, len)).collect();
    cfg
}

/// How many packets the batch of this message set has (runs the real sender once).
fn batch_len(dir: usize, msgs: &[(u8, usize)]) -> usize {
    let c = Case {
        name: String::new(),
        dir,
        msgs: msgs.to_vec(),
        order: vec![],
        drain_each: false,
        bytes_per_tick: 0,
    };
    let cfg = cfg_for(&c);
    let mut l = Link::new(&cfg);
    for s in &cfg.script {
        let _ = l.send(s.dir, s.ch, s.len);
    }
    let _ = l.update(dir, 100);
    let first = l.flush(dir).unwrap_or(0);
    l.emitted.len() - first
}

/// multiset bound for unreliable channels: how often may payload `b` be obtained at most
fn unreliable_bound(l: &Link, dir: usize, ch: u8, sub: &[Bytes], target: &Bytes) -> u64 {
    // small messages: sum over packets of delivered * occurrences
    let mut total = 0u64;
    if target.len() <= 1200 {
        for e in l.emitted.iter().filter(|e| e.dir == dir) {
            let mut o = octets::Octets::with_slice(&e.bytes);
            if let Ok(Packet::SmallUnreliable { channel_id, messages, .. }) = Packet::from_bytes(&mut o) {
                if channel_id == ch {
                    total += e.delivered as u64 * messages.iter().filter(|m| *m == target).count() as u64;
                }
            }
        }
        return total;
    }
    // sliced: the i-th sliced submission got sliced id i; bound = min over slice index of deliveries
    let mut sliced_ids = vec![];
    let mut n = 0u64;
    for s in sub {
        if s.len() > 1200 {
            if s == target {
                sliced_ids.push(n);
            }
            n += 1;
        }
    }
    for id in sliced_ids {
        let slices = target.len().div_ceil(1200);
        let mut m = u64::MAX;
        for idx in 0..slices {
            let mut d = 0u64;
            for e in l.emitted.iter().filter(|e| e.dir == dir) {
                if let crate::link::PktInfo::UnreliableSlice { ch: c, id: i, idx: x, .. } = &e.info {
                    if *c == ch && *i == id && *x == idx {
                        d += e.delivered as u64;
                    }
                }
            }
            m = m.min(d);
        }
        total += m;
    }
    total
}

fn check(l: &Link, after_tail: bool) -> Result<(), Violation> {
    for dir in 0..2 {
        for (ci, ch) in l.cfg.chans[dir].iter().enumerate() {
            let sub = &l.submitted[dir][ci];
            let got = &l.obtained[dir][ci];
            let mut counts: HashMap<&Bytes, u64> = HashMap::new();
            for g in got {
                if !sub.iter().any(|s| *s == g.bytes) {
                    // is it a message of another channel / direction?
                    let mut origin = String::from("matches no submitted message anywhere (corrupted, partial or stitched)");
                    for d2 in 0..2 {
                        for (c2, ch2) in l.cfg.chans[d2].iter().enumerate() {
                            if l.submitted[d2][c2].iter().any(|s| *s == g.bytes) {
                                origin = format!("was submitted on channel {} of direction {} (cross-delivery)", ch2.id, d2);
                            }
                        }
                    }
                    return Err(Violation::new(
                        format!("C03/not-identical-to-a-submitted-message/{:?}", ch.kind),
                        format!("channel {} ({:?}) dir {}: obtained {} which {}", ch.id, ch.kind, dir, describe(&g.bytes), origin),
                    ));
                }
                *counts.entry(&g.bytes).or_insert(0) += 1;
            }
            for (b, n) in counts {
                let submitted_copies = sub.iter().filter(|s| *s == b).count() as u64;
                match ch.kind {
                    Kind::Unreliable => {
                        let bound = unreliable_bound(l, dir, ch.id, sub, b);
                        if n > bound {
                            return Err(Violation::new(
                                "C03/unreliable-obtained-more-often-than-delivered",
                                format!(
                                    "unreliable channel {} dir {}: {} obtained {} times but the packets carrying it were delivered only often enough for {}",
                                    ch.id,
                                    dir,
                                    describe(b),
                                    n,
                                    bound
                                ),
                            ));
                        }
                    }
                    _ => {
                        if n > submitted_copies {
                            return Err(Violation::new(
                                format!("C03/reliable-obtained-twice/{:?}", ch.kind),
                                format!("channel {} dir {}: {} obtained {} times, submitted {} times", ch.id, dir, describe(b), n, submitted_copies),
                            ));
                        }
                    }
                }
            }
            if after_tail && ch.kind != Kind::Unreliable && got.len() != sub.len() {
                return Err(Violation::new(
                    format!("C03/reliable-not-exactly-once-after-tail/{:?}", ch.kind),
                    format!("channel {} dir {}: {} of {} messages obtained after the fault-free tail", ch.id, dir, got.len(), sub.len()),
                ));
            }
            if ch.kind == Kind::Ordered {
                for (i, g) in got.iter().enumerate() {
                    if i < sub.len() && g.bytes != sub[i] {
                        return Err(Violation::new(
                            "C03/ordered-out-of-order",
                            format!("ordered channel {} dir {}: position {} holds {}", ch.id, dir, i, describe(&g.bytes)),
                        ));
                    }
                }
            }
        }
    }
    for e in 0..2 {
        if let Some(r) = l.ends.disconnect_reason(e) {
            return Err(Violation::new(
                format!("C03/disconnected/{}", super::c01::reason_class(&r)),
                format!("endpoint {} disconnected with {:?} in an honest exchange", e, r),
            ));
        }
    }
    Ok(())
}

pub fn run_case(c: &Case, log: Option<&mut Vec<String>>) -> (u64, Option<Violation>) {
    let cfg = cfg_for(c);
    let mut l = Link::new(&cfg);
    let mut lines: Vec<String> = vec![];
    let r = (|| -> Result<(), Violation> {
        for s in &cfg.script {
            l.send(s.dir, s.ch, s.len)?;
        }
        l.update(c.dir, 100)?;
        let first = l.flush(c.dir)?;
        for i in first..l.emitted.len() {
            lines.push(format!("emitted pkt{} {:?} ({} B)", i - first, l.emitted[i].info, l.emitted[i].bytes.len()));
        }
        let n = l.emitted.len() - first;
        for &i in &c.order {
            if i >= n {
                continue;
            }
            l.deliver(c.dir, first + i)?;
            lines.push(format!("deliver pkt{}", i));
            if c.drain_each {
                l.drain(c.dir)?;
                check(&l, false)?;
            }
        }
        l.drain(c.dir)?;
        check(&l, false)?;
        // acks flow back, then the fault-free tail for the reliable channels
        let f2 = {
            l.update(1 - c.dir, 100)?;
            l.flush(1 - c.dir)?
        };
        for p in f2..l.emitted.len() {
            l.deliver(1 - c.dir, p)?;
        }
        let tail = if c.bytes_per_tick == 0 { 6 } else { 6 + (c.msgs.iter().map(|m| m.1).sum::<usize>() as u64 / c.bytes_per_tick) as usize * 2 };
        for _ in 0..tail {
            l.lockstep_tick(100)?;
            check(&l, false)?;
        }
        check(&l, true)
    })();
    let mut obs: Vec<(usize, usize, usize)> = vec![];
    for d in 0..2 {
        for (ci, v) in l.obtained[d].iter().enumerate() {
            obs.push((d, ci, v.len()));
        }
    }
    if let Some(log) = log {
        log.extend(lines);
        for d in 0..2 {
            for (ci, v) in l.obtained[d].iter().enumerate() {
                for g in v {
                    log.push(format!("obtained dir{} ch-index {}: {}", d, ci, describe(&g.bytes)));
                }
            }
        }
    }
    (h64(&(obs, &c.order, &c.msgs)), r.err())
}

/// delivery sequences for a batch of n packets: permutations (or fifo/reverse/rotations), each
/// plain, with every single duplicate (right after the original and at the end) and every single loss
fn orders(n: usize, full_perm_limit: usize) -> Vec<Vec<usize>> {
    let mut base: Vec<Vec<usize>> = if n <= full_perm_limit {
        permutations(n)
    } else {
        let id: Vec<usize> = (0..n).collect();
        let mut v = vec![id.clone(), id.iter().rev().cloned().collect()];
        for r in [1, n / 2, n - 1] {
            let mut x = id.clone();
            x.rotate_left(r % n);
            v.push(x);
        }
        // interleave even/odd
        let mut x: Vec<usize> = (0..n).step_by(2).collect();
        x.extend((1..n).step_by(2));
        v.push(x);
        v
    };
    base.dedup();
    let mut out = vec![];
    for b in &base {
        out.push(b.clone());
        let variants = if n <= full_perm_limit { n } else { n.min(3) };
        for k in 0..variants {
            let i = if n <= full_perm_limit { k } else { [0, n / 2, n - 1][k] };
            // duplicate of packet i right after it
            let pos = b.iter().position(|x| *x == i).unwrap();
            let mut d = b.clone();
            d.insert(pos + 1, i);
            out.push(d);
            // duplicate at the very end
            let mut d = b.clone();
            d.push(i);
            out.push(d);
            // loss of packet i
            let mut d = b.clone();
            d.retain(|x| *x != i);
            out.push(d);
        }
    }
    out
}

pub fn cases(tier: Tier) -> Vec<Case> {
    let mut out = vec![];
    let lens: Vec<usize> = tier.pick(
        vec![0, 1, 2, 1199, 1200, 1201, 2399, 2400, 2401, 3601, 16384],
        vec![0, 1, 2, 63, 64, 1199, 1200, 1201, 2399, 2400, 2401, 3599, 3600, 3601, 16383, 16384, 25201],
    );
    let perm_limit = if crate::report::deep() { 6 } else { tier.pick(4, 5) };
    // (a) one message alone, every kind, both directions
    for dir in 0..2 {
        for ch in 0..3u8 {
            for &len in &lens {
                let msgs = vec![(ch, len)];
                let n = batch_len(dir, &msgs);
                for o in orders(n, perm_limit) {
                    for de in [false, true] {
                        if de && n > 6 {
                            continue;
                        }
                        out.push(Case {
                            name: format!("single len {} ch{} dir{}", len, ch, dir),
                            dir,
                            msgs: msgs.clone(),
                            order: o.clone(),
                            drain_each: de,
                            bytes_per_tick: 0,
                        });
                    }
                }
            }
        }
    }
    // (a') every ordered pair from the packing alphabet, same channel, one tick
    let pair_lens = [0usize, 1, 1199, 1200, 1201, 2401];
    for dir in 0..2 {
        for ch in 0..3u8 {
            for &a in &pair_lens {
                for &b in &pair_lens {
                    if tier == Tier::Quick && dir == 1 && ch != 0 {
                        continue;
                    }
                    let msgs = vec![(ch, a), (ch, b)];
                    let n = batch_len(dir, &msgs);
                    for o in orders(n, perm_limit) {
                        out.push(Case {
                            name: format!("pair {}+{} ch{} dir{}", a, b, ch, dir),
                            dir,
                            msgs: msgs.clone(),
                            order: o,
                            drain_each: false,
                            bytes_per_tick: 0,
                        });
                    }
                }
            }
        }
    }
    // (a+) thorough: every ordered triple from a smaller packing alphabet, same channel, one tick
    if tier == Tier::Thorough {
        let t_lens = [0usize, 1, 1199, 1200, 1201];
        for dir in 0..2 {
            for ch in 0..3u8 {
                for &a in &t_lens {
                    for &b in &t_lens {
                        for &c in &t_lens {
                            let msgs = vec![(ch, a), (ch, b), (ch, c)];
                            let n = batch_len(dir, &msgs);
                            for o in orders(n, 5) {
                                out.push(Case { name: format!("triple {}+{}+{} ch{} dir{}", a, b, c, ch, dir), dir, msgs: msgs.clone(), order: o, drain_each: false, bytes_per_tick: 0 });
                            }
                        }
                    }
                }
            }
        }
    }
    // (a'') messages larger than the sender's tick budget leave over several ticks (send rounds that stop
    // in the middle of a message), with the first tick's batch permuted / duplicated / thinned as above
    for dir in 0..2 {
        for ch in 1..3u8 {
            for (len, budget) in [(6000usize, 2400u64), (3601, 1200), (25_201, 6000), (7300, 3600)] {
                let msgs = vec![(ch, len), (ch, 1)];
                // the first batch has budget / 1200 slices
                let n = (budget / 1200) as usize;
                for o in orders(n, perm_limit) {
                    out.push(Case {
                        name: format!("budget-limited {} B at {} B per tick ch{} dir{}", len, budget, ch, dir),
                        dir,
                        msgs: msgs.clone(),
                        order: o,
                        drain_each: false,
                        bytes_per_tick: budget,
                    });
                }
            }
        }
    }
    // (b) interleaved slices of two sliced messages: 2+2 slices (all 24 orders) and 3+3 (all 720)
    for dir in 0..2 {
        for ch in 0..3u8 {
            for (a, b) in [(1201usize, 2400usize), (2401, 3600)] {
                if tier == Tier::Quick && (a, b) == (2401, 3600) && (dir == 1 || ch == 1) {
                    continue;
                }
                let msgs = vec![(ch, a), (ch, b)];
                let n = batch_len(dir, &msgs);
                let os = if n <= 4 { orders(n, 4) } else { orders_full_with_one_dup(n) };
                for o in os {
                    out.push(Case {
                        name: format!("interleaved slices {}+{} ch{} dir{}", a, b, ch, dir),
                        dir,
                        msgs: msgs.clone(),
                        order: o,
                        drain_each: false,
                        bytes_per_tick: 0,
                    });
                }
            }
        }
    }
    // (c) cross-channel: one message per channel in the same tick, every delivery permutation
    for dir in 0..2 {
        for sizes in [[1usize, 1, 1], [1201, 1, 1], [1201, 1201, 1], [1, 1201, 1201]] {
            if tier == Tier::Quick && sizes == [1, 1201, 1201] {
                continue;
            }
            let msgs = vec![(0u8, sizes[0]), (1u8, sizes[1]), (2u8, sizes[2])];
            let n = batch_len(dir, &msgs);
            for o in orders(n, 5) {
                out.push(Case {
                    name: format!("cross-channel {:?} dir{}", sizes, dir),
                    dir,
                    msgs: msgs.clone(),
                    order: o,
                    drain_each: false,
                    bytes_per_tick: 0,
                });
            }
        }
    }
    out
}

/// all permutations of n (<= 6) packets, each plain and with one duplicate of packet 0 / n-1 at the end
fn orders_full_with_one_dup(n: usize) -> Vec<Vec<usize>> {
    let mut out = vec![];
    for p in permutations(n.min(6)) {
        out.push(p.clone());
        let mut d = p.clone();
        d.push(p[0]);
        out.push(d);
        let mut d = p.clone();
        d.insert(1, p[0]);
        out.push(d);
    }
    out
}

/// Budget-limited sending on the unreliable channel over several ticks on a lossless, non-duplicating network: one
/// message per tick (lengths `lens`, the same length may repeat), `budget` bytes per tick, optionally a small ordered
/// message in the same tick (channel 1 comes after channel 0, so it only takes what is left). Whatever the sender
/// decides to drop, the receiver must only ever obtain whole submitted messages, each at most once.
pub fn unreliable_budget_case(lens: &[usize], budget: u64, dir: usize, with_ordered: bool) -> (u64, Option<Violation>) {
    let mut cfg = LinkCfg::base("unreliable-under-a-tick-budget", chans(), chans());
    cfg.bytes_per_tick = budget;
    let mut l = Link::new(&cfg);
    let r = (|| -> Result<(), Violation> {
        for &len in lens {
            l.send(dir, 0, len)?;
            if with_ordered {
                l.send(dir, 1, 7)?;
            }
            l.lockstep_tick(100)?;
            check_lossless(&l)?;
        }
        for _ in 0..3 {
            l.lockstep_tick(100)?;
        }
        check_lossless(&l)
    })();
    let obs: Vec<usize> = l.obtained[dir][0].iter().map(|g| g.bytes.len()).collect();
    (h64(&(obs, lens, budget)), r.err())
}

fn check_lossless(l: &Link) -> Result<(), Violation> {
    for dir in 0..2 {
        for (ci, ch) in l.cfg.chans[dir].iter().enumerate() {
            let sub = &l.submitted[dir][ci];
            let mut used = vec![false; sub.len()];
            for g in &l.obtained[dir][ci] {
                // each obtained message consumes one distinct submission with the same bytes
                match (0..sub.len()).find(|&i| !used[i] && sub[i] == g.bytes) {
                    Some(i) => used[i] = true,
                    None => {
                        let again = sub.iter().any(|s| *s == g.bytes);
                        return Err(Violation::new(
                            if again { format!("C03/obtained-more-often-than-submitted/{:?}", ch.kind) } else { format!("C03/not-identical-to-a-submitted-message/{:?}", ch.kind) },
                            format!(
                                "channel {} ({:?}) dir {} on a lossless network with {} bytes per tick: obtained {} which {}",
                                ch.id,
                                ch.kind,
                                dir,
                                l.cfg.bytes_per_tick,
                                describe(&g.bytes),
                                if again { "was already obtained as often as it was submitted" } else { "matches no submitted message (partial or stitched)" }
                            ),
                        ));
                    }
                }
            }
        }
    }
    for e in 0..2 {
        if let Some(r) = l.ends.disconnect_reason(e) {
            return Err(Violation::new(
                format!("C03/disconnected/{}", super::c01::reason_class(&r)),
                format!("endpoint {} disconnected with {:?} in an honest exchange ({} bytes per tick)", e, r, l.cfg.bytes_per_tick),
            ));
        }
    }
    Ok(())
}

pub fn unreliable_budget_cases() -> Vec<(Vec<usize>, u64, usize, bool)> {
    let alphabet = [1usize, 1200, 1201, 2400, 2401, 3000, 3600, 3601, 5000];
    let budgets = [1200u64, 1300, 2400, 2500, 3000, 3599, 3600, 4800, 6000];
    let mut out = vec![];
    for &a in &alphabet {
        for &b in &alphabet {
            for &c in &alphabet {
                for &bud in &budgets {
                    for dir in 0..2 {
                        out.push((vec![a, b, c], bud, dir, (a + b + c) % 2 == 1));
                    }
                }
            }
        }
    }
    out
}

pub fn run(tier: Tier) -> i32 {
    let mut rep = Report::new("C03", tier);
    // the thorough bounds of this property take seconds: the quick tier runs them too
    crate::report::note_tier(tier);
    let tier = { let _ = tier; Tier::Thorough };
    rep.rule("sweep: every (message set, delivery sequence) case: single messages of every boundary length on every channel kind and direction; every ordered pair from {0,1,1199,1200,1201,2401}; two sliced messages with all 24 / 720 slice interleavings; one message per channel with every delivery permutation. Delivery sequences: all permutations of the real packet batch when small (else fifo/reverse/rotations/even-odd), each plain, with every single duplicate (adjacent and late) and every single loss; reliable channels then get a fault-free tail. Oracle: every obtained message byte-identical to one submitted on the same channel and direction; unreliable copies <= deliveries of the carrying packets (min over slices); reliable exactly once after the tail");
    rep.assume("message contents are the harness pattern f(direction, channel, index, byte offset, slice number), which makes misplaced slices and cross-delivery visible in the bytes");
    let cs = cases(tier);
    let r = explore::sweep(cs.len(), |i| run_case(&cs[i], None));
    let samples: Vec<String> = [0usize, cs.len() / 3, cs.len() - 1]
        .iter()
        .map(|&i| format!("{} order {:?} drain_each {}", cs[i].name, cs[i].order, cs[i].drain_each))
        .collect();
    let distinct_sets = {
        let mut s: Vec<String> = cs.iter().map(|c| c.name.clone()).collect();
        s.sort();
        s.dedup();
        s.len() as u64
    };
    rep.add_sweep("delivery-sequences", r.cases, r.distinct_outcomes, distinct_sets, samples);
    for (i, v) in r.found {
        let c = &cs[i];
        rep.violation(
            "delivery-sequences",
            v,
            J::obj()
                .set("kind", J::s("case"))
                .set("case_index", J::i(i as u64))
                .set("name", J::s(c.name.clone()))
                .set("order", J::Arr(c.order.iter().map(|x| J::i(*x as u64)).collect())),
        );
    }
    // unreliable messages under a tick budget, over several ticks (what the sender drops must be dropped whole)
    {
        let ub = unreliable_budget_cases();
        let r = explore::sweep(ub.len(), |i| unreliable_budget_case(&ub[i].0, ub[i].1, ub[i].2, ub[i].3));
        rep.add_sweep(
            "unreliable-under-a-tick-budget",
            r.cases,
            r.distinct_outcomes,
            9,
            vec!["every triple over {1,1200,1201,2400,2401,3000,3600,3601,5000} bytes, one message per tick on the unreliable channel, x tick budgets {1200,1300,2400,2500,3000,3599,3600,4800,6000} x direction, lossless network: only whole submitted messages, each at most once".to_string()],
        );
        for (i, v) in r.found {
            rep.violation(
                "unreliable-under-a-tick-budget",
                v,
                J::obj()
                    .set("kind", J::s("unreliable-budget"))
                    .set("lens", J::Arr(ub[i].0.iter().map(|x| J::i(*x as u64)).collect()))
                    .set("budget", J::i(ub[i].1))
                    .set("dir", J::i(ub[i].2 as u64))
                    .set("with_ordered", J::Bool(ub[i].3)),
            );
        }
    }
    // scale class: every channel id a connection can have (0..=255), mixed kinds, both directions
    {
        let variants: Vec<(usize, bool)> = vec![(256, false), (256, true), (129, false), (200, true)];
        let res = explore::par_cases(variants.len(), |i| many_channels_case(variants[i].0, variants[i].1));
        for (i, r) in res.into_iter().enumerate() {
            if let Some(v) = r {
                rep.violation("many-channels", v, J::obj().set("kind", J::s("many-channels")).set("channels", J::i(variants[i].0 as u64)).set("descending", J::Bool(variants[i].1)));
            }
        }
        rep.add_sweep("many-channels", variants.len() as u64, variants.len() as u64, variants.len() as u64, vec!["connections with 129 / 200 / 256 channels (ids up to 255, kinds interleaved, configured in ascending or descending id order): a small, a medium and a sliced message on every channel in both directions".into()]);
    }
    // scale class: single messages up to the default channel budget (5 MiB = 4370 slices) on every channel kind
    {
        let lens: Vec<usize> = tier.pick(vec![1_200_000, 1_200_001, 1_500_000, 5_242_880], vec![76_801, 1_199_999, 1_200_000, 1_200_001, 1_500_000, 3_000_000, 5_242_879, 5_242_880]);
        let cases: Vec<(u8, usize)> = (0..3u8).flat_map(|k| lens.iter().map(move |&l| (k, l))).collect();
        let res = explore::par_cases(cases.len(), |i| big_message_case(cases[i].0, cases[i].1));
        for (i, r) in res.into_iter().enumerate() {
            if let Some(v) = r {
                rep.violation("big-messages", v, J::obj().set("kind", J::s("big-message")).set("channel_kind", J::i(cases[i].0 as u64)).set("len", J::i(cases[i].1 as u64)));
            }
        }
        rep.add_sweep("big-messages", cases.len() as u64, cases.len() as u64, 3, vec![format!("one message of {:?} bytes on an unreliable / ordered / unordered channel with the default 5 MiB budget, both directions", lens)]);
    }
    rep.finish()
}

/// One message of `len` bytes (up to the default channel budget) on a channel of the given kind, both directions.
pub fn big_message_case(kind: u8, len: usize) -> Option<Violation> {
    use renet::{ChannelConfig, ConnectionConfig, RenetClient, RenetServer, SendType};
    use std::time::Duration;
    let chans = || {
        vec![ChannelConfig {
            channel_id: 0,
            max_memory_usage_bytes: 5 * 1024 * 1024,
            send_type: match kind {
                0 => SendType::Unreliable,
                1 => SendType::ReliableOrdered { resend_time: Duration::from_millis(300) },
                _ => SendType::ReliableUnordered { resend_time: Duration::from_millis(300) },
            },
        }]
    };
    let cfg = || ConnectionConfig { available_bytes_per_tick: 16_000_000, server_channels_config: chans(), client_channels_config: chans() };
    let body = |dir: u8| -> Vec<u8> { (0..len).map(|i| ((i / 1200) as u8).wrapping_mul(31).wrapping_add((i % 1200) as u8).wrapping_add(dir)).collect() };
    let r = crate::link::guard("big message", || {
        let mut srv = RenetServer::new(cfg());
        let mut cl = RenetClient::new(cfg());
        srv.add_connection(1);
        cl.set_connected();
        srv.send_message(1, 0u8, body(0));
        cl.send_message(0u8, body(1));
        let mut got: [Vec<Vec<u8>>; 2] = [vec![], vec![]];
        let dt = Duration::from_millis(100);
        for _ in 0..4 {
            srv.update(dt);
            cl.update(dt);
            if let Ok(pk) = srv.get_packets_to_send(1) {
                for p in pk {
                    cl.process_packet(&p);
                }
            }
            for p in cl.get_packets_to_send() {
                let _ = srv.process_packet_from(&p, 1);
            }
            while let Some(m) = cl.receive_message(0u8) {
                got[0].push(m.to_vec());
            }
            while let Some(m) = srv.receive_message(1, 0u8) {
                got[1].push(m.to_vec());
            }
        }
        let kname = ["unreliable", "ordered", "unordered"][kind as usize];
        // integrity is this property's subject: whatever is obtained is the submitted message, once. Whether a
        // message this close to the budget gets through at all is C09's subject (see the finding recorded there)
        for dir in 0..2usize {
            if got[dir].is_empty() && (kind == 0 || cl.is_disconnected() || !srv.is_connected(1)) {
                continue;
            }
            if got[dir].len() != 1 || got[dir][0] != body(dir as u8) {
                return Some(Violation::new(
                    format!("C03/big-message/not-identical/{}", kname),
                    format!("direction {}: submitted one {} byte message, obtained {} message(s){}", dir, len, got[dir].len(), got[dir].first().map(|m| format!(", first of {} bytes", m.len())).unwrap_or_default()),
                ));
            }
        }
        None
    });
    match r {
        Ok(v) => v,
        Err(v) => Some(v),
    }
}

/// A connection with `n` channels (ids spread over 0..=255): nothing crosses between channels.
pub fn many_channels_case(n: usize, descending: bool) -> Option<Violation> {
    use renet::{ChannelConfig, ConnectionConfig, RenetClient, RenetServer, SendType};
    use std::time::Duration;
    let mut ids: Vec<u8> = (0..n).map(|k| if n == 256 { k as u8 } else { (255 - k) as u8 }).collect();
    if descending {
        ids.reverse();
    }
    let chans = |ids: &Vec<u8>| -> Vec<ChannelConfig> {
        ids.iter()
            .map(|&id| ChannelConfig {
                channel_id: id,
                max_memory_usage_bytes: 20_000,
                send_type: match id % 3 {
                    0 => SendType::Unreliable,
                    1 => SendType::ReliableOrdered { resend_time: Duration::from_millis(300) },
                    _ => SendType::ReliableUnordered { resend_time: Duration::from_millis(300) },
                },
            })
            .collect()
    };
    let cfg = || ConnectionConfig { available_bytes_per_tick: 10_000_000, server_channels_config: chans(&ids), client_channels_config: chans(&ids) };
    let body = |dir: u8, ch: u8, k: u8, len: usize| -> Vec<u8> {
        let mut v = vec![0xCC, dir, ch, k];
        while v.len() < len {
            v.push((v.len() as u8).wrapping_mul(11).wrapping_add(ch).wrapping_add(k));
        }
        v
    };
    let lens = [(0u8, 9usize), (1, 700), (2, 2600)];
    let r = crate::link::guard("many channels", || {
        let mut srv = RenetServer::new(cfg());
        let mut cl = RenetClient::new(cfg());
        srv.add_connection(1);
        cl.set_connected();
        for &ch in &ids {
            for (k, len) in lens {
                srv.send_message(1, ch, body(0, ch, k, len));
                cl.send_message(ch, body(1, ch, k, len));
            }
        }
        let mut got: [std::collections::BTreeMap<u8, Vec<Vec<u8>>>; 2] = [Default::default(), Default::default()];
        let dt = Duration::from_millis(100);
        for _ in 0..8 {
            srv.update(dt);
            cl.update(dt);
            if let Ok(pk) = srv.get_packets_to_send(1) {
                for p in pk {
                    cl.process_packet(&p);
                }
            }
            for p in cl.get_packets_to_send() {
                let _ = srv.process_packet_from(&p, 1);
            }
            for &ch in &ids {
                while let Some(m) = cl.receive_message(ch) {
                    got[0].entry(ch).or_default().push(m.to_vec());
                }
                while let Some(m) = srv.receive_message(1, ch) {
                    got[1].entry(ch).or_default().push(m.to_vec());
                }
            }
        }
        if cl.is_disconnected() || !srv.is_connected(1) {
            return Some(Violation::new(
                "C03/many-channels/connection-lost",
                format!("{} channels on a perfect network: client reason {:?}, server connected {}", ids.len(), cl.disconnect_reason(), srv.is_connected(1)),
            ));
        }
        for dir in 0..2usize {
            for &ch in &ids {
                let mut g = got[dir].get(&ch).cloned().unwrap_or_default();
                let mut want: Vec<Vec<u8>> = lens.iter().map(|(k, len)| body(dir as u8, ch, *k, *len)).collect();
                if ch % 3 == 1 && g != want {
                    return Some(Violation::new("C03/many-channels/ordered-channel-content", format!("direction {} channel {}: obtained {} messages, not the 3 submitted in order", dir, ch, g.len())));
                }
                g.sort();
                want.sort();
                if g != want {
                    let foreign = g.iter().find(|m| !want.contains(m)).map(|m| format!("first foreign message starts {:02x?}", &m[..m.len().min(4)])).unwrap_or_default();
                    return Some(Violation::new(
                        "C03/many-channels/obtained-differs-from-submitted-on-that-channel",
                        format!("direction {} channel {} ({} channels configured): obtained {} messages, submitted 3 {}", dir, ch, ids.len(), g.len(), foreign),
                    ));
                }
            }
        }
        None
    });
    match r {
        Ok(v) => v,
        Err(v) => Some(v),
    }
}

pub fn replay(j: &J) -> i32 {
    if j.get("kind").and_then(|k| k.as_str()) == Some("big-message") {
        let k = j.get("channel_kind").and_then(|x| x.as_i()).unwrap_or(0) as u8;
        let len = j.get("len").and_then(|x| x.as_i()).unwrap_or(1_500_000) as usize;
        println!("big message case: kind {} length {}", k, len);
        return match big_message_case(k, len) {
            Some(v) => {
                println!("RESULT: violation {} — {}", v.signature, v.message);
                1
            }
            None => {
                println!("RESULT: no violation");
                0
            }
        };
    }
    if j.get("kind").and_then(|k| k.as_str()) == Some("unreliable-budget") {
        let lens: Vec<usize> = match j.get("lens") {
            Some(J::Arr(a)) => a.iter().filter_map(|x| x.as_i()).map(|x| x as usize).collect(),
            _ => vec![],
        };
        let budget = j.get("budget").and_then(|x| x.as_i()).unwrap_or(2400) as u64;
        let dir = j.get("dir").and_then(|x| x.as_i()).unwrap_or(0) as usize;
        let wo = matches!(j.get("with_ordered"), Some(J::Bool(true)));
        println!("unreliable messages {:?}, one per tick, {} bytes per tick, dir {}, ordered companion {}", lens, budget, dir, wo);
        return match unreliable_budget_case(&lens, budget, dir, wo).1 {
            Some(v) => {
                println!("RESULT: violation {} — {}", v.signature, v.message);
                1
            }
            None => {
                println!("RESULT: no violation");
                0
            }
        };
    }
    if j.get("kind").and_then(|k| k.as_str()) == Some("many-channels") {
        let n = j.get("channels").and_then(|x| x.as_i()).unwrap_or(256) as usize;
        let d = matches!(j.get("descending"), Some(J::Bool(true)));
        println!("many channels case: {} channels, descending {}", n, d);
        return match many_channels_case(n, d) {
            Some(v) => {
                println!("RESULT: violation {} — {}", v.signature, v.message);
                1
            }
            None => {
                println!("RESULT: no violation");
                0
            }
        };
    }
    let tier = match j.get("tier").and_then(|t| t.as_str()) {
        Some("thorough") => Tier::Thorough,
        _ => Tier::Quick,
    };
    crate::report::note_tier(tier);
    let tier = { let _ = tier; Tier::Thorough };
    let cs = cases(tier);
    let i = j.get("case_index").and_then(|x| x.as_i()).unwrap_or(0) as usize;
    let Some(c) = cs.get(i) else {
        eprintln!("case index out of range");
        return 2;
    };
    println!("case {}: {} msgs {:?} order {:?} drain_each {}", i, c.name, c.msgs, c.order, c.drain_each);
    let mut log = vec![];
    let (o1, v) = run_case(c, Some(&mut log));
    let (o2, _) = run_case(c, None);
    if o1 != o2 {
        eprintln!("MACHINERY ERROR: replay not deterministic");
        return 2;
    }
    for l in log {
        println!("  {}", l);
    }
    match v {
        Some(v) => {
            println!("RESULT: violation {} — {}", v.signature, v.message);
            1
        }
        None => {
            println!("RESULT: no violation");
            0
        }
    }
}
