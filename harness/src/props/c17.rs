//! C17 — AEAD discipline: sealed data is tamper-evident, no nonce reused under a key.

use super::{replay_net, run_net_scenarios, NetScenario};
use crate::explore::{self, h64, Violation};
use crate::json::J;
use crate::nc::{self, client_addr, make_token, new_client, new_server, server_addr, TokenSpec, PROTOCOL, SR};
use crate::netsim::{ClientCfg, NFate, NetProbe, Sim, SimCfg, Who};
use crate::report::{Report, Tier};
use renetcode::verif::Packet;
use renetcode::{NetcodeClient, NetcodeServer};
use std::collections::HashMap;
use std::net::SocketAddr;
use std::time::Duration;

// ---------------- (a) tamper sweep ----------------

#[derive(Clone)]
pub enum Rx {
    Server(NetcodeServer, SocketAddr),
    Client(NetcodeClient),
}

pub struct Exemplar {
    pub name: &'static str,
    pub rx: Rx,
    pub datagram: Vec<u8>,
    /// the same packet sealed under another session's key and under another protocol id
    pub other_key: Option<Vec<u8>>,
    pub other_protocol: Vec<(u64, Vec<u8>)>,
    /// byte positions that are neither sealed nor bound (request prefix high nibble only)
    pub skip_bits: Vec<(usize, u8)>,
}

/// returns (accepted?, observable snapshot string)
fn present(rx: &Rx, d: &[u8]) -> Result<(bool, String), Violation> {
    match rx.clone() {
        Rx::Server(mut s, from) => {
            let before = format!("{:?}", strip(s.verif_snapshot()));
            let r = nc::srv_process(&mut s, from, d)?;
            let after = format!("{:?}", strip(s.verif_snapshot()));
            Ok((r != SR::None || before != after, format!("{} / {}", r.kind(), if before != after { "state changed" } else { "state unchanged" })))
        }
        Rx::Client(mut c) => {
            let before = c.verif_snapshot();
            let p = nc::cli_process(&mut c, d)?;
            let after = c.verif_snapshot();
            Ok((p.is_some() || before != after, format!("payload {} / {}", p.is_some(), if before != after { "state changed" } else { "state unchanged" })))
        }
    }
}

fn strip(mut s: renetcode::verif::ServerSnapshot) -> renetcode::verif::ServerSnapshot {
    for p in s.pending.iter_mut() {
        p.last_packet_received_time = Duration::ZERO;
    }
    s
}

pub fn exemplars() -> Result<Vec<Exemplar>, Violation> {
    let public = vec![server_addr(0)];
    let mut server = new_server(4, public.clone(), Duration::ZERO);
    let t1 = make_token(&TokenSpec::new(1, 11, public.clone()));
    let t2 = make_token(&TokenSpec::new(2, 22, public.clone()));
    let mut c2 = new_client(Duration::ZERO, &t2);
    nc::connect(&mut server, &mut c2, client_addr(2))?;
    let mut v = vec![];
    let fail = |m: &str| Violation::new("C17/fixture", m.to_string());
    let s_unknown = server.clone();
    let mut c1 = new_client(Duration::ZERO, &t1);
    let c_requesting = c1.clone();
    let (req, _) = nc::cli_update(&mut c1, Duration::from_millis(250))?.ok_or_else(|| fail("no request"))?;
    // every byte of the request except the prefix high nibble is sealed or a bound public field... or the version string
    v.push(Exemplar { name: "connection request -> server", rx: Rx::Server(s_unknown, client_addr(1)), datagram: req.clone(), other_key: None, other_protocol: vec![], skip_bits: (4..8).map(|b| (0usize, 1u8 << b)).collect() });
    // connection requests whose public fields are right but whose sealed token was made for something else
    {
        use crate::props::hsworld::request_datagram;
        let mut variants: Vec<(&'static str, renetcode::ConnectToken)> = vec![];
        let mut sp = TokenSpec::new(1, 11, public.clone());
        sp.protocol = PROTOCOL + 1;
        let mut t = make_token(&sp);
        t.protocol_id = PROTOCOL;
        variants.push(("connection request: token sealed for another protocol id, public field says ours", t));
        let mut sp = TokenSpec::new(1, 11, public.clone());
        sp.expire = 20;
        let mut t = make_token(&sp);
        t.expire_timestamp = 30;
        variants.push(("connection request: token sealed with expiry 20, public field says 30", t));
        let mut sp = TokenSpec::new(1, 11, public.clone());
        sp.key = nc::FOREIGN_KEY;
        variants.push(("connection request: token sealed under another private key", make_token(&sp)));
        for (name, t) in variants {
            let d = request_datagram(&t);
            // presented as the "other key / other protocol" variant of the genuine request exemplar
            v.push(Exemplar { name, rx: Rx::Server(server.clone(), client_addr(1)), datagram: req.clone(), other_key: Some(d), other_protocol: vec![], skip_bits: vec![(usize::MAX, 0)] });
        }
    }
    let SR::Send { bytes: challenge, .. } = nc::srv_process(&mut server, client_addr(1), &req)? else { return Err(fail("no challenge")) };
    v.push(Exemplar {
        name: "challenge -> requesting client",
        rx: Rx::Client(c_requesting.clone()),
        datagram: challenge.clone(),
        other_key: Some(reseal(&challenge, &t1.server_to_client_key, &t2.server_to_client_key, PROTOCOL, PROTOCOL)),
        other_protocol: proto_variants(|np| reseal(&challenge, &t1.server_to_client_key, &t1.server_to_client_key, PROTOCOL, np)),
        skip_bits: vec![],
    });
    v.push(Exemplar {
        name: "denied -> requesting client",
        rx: Rx::Client(c_requesting),
        datagram: nc::seal(&Packet::ConnectionDenied, PROTOCOL, 1 << 50, &t1.server_to_client_key),
        other_key: Some(nc::seal(&Packet::ConnectionDenied, PROTOCOL, 1 << 50, &t2.server_to_client_key)),
        other_protocol: proto_variants(|np| nc::seal(&Packet::ConnectionDenied, np, 1 << 50, &t1.server_to_client_key)),
        skip_bits: vec![],
    });
    let s_pending = server.clone();
    // the same request again while its handshake is pending (a retransmission): tampered copies of it are refused like
    // tampered first requests
    v.push(Exemplar { name: "connection request (repeated) -> server where it is pending", rx: Rx::Server(s_pending.clone(), client_addr(1)), datagram: req.clone(), other_key: None, other_protocol: vec![], skip_bits: (4..8).map(|b| (0usize, 1u8 << b)).collect() });
    nc::cli_process(&mut c1, &challenge)?;
    let c_responding = c1.clone();
    let (resp, _) = nc::cli_update(&mut c1, Duration::from_millis(250))?.ok_or_else(|| fail("no response"))?;
    v.push(Exemplar {
        name: "response -> server (pending)",
        rx: Rx::Server(s_pending, client_addr(1)),
        datagram: resp.clone(),
        other_key: Some(reseal(&resp, &t1.client_to_server_key, &t2.client_to_server_key, PROTOCOL, PROTOCOL)),
        other_protocol: proto_variants(|np| reseal(&resp, &t1.client_to_server_key, &t1.client_to_server_key, PROTOCOL, np)),
        skip_bits: vec![],
    });
    let SR::Connected { bytes: ka, .. } = nc::srv_process(&mut server, client_addr(1), &resp)? else { return Err(fail("not connected")) };
    v.push(Exemplar {
        name: "keep-alive -> responding client",
        rx: Rx::Client(c_responding),
        datagram: ka.clone(),
        other_key: Some(reseal(&ka, &t1.server_to_client_key, &t2.server_to_client_key, PROTOCOL, PROTOCOL)),
        other_protocol: proto_variants(|np| reseal(&ka, &t1.server_to_client_key, &t1.server_to_client_key, PROTOCOL, np)),
        skip_bits: vec![],
    });
    nc::cli_process(&mut c1, &ka)?;
    server.update(Duration::from_secs(1));
    nc::cli_update(&mut c1, Duration::from_millis(100))?;
    // fresh datagrams for the connected session, from clones
    let mk_c = |f: &dyn Fn(&mut NetcodeClient) -> Option<Vec<u8>>| -> Option<Vec<u8>> {
        let mut c = c1.clone();
        f(&mut c)
    };
    let ka_c = mk_c(&|c| c.update(Duration::from_millis(300)).map(|(p, _)| p.to_vec())).ok_or_else(|| fail("no client keep-alive"))?;
    let pay_c = mk_c(&|c| c.generate_payload_packet(b"sealed client payload").ok().map(|(_, p)| p.to_vec())).ok_or_else(|| fail("no client payload"))?;
    let dis_c = mk_c(&|c| c.disconnect().ok().map(|(_, p)| p.to_vec())).ok_or_else(|| fail("no client disconnect"))?;
    for (name, d) in [("keep-alive -> server (connected)", ka_c), ("payload -> server (connected)", pay_c), ("disconnect -> server (connected)", dis_c)] {
        v.push(Exemplar {
            name,
            rx: Rx::Server(server.clone(), client_addr(1)),
            other_key: Some(reseal(&d, &t1.client_to_server_key, &t2.client_to_server_key, PROTOCOL, PROTOCOL)),
            other_protocol: proto_variants(|np| reseal(&d, &t1.client_to_server_key, &t1.client_to_server_key, PROTOCOL, np)),
            datagram: d,
            skip_bits: vec![],
        });
    }
    let ka_s = {
        let mut s = server.clone();
        match nc::own(s.update_client(1)) {
            SR::Send { bytes, .. } => bytes,
            _ => return Err(fail("no server keep-alive")),
        }
    };
    let pay_s = {
        let mut s = server.clone();
        s.generate_payload_packet(1, b"sealed server payload").map(|(_, p)| p.to_vec()).map_err(|e| fail(&e.to_string()))?
    };
    let dis_s = {
        let mut s = server.clone();
        match nc::own(s.disconnect(1)) {
            SR::Disconnected { bytes: Some(b), .. } => b,
            _ => return Err(fail("no server disconnect")),
        }
    };
    for (name, d) in [("keep-alive -> connected client", ka_s), ("payload -> connected client", pay_s), ("disconnect -> connected client", dis_s)] {
        v.push(Exemplar {
            name,
            rx: Rx::Client(c1.clone()),
            other_key: Some(reseal(&d, &t1.server_to_client_key, &t2.server_to_client_key, PROTOCOL, PROTOCOL)),
            other_protocol: proto_variants(|np| reseal(&d, &t1.server_to_client_key, &t1.server_to_client_key, PROTOCOL, np)),
            datagram: d,
            skip_bits: vec![],
        });
    }
    Ok(v)
}

/// the protocol ids a sealed datagram is re-sealed under: ours + 1 and ours with every single bit flipped
fn proto_variants(f: impl Fn(u64) -> Vec<u8>) -> Vec<(u64, Vec<u8>)> {
    let mut v = vec![(PROTOCOL + 1, f(PROTOCOL + 1))];
    for b in 0..64 {
        let np = PROTOCOL ^ (1u64 << b);
        v.push((np, f(np)));
    }
    v
}

/// opens a genuine datagram with its key and seals the same packet with another key / protocol id
fn reseal(d: &[u8], key: &[u8; 32], new_key: &[u8; 32], protocol: u64, new_protocol: u64) -> Vec<u8> {
    let mut b = d.to_vec();
    match nc::open(&mut b, protocol, key) {
        Some((seq, p)) => nc::seal(&p, new_protocol, seq, new_key),
        None => vec![],
    }
}

pub fn tamper_cases(e: &Exemplar, tier: Tier) -> Vec<(String, Vec<u8>)> {
    let mut v = vec![];
    if e.skip_bits.first() == Some(&(usize::MAX, 0)) {
        if let Some(d) = &e.other_key {
            v.push(("public fields as the server expects, sealed part made for something else".into(), d.clone()));
        }
        return v;
    }
    let n = e.datagram.len();
    let stride = if n > 400 { tier.pick(1usize, 1usize) } else { 1 };
    for i in (0..n).step_by(stride) {
        for b in 0..8u8 {
            if e.skip_bits.contains(&(i, 1 << b)) {
                continue;
            }
            let mut d = e.datagram.clone();
            d[i] ^= 1 << b;
            v.push((format!("bit {} of byte {}", b, i), d));
        }
    }
    for len in 0..n {
        v.push((format!("truncated to {}", len), e.datagram[..len].to_vec()));
    }
    // a connection request is not sealed as a whole (only the token inside is): trailing padding is
    // not covered by the statement, extensions are only applied to sealed datagrams
    let sealed_whole = e.datagram[0] & 0x0f != 0;
    for k in 1..=16usize {
        if !sealed_whole {
            break;
        }
        let mut d = e.datagram.clone();
        d.extend(std::iter::repeat(0xA5).take(k));
        v.push((format!("extended by {}", k), d));
    }
    if let Some(d) = &e.other_key {
        v.push(("same packet sealed under another session's key".into(), d.clone()));
    }
    for (np, d) in &e.other_protocol {
        v.push((format!("same packet sealed under protocol id {:#x} (ours is {:#x})", np, crate::nc::PROTOCOL), d.clone()));
    }
    v
}

// ---------------- (b) nonce discipline ----------------

pub struct NonceProbe {
    /// (session, direction, nonce) -> (datagram index, bytes)
    seen: HashMap<(usize, bool, u64), (usize, Vec<u8>)>,
    sealed: u64,
    /// (session, direction, sequence, datagram index, sealed body, plain body) of every sealed datagram
    bodies: Vec<(usize, bool, u64, usize, Vec<u8>, Vec<u8>)>,
    /// challenge-token sequence -> (datagram index, sealed challenge token)
    challenge_tokens: HashMap<u64, (usize, Vec<u8>)>,
}

impl NetProbe for NonceProbe {
    fn on_emit(&mut self, sim: &Sim, d: usize) -> Result<(), Violation> {
        let g = &sim.dgs[d];
        if g.bytes.len() > 1400 {
            return Err(Violation::new("C13/netcode-datagram-over-1400", format!("{} bytes", g.bytes.len())));
        }
        let (Some(i), Some((ty, seq))) = (g.session, g.opened) else { return Ok(()) };
        if ty == 0 || g.by == Who::Attacker {
            return Ok(());
        }
        self.sealed += 1;
        let dir = matches!(g.by, Who::Client(_));
        // scope: one connection attempt and the session that follows. A second session for the same token (the
        // counters restart by design, e.g. after late duplicates of the handshake re-create a session the
        // server had closed) starts with the server's keep-alive number 0: forget the previous session's
        // keep-alive / payload / disconnect entries, keep the handshake replies
        if !dir && ty == 4 && seq == 0 {
            if let Some((d0, _)) = self.seen.get(&(i, false, 0)) {
                if sim.dgs[*d0].opened.map(|o| o.0) == Some(4) {
                    let dgs = &sim.dgs;
                    self.seen.retain(|k, (d, _)| !(k.0 == i && !k.1 && matches!(dgs[*d].opened.map(|o| o.0), Some(4) | Some(5) | Some(6))));
                }
            }
        }
        let names = ["request", "denied", "challenge", "response", "keep-alive", "payload", "disconnect"];
        if let Some((d0, old)) = self.seen.get(&(i, dir, seq)) {
            if *old != g.bytes {
                let t0 = sim.dgs[*d0].opened.map(|o| o.0).unwrap_or(0);
                return Err(Violation::new(
                    format!("C17/nonce-reused/{}-and-{}", names[t0 as usize], names[ty as usize]),
                    format!(
                        "session of client {}: {} sealed datagram #{} ({}) and datagram #{} ({}) under the same {} key with the same sequence number {}",
                        i,
                        if dir { "the client" } else { "the server" },
                        d0,
                        names[t0 as usize],
                        d,
                        names[ty as usize],
                        if dir { "client-to-server" } else { "server-to-client" },
                        seq
                    ),
                ));
            }
        } else {
            self.seen.insert((i, dir, seq), (d, g.bytes.clone()));
        }
        // the nonce itself, not only the number on the wire: two datagrams sealed under one key with one nonce
        // share their key stream, i.e. sealed(a) xor sealed(b) == plain(a) xor plain(b) from the first body byte
        // on (by chance with probability 2^-64 for the shortest bodies compared here)
        let key = if dir { sim.tokens[i].client_to_server_key } else { sim.tokens[i].server_to_client_key };
        let start = 1 + (g.bytes[0] >> 4) as usize;
        let mut plain = g.bytes.clone();
        if start + 16 <= plain.len() && crate::nc::open(&mut plain, crate::nc::PROTOCOL, &key).is_some() {
            let end = g.bytes.len() - 16;
            let (cb, pb) = (g.bytes[start..end].to_vec(), plain[start..end].to_vec());
            if pb.len() >= 8 {
                for (i0, dir0, seq0, d0, c0, p0) in &self.bodies {
                    if *i0 != i || *dir0 != dir || *seq0 == seq {
                        continue;
                    }
                    let m = cb.len().min(c0.len());
                    if (0..m).all(|k| cb[k] ^ c0[k] == pb[k] ^ p0[k]) {
                        let t0 = sim.dgs[*d0].opened.map(|o| o.0).unwrap_or(0);
                        return Err(Violation::new(
                            format!("C17/key-stream-reused/{}-and-{}", names[t0 as usize], names[ty as usize]),
                            format!(
                                "session of client {}: datagram #{} ({}, sequence {}) and datagram #{} ({}, sequence {}) were sealed under the same {} key with the same key stream over their first {} body bytes: the two sequence numbers map to one nonce",
                                i, d0, names[t0 as usize], seq0, d, names[ty as usize], seq, if dir { "client-to-server" } else { "server-to-client" }, m
                            ),
                        ));
                    }
                }
                self.bodies.push((i, dir, seq, d, cb, pb.clone()));
            }
            // the challenge token inside a challenge is sealed under the server's challenge key with its own counter
            if !dir && ty == 2 && pb.len() >= 308 {
                let ts = u64::from_le_bytes(pb[..8].try_into().unwrap());
                let tok = pb[8..308].to_vec();
                match self.challenge_tokens.get(&ts) {
                    Some((d0, old)) if *old != tok => {
                        return Err(Violation::new(
                            "C17/nonce-reused/challenge-token",
                            format!("challenges #{} and #{} carry different challenge tokens sealed under the challenge key with the same token sequence {}", d0, d, ts),
                        ));
                    }
                    Some(_) => {}
                    None => {
                        self.challenge_tokens.insert(ts, (d, tok));
                    }
                }
            }
        }
        Ok(())
    }
}

fn nonce_probe() -> Box<dyn NetProbe> {
    Box::new(NonceProbe { seen: HashMap::new(), sealed: 0, bodies: vec![], challenge_tokens: HashMap::new() })
}

pub fn nonce_scenarios(tier: Tier) -> Vec<NetScenario> {
    let mut v: Vec<SimCfg> = vec![];
    // one client: handshake with retries, keep-alives, payloads both ways, client disconnect
    {
        let mut cl = ClientCfg::new(1);
        cl.payload_ticks = vec![3, 4, 6];
        cl.disconnect_at = Some(10);
        let mut c = SimCfg::base("1 client: handshake, payloads, client disconnects at tick 10", vec![cl]);
        c.server_payload_ticks = vec![3, 5, 6];
        c.horizon = 6;
        c.tail = 8;
        v.push(c);
    }
    // two clients, second one denied (server full), server disconnects the first
    {
        let mut c2 = ClientCfg::new(2);
        c2.start_tick = 1;
        let mut c = SimCfg::base("2 clients on a 1-slot server: denial, server disconnects client 1 at tick 8", vec![ClientCfg::new(1), c2]);
        c.max_clients = 1;
        c.server_disconnect = Some((8, 1));
        c.server_payload_ticks = vec![4, 5];
        c.horizon = 5;
        c.tail = 8;
        v.push(c);
    }
    // a client is denied (server full), the denial is lost or not, the slot frees up in the same tick, the retry is challenged
    {
        let mut c2 = ClientCfg::new(2);
        c2.start_tick = 7;
        let mut c = SimCfg::base("1-slot server: client 2 requests at tick 7 (denied), client 1 is disconnected at tick 7, retries are challenged", vec![ClientCfg::new(1), c2]);
        c.max_clients = 1;
        c.server_disconnect = Some((7, 1));
        c.fault_from = 6;
        c.horizon = 11;
        c.tail = 8;
        c.fates = vec![NFate::Ok, NFate::Drop, NFate::Dup, NFate::Delay1];
        v.push(c);
    }
    // both clients are challenged while one slot is free; the loser is denied at the response step; the slot is
    // freed; a late duplicate of the loser's request makes it pending again and its response retry connects it
    {
        let mut c = SimCfg::base("1-slot server: two clients challenged together, client 1 disconnected at tick 2, late duplicates allowed", vec![ClientCfg::new(1), ClientCfg::new(2)]);
        c.max_clients = 1;
        c.server_disconnect = Some((2, 1));
        c.horizon = 5;
        c.tail = 8;
        c.fates = vec![NFate::Ok, NFate::Drop, NFate::DupLate3, NFate::Delay2];
        v.push(c);
    }
    // the server answers the first request, then hears nothing for a whole time-out; the client fails over to the
    // second listed address (the same server) and completes the handshake there: its sequence numbers go on
    {
        let mut cl = ClientCfg::new(1);
        cl.timeout = 2;
        cl.addr_list = vec![0, 1];
        let mut c = SimCfg::base("challenge, then 2.5 s of lost responses, fail-over to the second address of the same server", vec![cl]);
        c.server_addrs = vec![server_addr(0), server_addr(1)];
        c.alive = vec![true, true];
        c.c2s_blackout_window = Some((1, 11));
        c.fault_from = 11;
        c.horizon = 14;
        c.tail = 10;
        c.fates = vec![NFate::Ok, NFate::Drop, NFate::Dup];
        v.push(c);
    }
    // three clients connecting on an already used server (handshake replies use the shared counter)
    {
        let mut c2 = ClientCfg::new(2);
        c2.start_tick = 2;
        let mut c3 = ClientCfg::new(3);
        c3.start_tick = 3;
        let mut c = SimCfg::base("3 clients joining one after the other, keep-alives for 3 s", vec![ClientCfg::new(1), c2, c3]);
        c.horizon = tier.pick(4, 6);
        c.tail = 12;
        c.fates = vec![NFate::Ok, NFate::Drop, NFate::Dup];
        v.push(c);
    }
    // time-out and fail-over
    {
        let mut cl = ClientCfg::new(1);
        cl.timeout = 1;
        cl.addr_list = vec![1, 0];
        let mut c = SimCfg::base("fail-over to the second address (timeout 1 s), then session", vec![cl]);
        c.server_addrs = vec![server_addr(0), server_addr(1)];
        c.alive = vec![true, false];
        c.horizon = 10;
        c.tail = 8;
        c.fates = vec![NFate::Ok, NFate::Drop];
        v.push(c);
    }
    v.into_iter().map(|cfg| NetScenario { cfg, probe: nonce_probe as fn() -> Box<dyn NetProbe> }).collect()
}

pub fn run(tier: Tier) -> i32 {
    let mut rep = Report::new("C17", tier);
    rep.rule("(a) sweep: for one genuine datagram of every sealed kind in a state where it would be accepted (challenge / denied -> requesting client, keep-alive -> responding and connected client, payload and disconnect both ways, response -> pending server, keep-alive -> server, connection request -> server): every single bit (for the request: every bit of version, protocol id, expiry, xnonce and the 1024 sealed bytes; the unsealed prefix high nibble excluded), every truncation, extensions by 1..16 bytes, the same packet under another session's key and under another protocol id; oracle: the receiver returns no content and its observable state is unchanged, while the untampered datagram is accepted. (b) M2 over netcode sessions (handshakes with retries, denials, re-challenges, keep-alives, payloads, disconnects, time-outs, fail-over; 1-3 clients): a monitor opens every datagram any endpoint emits with the session keys and checks that no endpoint seals two different datagrams under the same key with the same sequence number");
    rep.assume("ChaCha20-Poly1305 / XChaCha20-Poly1305 (RustCrypto) trusted for forgeries beyond the enumerated tampering; one connection attempt per client and token");
    match exemplars() {
        Err(v) => rep.violation("fixture", v, J::obj().set("kind", J::s("fixture"))),
        Ok(exs) => {
            for (k, e) in exs.iter().enumerate() {
                // the genuine datagram must be accepted, otherwise the sweep is vacuous
                match present(&e.rx, &e.datagram) {
                    Ok((true, _)) => {}
                    Ok((false, what)) => {
                        rep.machinery = Some(format!("exemplar '{}' is not accepted untampered ({})", e.name, what));
                        break;
                    }
                    Err(v) => {
                        rep.violation(e.name, v, J::obj().set("kind", J::s("tamper")).set("exemplar", J::i(k as u64)).set("case", J::i(0u64)));
                        continue;
                    }
                }
                let cases = tamper_cases(e, tier);
                let r = explore::sweep(cases.len(), |i| match present(&e.rx, &cases[i].1) {
                    Err(v) => (0, Some(Violation::new(format!("C17/{}", v.signature), format!("{}: {}: {}", e.name, cases[i].0, v.message)))),
                    Ok((false, _)) => (h64(&(k, cases[i].1.len())), None),
                    Ok((true, what)) => (
                        1,
                        Some(Violation::new(
                            format!("C17/tampered-datagram-accepted/{}", e.name.split(' ').next().unwrap_or("")),
                            format!("{}: {} was not rejected: {}", e.name, cases[i].0, what),
                        )),
                    ),
                });
                rep.add_sweep(&format!("tamper/{}", e.name), r.cases, r.distinct_outcomes, 1, vec![cases[0].0.clone(), cases[cases.len() - 1].0.clone()]);
                for (i, v) in r.found {
                    rep.violation(&format!("tamper/{}", e.name), v, J::obj().set("kind", J::s("tamper")).set("exemplar", J::i(k as u64)).set("case", J::i(i as u64)).set("case_text", J::s(cases[i].0.clone())));
                }
            }
        }
    }
    if rep.machinery.is_none() {
        let sc = nonce_scenarios(tier);
        run_net_scenarios(&mut rep, "nonce", &sc, tier.pick(2, 4), tier.pick(120.0, 3000.0));
    }
    rep.violations.retain(|v| !v.signature.starts_with("C13/"));
    rep.finish()
}

pub fn replay(j: &J) -> i32 {
    let tier = match j.get("tier").and_then(|t| t.as_str()) {
        Some("thorough") => Tier::Thorough,
        _ => Tier::Quick,
    };
    if j.get("kind").and_then(|k| k.as_str()) == Some("tamper") {
        let exs = match exemplars() {
            Ok(e) => e,
            Err(v) => {
                println!("RESULT: violation {} — {}", v.signature, v.message);
                return 1;
            }
        };
        let k = j.get("exemplar").and_then(|x| x.as_i()).unwrap_or(0) as usize;
        let i = j.get("case").and_then(|x| x.as_i()).unwrap_or(0) as usize;
        let Some(e) = exs.get(k) else { return 2 };
        let cases = tamper_cases(e, tier);
        let Some(c) = cases.get(i) else { return 2 };
        println!("{}: {}", e.name, c.0);
        return match present(&e.rx, &c.1) {
            Ok((false, what)) => {
                println!("RESULT: rejected ({}) — no violation", what);
                0
            }
            Ok((true, what)) => {
                println!("RESULT: violation — accepted: {}", what);
                1
            }
            Err(v) => {
                println!("RESULT: violation {} — {}", v.signature, v.message);
                1
            }
        };
    }
    replay_net(&nonce_scenarios(tier), j)
}
