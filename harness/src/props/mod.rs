use crate::explore::{self, Ctx, ExploreCfg, RunOut, Scenario};
use crate::link::{Link, LinkCfg, Probe, LINK_FLAG_NAMES};
use crate::report::{self, Report, Tier};

pub mod c01;
pub mod c02;
pub mod c03;
pub mod c04;
pub mod c06;
pub mod c07;
pub mod c08;
pub mod c09;
pub mod c11;
pub mod c12;
pub mod c13;
pub mod c14;
pub mod c15;
pub mod c16;
pub mod ackworld;

pub fn run(prop: &str, tier: Tier) -> i32 {
    match prop {
        "C01" => c01::run(tier),
        "C02" => c02::run(tier),
        "C03" => c03::run(tier),
        "C04" => c04::run(tier),
        "C06" => c06::run(tier),
        "C07" => c07::run(tier),
        "C08" => c08::run(tier),
        "C09" => c09::run(tier),
        "C11" => c11::run(tier),
        "C12" => c12::run(tier),
        "C13" => c13::run(tier),
        "C14" => c14::run(tier),
        "C15" => c15::run(tier),
        "C16" => c16::run(tier),
        _ => {
            eprintln!("no check registered for {}", prop);
            2
        }
    }
}

pub fn replay(prop: &str, path: &str) -> i32 {
    let j = match report::read_replay(path) {
        Ok(j) => j,
        Err(e) => {
            eprintln!("cannot read replay: {}", e);
            return 2;
        }
    };
    match prop {
        "C01" => c01::replay(&j),
        "C02" => c02::replay(&j),
        "C03" => c03::replay(&j),
        "C04" => c04::replay(&j),
        "C06" => c06::replay(&j),
        "C07" => c07::replay(&j),
        "C08" => c08::replay(&j),
        "C09" => c09::replay(&j),
        "C11" => c11::replay(&j),
        "C12" => c12::replay(&j),
        "C13" => c13::replay(&j),
        "C14" => c14::replay(&j),
        "C15" => c15::replay(&j),
        "C16" => c16::replay(&j),
        _ => {
            eprintln!("no replay registered for {}", prop);
            2
        }
    }
}

/// A link scenario = configuration + oracle factory.
pub struct LinkScenario<F: Fn() -> Box<dyn Probe> + Sync> {
    pub cfg: LinkCfg,
    pub probe: F,
}

impl<F: Fn() -> Box<dyn Probe> + Sync> Scenario for LinkScenario<F> {
    fn name(&self) -> String {
        self.cfg.name.clone()
    }
    fn run(&self, ctx: &mut Ctx) -> RunOut {
        let mut p = (self.probe)();
        let (violation, outcome) = Link::run(&self.cfg, ctx, p.as_mut());
        RunOut { violation, outcome }
    }
}

/// Explores a list of link scenarios under one deviation bound and folds the results in the report.
pub fn run_link_scenarios<F: Fn() -> Box<dyn Probe> + Sync>(
    rep: &mut Report,
    part: &str,
    scenarios: &[LinkScenario<F>],
    max_dev: u32,
    wall_cap_s: f64,
) {
    for (i, sc) in scenarios.iter().enumerate() {
        let cfg = ExploreCfg {
            max_dev,
            wall_cap_s,
            ..Default::default()
        };
        match explore::explore_schedules(sc, i, &cfg, LINK_FLAG_NAMES.len()) {
            Ok(r) => rep.add_explore(&format!("{}/{}", part, sc.cfg.name), &r, &LINK_FLAG_NAMES),
            Err(e) => {
                rep.machinery = Some(e.0);
                return;
            }
        }
        if rep.violations.len() >= 8 {
            return;
        }
    }
}

/// Generic replay of a stored schedule of a link scenario list.
pub fn replay_link<F: Fn() -> Box<dyn Probe> + Sync>(scenarios: &[LinkScenario<F>], j: &crate::json::J) -> i32 {
    let idx = j.get("scenario_index").and_then(|x| x.as_i()).unwrap_or(0) as usize;
    let Some(sc) = scenarios.get(idx) else {
        eprintln!("scenario index {} out of range", idx);
        return 2;
    };
    let choices = report::choices_of(j);
    match explore::replay(sc, &choices) {
        Err(e) => {
            eprintln!("MACHINERY ERROR: {}", e.0);
            2
        }
        Ok((log, v)) => {
            println!("replay of scenario '{}' with choices {:?}", sc.cfg.name, choices);
            for l in log {
                println!("  {}", l);
            }
            match v {
                Some(v) => {
                    println!("RESULT: violation {} — {}", v.signature, v.message);
                    1
                }
                None => {
                    println!("RESULT: no violation");
                    0
                }
            }
        }
    }
}

/// C13 (d): placeholder until the netcode world is registered
pub fn netcode_sizes(_rep: &mut Report, _tier: Tier) {}
pub fn netcode_sizes_replay(_j: &crate::json::J) -> i32 {
    2
}
