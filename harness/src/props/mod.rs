use crate::explore::{self, Ctx, ExploreCfg, RunOut, Scenario};
use crate::link::{Link, LinkCfg, Probe, LINK_FLAG_NAMES};
use crate::netsim::{NetProbe, Sim, SimCfg, NET_FLAG_NAMES};
use crate::json::J;
use crate::report::{self, Report, Tier};

pub mod c01;
pub mod c02;
pub mod c03;
pub mod c04;
pub mod c05;
pub mod c10;
pub mod hsworld;
pub mod soup;
pub mod c06;
pub mod c07;
pub mod c08;
pub mod c09;
pub mod c11;
pub mod c12;
pub mod c13;
pub mod c14;
pub mod c15;
pub mod c16;
pub mod c17;
pub mod c18;
pub mod c19;
pub mod c20;
pub mod ackworld;

pub fn run(prop: &str, tier: Tier) -> i32 {
    match prop {
        "C01" => c01::run(tier),
        "C02" => c02::run(tier),
        "C03" => c03::run(tier),
        "C04" => c04::run(tier),
        "C05" => c05::run(tier),
        "C10" => c10::run(tier),
        "C06" => c06::run(tier),
        "C07" => c07::run(tier),
        "C08" => c08::run(tier),
        "C09" => c09::run(tier),
        "C11" => c11::run(tier),
        "C12" => c12::run(tier),
        "C13" => c13::run(tier),
        "C14" => c14::run(tier),
        "C15" => c15::run(tier),
        "C16" => c16::run(tier),
        "C17" => c17::run(tier),
        "C18" => c18::run(tier),
        "C19" => c19::run(tier),
        "C20" => c20::run(tier),
        _ => {
            eprintln!("no check registered for {}", prop);
            2
        }
    }
}

pub fn replay(prop: &str, path: &str) -> i32 {
    let j = match report::read_replay(path) {
        Ok(j) => j,
        Err(e) => {
            eprintln!("cannot read replay: {}", e);
            return 2;
        }
    };
    match prop {
        "C01" => c01::replay(&j),
        "C02" => c02::replay(&j),
        "C03" => c03::replay(&j),
        "C04" => c04::replay(&j),
        "C05" => c05::replay(&j),
        "C10" => c10::replay(&j),
        "C06" => c06::replay(&j),
        "C07" => c07::replay(&j),
        "C08" => c08::replay(&j),
        "C09" => c09::replay(&j),
        "C11" => c11::replay(&j),
        "C12" => c12::replay(&j),
        "C13" => c13::replay(&j),
        "C14" => c14::replay(&j),
        "C15" => c15::replay(&j),
        "C16" => c16::replay(&j),
        "C17" => c17::replay(&j),
        "C18" => c18::replay(&j),
        "C19" => c19::replay(&j),
        "C20" => c20::replay(&j),
        _ => {
            eprintln!("no replay registered for {}", prop);
            2
        }
    }
}

/// A link scenario = configuration + oracle factory.
pub struct LinkScenario<F: Fn() -> Box<dyn Probe> + Sync> {
    pub cfg: LinkCfg,
    pub probe: F,
}

impl<F: Fn() -> Box<dyn Probe> + Sync> Scenario for LinkScenario<F> {
    fn name(&self) -> String {
        self.cfg.name.clone()
    }
    fn run(&self, ctx: &mut Ctx) -> RunOut {
        let mut p = (self.probe)();
        let (violation, outcome) = Link::run(&self.cfg, ctx, p.as_mut());
        RunOut { violation, outcome }
    }
}

/// Explores a list of link scenarios under one deviation bound and folds the results in the report.
pub fn run_link_scenarios<F: Fn() -> Box<dyn Probe> + Sync>(
    rep: &mut Report,
    part: &str,
    scenarios: &[LinkScenario<F>],
    max_dev: u32,
    wall_cap_s: f64,
) {
    run_link_scenarios_from(rep, part, scenarios, max_dev, wall_cap_s, 0)
}

/// Same, the scenario indices recorded in replay files start at `base` (a second list of one property).
pub fn run_link_scenarios_from<F: Fn() -> Box<dyn Probe> + Sync>(
    rep: &mut Report,
    part: &str,
    scenarios: &[LinkScenario<F>],
    max_dev: u32,
    wall_cap_s: f64,
    base: usize,
) {
    for (i, sc) in scenarios.iter().enumerate() {
        let i = i + base;
        let cfg = ExploreCfg {
            max_dev,
            wall_cap_s,
            ..Default::default()
        };
        match explore::explore_schedules(sc, i, &cfg, LINK_FLAG_NAMES.len()) {
            Ok(r) => rep.add_explore(&format!("{}/{}", part, sc.cfg.name), &r, &LINK_FLAG_NAMES),
            Err(e) => {
                rep.machinery = Some(e.0);
                return;
            }
        }
        if rep.violations.len() >= 8 {
            return;
        }
    }
}

/// Generic replay of a stored schedule of a link scenario list.
pub fn replay_link<F: Fn() -> Box<dyn Probe> + Sync>(scenarios: &[LinkScenario<F>], j: &crate::json::J) -> i32 {
    replay_link_from(scenarios, j, 0)
}

pub fn replay_link_from<F: Fn() -> Box<dyn Probe> + Sync>(scenarios: &[LinkScenario<F>], j: &crate::json::J, base: usize) -> i32 {
    let idx = (j.get("scenario_index").and_then(|x| x.as_i()).unwrap_or(0) as usize).wrapping_sub(base);
    let Some(sc) = scenarios.get(idx) else {
        eprintln!("scenario index {} out of range", idx);
        return 2;
    };
    let choices = report::choices_of(j);
    match explore::replay(sc, &choices) {
        Err(e) => {
            eprintln!("MACHINERY ERROR: {}", e.0);
            2
        }
        Ok((log, v)) => {
            println!("replay of scenario '{}' with choices {:?}", sc.cfg.name, choices);
            for l in log {
                println!("  {}", l);
            }
            match v {
                Some(v) => {
                    println!("RESULT: violation {} — {}", v.signature, v.message);
                    1
                }
                None => {
                    println!("RESULT: no violation");
                    0
                }
            }
        }
    }
}

/// C13 (d): every datagram the netcode layer produces is at most 1400 bytes
pub fn netcode_sizes(rep: &mut Report, tier: Tier) {
    use crate::explore::Violation;
    use crate::nc::{self, client_addr, make_token, new_client, new_server, server_addr, TokenSpec};
    use std::time::Duration;
    let _ = tier;
    let public = vec![server_addr(0)];
    let mut server = new_server(2, public.clone(), Duration::ZERO);
    let t1 = make_token(&TokenSpec::new(1, 11, public));
    let mut c1 = new_client(Duration::ZERO, &t1);
    let mut sizes: Vec<(String, usize)> = vec![];
    let mut viol: Option<Violation> = None;
    // handshake datagrams of a real session
    let r = (|| -> Result<(), Violation> {
        for _ in 0..6 {
            if let Some((p, _)) = nc::cli_update(&mut c1, Duration::from_millis(250))? {
                sizes.push(("client handshake/keep-alive".into(), p.len()));
                let r = nc::srv_process(&mut server, client_addr(1), &p)?;
                if let Some((_, b)) = r.reply() {
                    sizes.push((format!("server reply {}", r.kind()), b.len()));
                    nc::cli_process(&mut c1, b)?;
                }
            }
        }
        Ok(())
    })();
    if let Err(v) = r {
        viol = Some(v);
    }
    let mut seqs = crate::props::c16::netcode_sequences();
    seqs.retain(|s| *s < u64::MAX - 4);
    let mut cases = 0u64;
    for &seq in &seqs {
        for len in [0usize, 1, 1299, 1300, 1301] {
            cases += 2;
            let payload = vec![0xABu8; len];
            let mut c = c1.clone();
            c.verif_set_sequence(seq);
            let rc = crate::link::guard("NetcodeClient::generate_payload_packet", || c.generate_payload_packet(&payload).map(|(_, p)| p.len()).ok());
            let mut s = server.clone();
            s.verif_set_client_sequence(1, seq);
            let rs = crate::link::guard("NetcodeServer::generate_payload_packet", || s.generate_payload_packet(1, &payload).map(|(_, p)| p.len()).ok());
            for (who, r) in [("client", rc), ("server", rs)] {
                match r {
                    Err(v) => viol = Some(v),
                    Ok(Some(n)) => {
                        sizes.push((format!("{} payload {} seq {}", who, len, seq), n));
                        if len > 1300 {
                            viol = Some(Violation::new("C13/netcode-accepts-payload-over-1300", format!("{} generate_payload_packet accepted {} bytes", who, len)));
                        }
                    }
                    Ok(None) => {
                        if len <= 1300 {
                            viol = Some(Violation::new("C13/netcode-rejects-payload-within-limit", format!("{} generate_payload_packet refused {} bytes at sequence {}", who, len, seq)));
                        }
                    }
                }
            }
        }
    }
    for (what, n) in &sizes {
        if *n > 1400 {
            viol = Some(Violation::new("C13/netcode-datagram-over-1400", format!("{}: {} bytes", what, n)));
        }
    }
    let distinct = {
        let mut v: Vec<usize> = sizes.iter().map(|s| s.1).collect();
        v.sort();
        v.dedup();
        v.len() as u64
    };
    rep.add_sweep("netcode-datagram-sizes", cases + sizes.len() as u64, distinct, 1, vec![format!("largest datagram {:?}", sizes.iter().max_by_key(|s| s.1))]);
    if let Some(v) = viol {
        rep.violation("netcode-datagram-sizes", v, J::obj().set("kind", J::s("netcode-sizes")));
    }
}

pub fn netcode_sizes_replay(_j: &crate::json::J) -> i32 {
    let mut rep = Report::new("C13", Tier::Quick);
    netcode_sizes(&mut rep, Tier::Quick);
    for v in &rep.violations {
        println!("RESULT: violation {} — {}", v.signature, v.message);
    }
    if rep.violations.is_empty() {
        println!("RESULT: no violation");
        0
    } else {
        1
    }
}

/// A netcode scenario = configuration + oracle factory.
pub struct NetScenario {
    pub cfg: SimCfg,
    pub probe: fn() -> Box<dyn NetProbe>,
}

impl Scenario for NetScenario {
    fn name(&self) -> String {
        self.cfg.name.clone()
    }
    fn run(&self, ctx: &mut Ctx) -> RunOut {
        let mut p = (self.probe)();
        let (violation, outcome) = Sim::run(&self.cfg, ctx, p.as_mut());
        RunOut { violation, outcome }
    }
}

pub fn run_net_scenarios(rep: &mut Report, part: &str, scenarios: &[NetScenario], max_dev: u32, wall_cap_s: f64) {
    for (i, sc) in scenarios.iter().enumerate() {
        let cfg = ExploreCfg { max_dev, wall_cap_s, ..Default::default() };
        match explore::explore_schedules(sc, i, &cfg, NET_FLAG_NAMES.len()) {
            Ok(r) => rep.add_explore(&format!("{}/{}", part, sc.cfg.name), &r, &NET_FLAG_NAMES),
            Err(e) => {
                rep.machinery = Some(e.0);
                return;
            }
        }
        if rep.violations.len() >= 8 {
            return;
        }
    }
}

pub fn replay_net(scenarios: &[NetScenario], j: &crate::json::J) -> i32 {
    let idx = j.get("scenario_index").and_then(|x| x.as_i()).unwrap_or(0) as usize;
    let Some(sc) = scenarios.get(idx) else {
        eprintln!("scenario index {} out of range", idx);
        return 2;
    };
    let choices = report::choices_of(j);
    match explore::replay(sc, &choices) {
        Err(e) => {
            eprintln!("MACHINERY ERROR: {}", e.0);
            2
        }
        Ok((log, v)) => {
            println!("replay of scenario '{}' with choices {:?}", sc.cfg.name, choices);
            for l in log {
                println!("  {}", l);
            }
            match v {
                Some(v) => {
                    println!("RESULT: violation {} — {}", v.signature, v.message);
                    1
                }
                None => {
                    println!("RESULT: no violation");
                    0
                }
            }
        }
    }
}
