//! C02 — ReliableUnordered: at most once, intact, no head-of-line blocking, eventually all.

use super::{replay_link, run_link_scenarios, LinkScenario};
use crate::explore::Violation;
use crate::json::J;
use crate::link::{describe, identify, Chan, Drain, Kind, Link, LinkCfg, PktInfo, Probe, Send};
#[allow(unused_imports)]
use crate::link::Probe as _;
use crate::report::{Report, Tier};

/// true iff every packet needed to rebuild message `id` (length `len`) of (dir, ch) has been
/// handed to the receiving endpoint at least once
pub fn fully_handed(l: &Link, dir: usize, ch: u8, id: u64, len: usize) -> bool {
    if len <= 1200 {
        l.emitted.iter().any(|e| {
            e.dir == dir
                && e.delivered > 0
                && matches!(&e.info, PktInfo::SmallReliable { ch: c, msgs } if *c == ch && msgs.iter().any(|(i, _)| *i == id))
        })
    } else {
        let n = len.div_ceil(1200);
        (0..n).all(|idx| {
            l.emitted.iter().any(|e| {
                e.dir == dir
                    && e.delivered > 0
                    && matches!(&e.info, PktInfo::ReliableSlice { ch: c, id: i, idx: x, .. } if *c == ch && *i == id && *x == idx)
            })
        })
    }
}

pub struct UnorderedProbe {
    checked: [Vec<usize>; 2],
    seen: [Vec<Vec<bool>>; 2],
}

impl UnorderedProbe {
    pub fn new() -> Self {
        UnorderedProbe {
            checked: [vec![], vec![]],
            seen: [vec![], vec![]],
        }
    }
}

impl Probe for UnorderedProbe {
    fn on_drain(&mut self, l: &Link, dir: usize) -> Result<(), Violation> {
        for (ci, ch) in l.cfg.chans[dir].iter().enumerate() {
            if ch.kind != Kind::Unordered {
                continue;
            }
            if self.checked[dir].len() <= ci {
                self.checked[dir].resize(ci + 1, 0);
                self.seen[dir].resize(ci + 1, vec![]);
            }
            let got = &l.obtained[dir][ci];
            let sub = &l.submitted[dir][ci];
            self.seen[dir][ci].resize(sub.len(), false);
            for i in self.checked[dir][ci]..got.len() {
                // identical payloads (e.g. two empty messages) are interchangeable: take the first unseen one
                let k = sub
                    .iter()
                    .enumerate()
                    .position(|(k, s)| *s == got[i].bytes && !self.seen[dir][ci][k]);
                match k {
                    Some(k) => self.seen[dir][ci][k] = true,
                    None => {
                        let sig = if identify(sub, &got[i].bytes).is_some() {
                            "C02/duplicate-delivery"
                        } else {
                            "C02/not-submitted"
                        };
                        return Err(Violation::new(
                            sig,
                            format!(
                                "unordered channel {} dir {}: obtained {} at tick {} which is {}",
                                ch.id,
                                dir,
                                describe(&got[i].bytes),
                                l.tick,
                                if sig.ends_with("delivery") { "a second copy of an already obtained message" } else { "not a submitted message" }
                            ),
                        ));
                    }
                }
            }
            self.checked[dir][ci] = got.len();
            // no head-of-line blocking: complete => obtained (right after a drain)
            if l.ends.disconnect_reason(1 - dir).is_none() {
                let id0 = l.cfg.msg_id0.unwrap_or(0);
                for (k, s) in sub.iter().enumerate() {
                    if !self.seen[dir][ci][k] && fully_handed(l, dir, ch.id, id0 + k as u64, s.len()) {
                        // identical payloads are interchangeable: as many copies must have been obtained as there
                        // are complete messages with these bytes
                        let handed_twins = sub
                            .iter()
                            .enumerate()
                            .filter(|(k2, x)| *x == s && fully_handed(l, dir, ch.id, id0 + *k2 as u64, x.len()))
                            .count();
                        let got_twins = got.iter().filter(|g| g.bytes == *s).count();
                        if got_twins >= handed_twins {
                            continue;
                        }
                        return Err(Violation::new(
                            "C02/complete-but-not-handed-over",
                            format!(
                                "unordered channel {} dir {}: message #{} ({} B) is complete at the receiver (every packet carrying it was processed) but the drain at tick {} did not yield it",
                                ch.id, dir, k, s.len(), l.tick
                            ),
                        ));
                    }
                }
            }
        }
        Ok(())
    }
    fn on_tick_end(&mut self, l: &Link) -> Result<(), Violation> {
        for e in 0..2 {
            if let Some(r) = l.ends.disconnect_reason(e) {
                return Err(Violation::new(
                    format!("C02/disconnected/{}", super::c01::reason_class(&r)),
                    format!("endpoint {} disconnected ({:?}) at tick {} although both sides are honest and budgets ample", e, r, l.tick),
                ));
            }
        }
        Ok(())
    }
    fn on_end(&mut self, l: &Link) -> Result<(), Violation> {
        for dir in 0..2 {
            for (ci, ch) in l.cfg.chans[dir].iter().enumerate() {
                if ch.kind != Kind::Unordered {
                    continue;
                }
                let got = l.obtained[dir][ci].len();
                let sub = l.submitted[dir][ci].len();
                if got != sub {
                    return Err(Violation::new(
                        "C02/not-delivered-after-tail",
                        format!(
                            "unordered channel {} dir {}: {} of {} submitted messages obtained after {} fault-free ticks",
                            ch.id, dir, got, sub, l.cfg.tail
                        ),
                    ));
                }
            }
        }
        Ok(())
    }
}

pub fn scenarios(tier: Tier) -> Vec<LinkScenario<fn() -> Box<dyn Probe>>> {
    let r = 300u64;
    let scripts: Vec<(&str, Vec<usize>, bool)> = vec![
        ("1+2401+1", vec![1, 2401, 1], false),
        ("1+1201", vec![1, 1201], false),
        ("2401+1", vec![2401, 1], false),
        ("0+1200+1", vec![0, 1200, 1], false),
        ("1,1201,1-per-tick", vec![1, 1201, 1], true),
        ("1,1,1,1-per-tick", vec![1, 1, 1, 1], true),
    ];
    let timings: Vec<(&str, Vec<u64>)> = vec![
        ("dt=R/3", vec![100]),
        ("dt=R", vec![300]),
        ("dt=2R", vec![600]),
        ("dt=irregular", vec![100, 150, 300, 450]),
    ];
    let mut out: Vec<LinkScenario<fn() -> Box<dyn Probe>>> = vec![];
    for (sname, lens, per_tick) in &scripts {
        for (tname, dts) in &timings {
            for dir in 0..2usize {
                let quick_keep = matches!(
                    (*sname, *tname, dir),
                    ("1+2401+1", "dt=R/3", _)
                        | ("1+1201", "dt=R", 0)
                        | ("2401+1", "dt=R/3", 1)
                        | ("0+1200+1", "dt=irregular", 0)
                        | ("1,1201,1-per-tick", "dt=R/3", 1)
                        | ("1,1,1,1-per-tick", "dt=2R", 0)
                );
                if tier == Tier::Quick && !quick_keep {
                    continue;
                }
                let mut cfg = LinkCfg::base(
                    &format!("{} {} dir{}", sname, tname, dir),
                    vec![Chan::new(0, Kind::Unordered, 100_000, r)],
                    vec![Chan::new(0, Kind::Unordered, 100_000, r)],
                );
                cfg.dt_ms = dts.clone();
                cfg.horizon = 5;
                cfg.tail = (r.div_ceil(*dts.iter().min().unwrap()) + 4) as u32;
                cfg.drains = vec![Drain::End, Drain::Skip, Drain::Each];
                cfg.script = lens
                    .iter()
                    .enumerate()
                    .map(|(i, &len)| Send {
                        tick: if *per_tick { i as u32 } else { 0 },
                        dir,
                        ch: 0,
                        len,
                    })
                    .collect();
                out.push(LinkScenario {
                    cfg,
                    probe: (|| Box::new(UnorderedProbe::new()) as Box<dyn Probe>) as fn() -> Box<dyn Probe>,
                });
            }
        }
    }
    // a sliced message larger than half of the channel budget (reservation and final size must never be
    // accounted at the same time)
    for dir in 0..2usize {
        let mut cfg = LinkCfg::base(
            &format!("budget 4000, message 2401+1 dir{}", dir),
            vec![Chan::new(0, Kind::Unordered, 4000, 300)],
            vec![Chan::new(0, Kind::Unordered, 4000, 300)],
        );
        cfg.dt_ms = vec![100];
        cfg.horizon = 4;
        cfg.tail = 8;
        cfg.script = vec![Send { tick: 0, dir, ch: 0, len: 2401 }, Send { tick: 0, dir, ch: 0, len: 1 }];
        out.push(LinkScenario {
            cfg,
            probe: (|| Box::new(UnorderedProbe::new()) as Box<dyn Probe>) as fn() -> Box<dyn Probe>,
        });
    }
    // a tick budget that the queue exceeds with mixed sizes (message ids inside one packet are not consecutive)
    for dir in 0..2usize {
        if tier == Tier::Quick && dir == 0 {
            continue;
        }
        let mut cfg = LinkCfg::base(
            &format!("2000 B per tick, 900+1200+100 dir{}", dir),
            vec![Chan::new(0, Kind::Unordered, 100_000, 300)],
            vec![Chan::new(0, Kind::Unordered, 100_000, 300)],
        );
        cfg.bytes_per_tick = 2000;
        cfg.dt_ms = vec![100];
        cfg.horizon = 4;
        cfg.tail = 10;
        cfg.script = vec![Send { tick: 0, dir, ch: 0, len: 900 }, Send { tick: 0, dir, ch: 0, len: 1200 }, Send { tick: 0, dir, ch: 0, len: 100 }];
        out.push(LinkScenario {
            cfg,
            probe: (|| Box::new(UnorderedProbe::new()) as Box<dyn Probe>) as fn() -> Box<dyn Probe>,
        });
    }
    out
}

/// scale class: `k` small messages are received and consumed while message #0 is still missing (its packets
/// are lost every time), then early packets are replayed, then the network recovers
pub fn scale_case(k: usize, kind: Kind) -> Option<Violation> {
    let mut cfg = LinkCfg::base("scale", vec![Chan::new(0, kind, 50_000_000, 300)], vec![Chan::new(0, kind, 50_000_000, 300)]);
    cfg.bytes_per_tick = 10_000_000;
    let mut l = Link::new(&cfg);
    let mut probe = UnorderedProbe::new();
    let r = (|| -> Result<(), Violation> {
        l.send(0, 0, 1)?;
        let mut sent = 1usize;
        let mut early: Vec<usize> = vec![];
        let carries0 = |l: &Link, p: usize| matches!(&l.emitted[p].info, PktInfo::SmallReliable { msgs, .. } if msgs.iter().any(|(id, _)| *id == 0));
        let mut tick = 0u32;
        while sent < k + 1 || tick < 3 {
            l.tick = tick;
            let n = (k + 1 - sent).min(300);
            for _ in 0..n {
                l.send(0, 0, 2 + (sent % 3))?;
                sent += 1;
            }
            l.update(0, 100)?;
            let first = l.flush(0)?;
            for p in first..l.emitted.len() {
                if carries0(&l, p) {
                    continue; // message #0 keeps getting lost
                }
                if early.len() < 3 {
                    early.push(p);
                }
                l.deliver(0, p)?;
            }
            l.drain(0)?;
            if kind == Kind::Unordered {
                probe.on_drain(&l, 0)?;
            }
            l.update(1, 100)?;
            let f2 = l.flush(1)?;
            for p in f2..l.emitted.len() {
                l.deliver(1, p)?;
            }
            tick += 1;
        }
        // replays of early packets: nothing may be obtained twice
        for &p in &early {
            l.deliver(0, p)?;
            l.drain(0)?;
            if kind == Kind::Unordered {
                probe.on_drain(&l, 0)?;
            }
        }
        // the network recovers
        for _ in 0..8 {
            l.lockstep_tick(100)?;
            if kind == Kind::Unordered {
                probe.on_drain(&l, 0)?;
            }
        }
        for &p in &early {
            l.deliver(0, p)?;
            l.drain(0)?;
        }
        if kind == Kind::Unordered {
            probe.on_drain(&l, 0)?;
            probe.on_end(&l)?;
        }
        let (got, sub) = (l.obtained[0][0].len(), l.submitted[0][0].len());
        if got != sub {
            return Err(Violation::new(
                if kind == Kind::Unordered { "C02/scale/not-exactly-once" } else { "C01/scale/not-exactly-once" },
                format!("{} messages submitted, {} obtained ({} received while message #0 was missing)", sub, got, k),
            ));
        }
        if kind == Kind::Ordered {
            for (i, g) in l.obtained[0][0].iter().enumerate() {
                if g.bytes != l.submitted[0][0][i] {
                    return Err(Violation::new("C01/scale/not-a-prefix", format!("position {}", i)));
                }
            }
        }
        if let Some(r) = l.ends.disconnect_reason(0).or(l.ends.disconnect_reason(1)) {
            return Err(Violation::new("C02/scale/disconnected", format!("{:?}", r)));
        }
        Ok(())
    })();
    r.err()
}

pub fn run(tier: Tier) -> i32 {
    let mut rep = Report::new("C02", tier);
    rep.rule("M2: every schedule with <= d deviations (per packet: drop/dup/delay1/delay2/dup-late; per batch: reverse; per tick: drain at end / skip / after every single arrival) over 5 ticks per scenario (script x tick length x direction) + fault-free tail; oracle: each obtained message byte-identical to a not-yet-obtained submitted one, complete messages are yielded by the next drain whatever older ids are missing, all obtained after the tail");
    rep.assume("sizes from {0,1,1200,1201,2401}; budgets ample (100 kB) so no budget disconnect is legitimate");
    let sc = scenarios(tier);
    run_link_scenarios(&mut rep, "m2", &sc, tier.pick(3, 4), tier.pick(120.0, 3000.0));
    if rep.machinery.is_none() {
        let long = super::c01::long_scenarios(Kind::Unordered, (|| Box::new(UnorderedProbe::new()) as Box<dyn Probe>) as fn() -> Box<dyn Probe>);
        super::run_link_scenarios_from(&mut rep, "m2-long", &long[..tier.pick(1, 2)], tier.pick(1, 2), tier.pick(120.0, 3000.0), 1000);
    }
    if rep.machinery.is_none() {
        let outage = super::c01::outage_scenarios(Kind::Unordered, (|| Box::new(UnorderedProbe::new()) as Box<dyn Probe>) as fn() -> Box<dyn Probe>, tier);
        super::run_link_scenarios_from(&mut rep, "m2-outage", &outage, tier.pick(2, 3), tier.pick(120.0, 3000.0), 3000);
    }
    if rep.machinery.is_none() {
        let many = super::c01::many_ranges_scenarios(Kind::Unordered, (|| Box::new(UnorderedProbe::new()) as Box<dyn Probe>) as fn() -> Box<dyn Probe>);
        super::run_link_scenarios_from(&mut rep, "m2-many-ack-ranges", &many, tier.pick(1, 2), tier.pick(120.0, 3000.0), 4000);
    }
    {
        let ks: Vec<usize> = tier.pick(vec![300, 1100, 1500, 2500], vec![255, 256, 257, 1023, 1024, 1025, 1100, 1500, 2500, 5000]);
        for &k in &ks {
            if let Some(v) = scale_case(k, Kind::Unordered) {
                rep.violation("scale", v, J::obj().set("kind", J::s("scale")).set("k", J::i(k as u64)));
            }
        }
        rep.add_sweep("scale", ks.len() as u64, ks.len() as u64, 1, vec![format!("k in {:?} messages received and consumed while message #0 is missing, early packets replayed before and after recovery", ks)]);
    }
    if rep.machinery.is_none() {
        rep.rule("M1 (API soup): every interleaving up to depth D of send / update / flush / deliver / drop / duplicate / receive with <= 3 packets in flight per direction on an unordered channel; at-most-once + provenance after every call, completeness probe on a clone in every state");
        super::soup::run_soup(&mut rep, tier, "soup", Kind::Unordered, super::soup::O_UNORDERED, &["C02/"]);
    }
    rep.finish()
}

pub fn replay(j: &J) -> i32 {
    let tier = match j.get("tier").and_then(|t| t.as_str()) {
        Some("thorough") => Tier::Thorough,
        _ => Tier::Quick,
    };
    if j.get("kind").and_then(|k| k.as_str()) == Some("trace") {
        return super::soup::replay_soup(j, Kind::Unordered, super::soup::O_UNORDERED);
    }
    if j.get("kind").and_then(|k| k.as_str()) == Some("scale") {
        let k = j.get("k").and_then(|x| x.as_i()).unwrap_or(1100) as usize;
        println!("scale case: {} messages while message #0 is missing", k);
        return match scale_case(k, Kind::Unordered) {
            Some(v) => {
                println!("RESULT: violation {} — {}", v.signature, v.message);
                1
            }
            None => {
                println!("RESULT: no violation");
                0
            }
        };
    }
    if j.get("scenario_index").and_then(|x| x.as_i()).unwrap_or(0) >= 4000 {
        let many = super::c01::many_ranges_scenarios(Kind::Unordered, (|| Box::new(UnorderedProbe::new()) as Box<dyn Probe>) as fn() -> Box<dyn Probe>);
        return super::replay_link_from(&many, j, 4000);
    }
    if j.get("scenario_index").and_then(|x| x.as_i()).unwrap_or(0) >= 3000 {
        let outage = super::c01::outage_scenarios(Kind::Unordered, (|| Box::new(UnorderedProbe::new()) as Box<dyn Probe>) as fn() -> Box<dyn Probe>, tier);
        return super::replay_link_from(&outage, j, 3000);
    }
    if j.get("scenario_index").and_then(|x| x.as_i()).unwrap_or(0) >= 1000 {
        let long = super::c01::long_scenarios(Kind::Unordered, (|| Box::new(UnorderedProbe::new()) as Box<dyn Probe>) as fn() -> Box<dyn Probe>);
        return super::replay_link_from(&long, j, 1000);
    }
    replay_link(&scenarios(tier), j)
}
