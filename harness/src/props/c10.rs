//! C10 — Netcode connection table: unique ids, unique addresses, bounded by max_clients.

use super::hsworld::{c10_fix, describe, HsWorld};
use crate::explore::{self, DfsCfg, World};
use crate::json::J;
use crate::report::{Report, Tier};

pub fn run(tier: Tier) -> i32 {
    let mut rep = Report::new("C10", tier);
    rep.rule("M1 (handshake world, table-centred): every sequence up to depth D of {request(i), response(i, any issued challenge), genuine disconnect packet of i, genuine payload of i, server.disconnect(id), time-out tick (update 6 s + update_client for all), set_max_clients 1/2/3} for identities (id 1 @a0), (id 2 @a1), (second token for id 2 @a2), (id 3 token also @a0), servers built with max_clients 1 and 2; oracle in every state: connected ids pairwise distinct, addresses pairwise distinct, count <= limit unless lowered, clients_id() equals what the Connected/Disconnected events imply, client_addr / user_data / payload attribution refer to the session authenticated for that id, every ClientDisconnected names a connected id with its address, a denied handshake leaves the connected table untouched");
    rep.assume("identities send from fixed addresses; responses may echo any challenge issued to any identity");
    let d = tier.pick(7, 10);
    for (k, m) in [1usize, 2].into_iter().enumerate() {
        let w = HsWorld::new(c10_fix(m));
        let cfg = DfsCfg { depth: d, threads: explore::threads(), wall_cap_s: tier.pick(100.0, 1500.0), max_signatures: 8 };
        let mut r = explore::dfs(&w, &cfg);
        rep.vac("states_with_a_connection", (r.flags_seen & 1 != 0) as u64);
        rep.vac("states_after_a_disconnect_event", (r.flags_seen & 2 != 0) as u64);
        rep.vac("payload_attributed", (r.flags_seen & 4 != 0) as u64);
        rep.vac("denials_seen", (r.flags_seen & 8 != 0) as u64);
        rep.vac("timeout_ticks", (r.flags_seen & 16 != 0) as u64);
        r.found.retain(|f| f.violation.signature.starts_with("C10/") || f.violation.signature.starts_with("panic/"));
        rep.add_dfs(&format!("max_clients={}", m), k, d, &r);
    }
    // from a non-initial state: three clients connected on a 3-slot server
    {
        let d3 = tier.pick(5, 7);
        let w = HsWorld::new(super::hsworld::c10_prebuilt_fix());
        let cfg = DfsCfg { depth: d3, threads: explore::threads(), wall_cap_s: tier.pick(100.0, 1500.0), max_signatures: 8 };
        let mut r = explore::dfs(&w, &cfg);
        r.found.retain(|f| f.violation.signature.starts_with("C10/") || f.violation.signature.starts_with("panic/"));
        rep.add_dfs("three-clients-connected-on-3-slots", 2, d3, &r);
    }
    // scale class: large connection tables (slot and index arithmetic beyond one byte, the 1024-client maximum)
    {
        let sizes: Vec<usize> = tier.pick(vec![255, 256, 257, 1024], vec![2, 64, 255, 256, 257, 300, 511, 512, 513, 1000, 1023, 1024]);
        let res = explore::par_cases(sizes.len(), |i| table_scale_case(sizes[i]));
        let mut steps = 0u64;
        for (i, r) in res.into_iter().enumerate() {
            match r {
                Ok(n) => steps += n,
                Err(v) => rep.violation("large-table", v, J::obj().set("kind", J::s("large-table")).set("max_clients", J::i(sizes[i] as u64))),
            }
        }
        rep.add_sweep("large-table", sizes.len() as u64, sizes.len() as u64, sizes.len() as u64, vec![format!("servers with max_clients in {:?}: filled by real clients, one more denied, payload routing both ways for every client, keep-alive rounds, one kicked and replaced, one silent until it times out ({} library calls)", sizes, steps)]);
        rep.transitions += steps;
    }
    // configuration class: limit changed at run time, overlapping handshakes for the last places
    {
        let cases = limit_change_cases(tier);
        let res = explore::par_cases(cases.len(), |i| limit_change_case(cases[i].0, &cases[i].1, cases[i].2, cases[i].3, cases[i].4));
        let mut steps = 0u64;
        for (i, r) in res.into_iter().enumerate() {
            match r {
                Ok(n) => steps += n,
                Err(v) => rep.violation("limit-change", v, J::obj().set("kind", J::s("limit-change")).set("case", J::i(i as u64))),
            }
        }
        rep.add_sweep("limit-change", cases.len() as u64, cases.len() as u64, cases.len() as u64, vec![format!("{} (initial limit, set_max_clients sequence, clients connected first, clients with overlapping handshakes, response order) cases, e.g. {:?}: never more than the limit, exactly the limit when enough came, table consistent ({} library calls)", cases.len(), cases[1], steps)]);
        rep.transitions += steps;
    }
    rep.finish()
}

/// Fills a server with `max` real clients and checks the table clauses at that size. Returns the number of library calls.
pub fn table_scale_case(max: usize) -> Result<u64, crate::explore::Violation> {
    use crate::explore::Violation;
    use crate::nc::{self, make_token_wide, new_client, new_server, server_addr, user_data_wide, wide_addr, TokenSpec, SR};
    use std::time::Duration;
    let public = vec![server_addr(0)];
    let mut server = new_server(max, public.clone(), Duration::ZERO);
    let mut steps = 0u64;
    let dt = Duration::from_millis(250);
    let id_of = |k: usize| 10_000u64 + 7 * k as u64;
    let mk = |k: usize| {
        let mut sp = TokenSpec::new(id_of(k), 0, public.clone());
        sp.expire = 600;
        sp.timeout = 5;
        make_token_wide(&sp, k as u32)
    };
    let bad = |sig: &str, msg: String| Violation::new(format!("C10/large-table/{}", sig), format!("max_clients {}: {}", max, msg));
    let mut clients = vec![];
    // handshake of client k; returns the server's verdict on the response
    let handshake = |server: &mut renetcode::NetcodeServer, k: usize, steps: &mut u64| -> Result<(renetcode::NetcodeClient, SR), Violation> {
        let mut c = new_client(Duration::ZERO, &mk(k));
        let addr = wide_addr(k as u32);
        let (req, _) = nc::cli_update(&mut c, dt)?.ok_or_else(|| bad("client-silent", format!("client {} produced no request", k)))?;
        let r1 = nc::srv_process(server, addr, &req)?;
        *steps += 2;
        let Some((to, bytes)) = r1.reply() else { return Ok((c, r1)) };
        if to != addr {
            return Err(bad("reply-to-wrong-address", format!("reply for client {} went to {}", k, to)));
        }
        nc::cli_process(&mut c, bytes)?;
        if !c.is_connecting() {
            return Ok((c, r1));
        }
        let (resp, _) = nc::cli_update(&mut c, dt)?.ok_or_else(|| bad("client-silent", format!("client {} produced no response", k)))?;
        let r2 = nc::srv_process(server, addr, &resp)?;
        *steps += 3;
        if let Some((to, bytes)) = r2.reply() {
            if to != addr {
                return Err(bad("reply-to-wrong-address", format!("reply for client {} went to {}", k, to)));
            }
            nc::cli_process(&mut c, bytes)?;
        }
        Ok((c, r2))
    };
    let check_table = |server: &renetcode::NetcodeServer, expect: &[usize], what: &str| -> Result<(), Violation> {
        let mut ids = server.clients_id();
        ids.sort();
        let mut want: Vec<u64> = expect.iter().map(|&k| id_of(k)).collect();
        want.sort();
        if ids != want {
            let missing: Vec<u64> = want.iter().filter(|x| !ids.contains(x)).copied().take(5).collect();
            let extra: Vec<u64> = ids.iter().filter(|x| !want.contains(x)).copied().take(5).collect();
            return Err(bad("table-disagrees-with-reported-events", format!("{}: {} ids listed, {} expected; missing {:?} unexpected {:?}", what, ids.len(), want.len(), missing, extra)));
        }
        if server.connected_clients() != want.len() {
            return Err(bad("connected_clients-disagrees", format!("{}: {} vs {}", what, server.connected_clients(), want.len())));
        }
        for &k in expect {
            if server.client_addr(id_of(k)) != Some(wide_addr(k as u32)) {
                return Err(bad("lookup-by-id-wrong-address", format!("{}: client_addr({}) = {:?}, session was authenticated from {}", what, id_of(k), server.client_addr(id_of(k)), wide_addr(k as u32))));
            }
            if server.user_data(id_of(k)) != Some(user_data_wide(k as u32)) {
                return Err(bad("lookup-by-id-wrong-user-data", format!("{}: user_data({}) is not what the token of that id sealed", what, id_of(k))));
            }
        }
        Ok(())
    };
    for k in 0..max {
        let (c, r) = handshake(&mut server, k, &mut steps)?;
        match &r {
            SR::Connected { client_id, addr, user_data, .. } => {
                if *client_id != id_of(k) || *addr != wide_addr(k as u32) || **user_data != user_data_wide(k as u32) {
                    return Err(bad("connected-event-names-wrong-session", format!("handshake of client {} (id {}) reported id {} at {}", k, id_of(k), client_id, addr)));
                }
            }
            other => return Err(bad("room-but-not-connected", format!("client {} of {} got {} on its response", k, max, other.kind()))),
        }
        if !c.is_connected() {
            return Err(bad("room-but-not-connected", format!("client {} not connected after the server's keep-alive", k)));
        }
        clients.push(c);
    }
    let all: Vec<usize> = (0..max).collect();
    check_table(&server, &all, "after filling")?;
    // one more: refused, nothing disturbed
    {
        let (c, r) = handshake(&mut server, max, &mut steps)?;
        if matches!(r, SR::Connected { .. }) || server.connected_clients() > max {
            return Err(bad("more-than-max_clients", format!("client number {} was accepted", max + 1)));
        }
        let _ = c;
        check_table(&server, &all, "after the refused handshake")?;
    }
    // payload routing both ways, every client
    for k in 0..max {
        let body = format!("to-{}", k).into_bytes();
        let s = &mut server;
        let out = crate::link::guard("NetcodeServer::generate_payload_packet", || s.generate_payload_packet(id_of(k), &body).map(|(a, p)| (a, p.to_vec())).ok())?;
        let Some((a, p)) = out else { return Err(bad("payload-for-connected-id-refused", format!("client {}", k))) };
        if a != wide_addr(k as u32) {
            return Err(bad("payload-routed-to-wrong-address", format!("payload for id {} addressed to {}", id_of(k), a)));
        }
        if nc::cli_process(&mut clients[k], &p)? != Some(body.clone()) {
            return Err(bad("payload-sealed-for-wrong-session", format!("client {} could not open the payload generated for its id", k)));
        }
        let up = format!("from-{}", k).into_bytes();
        let c = &mut clients[k];
        let (_, q) = crate::link::guard("NetcodeClient::generate_payload_packet", || c.generate_payload_packet(&up).map(|(a, p)| (a, p.to_vec())).ok())?.ok_or_else(|| bad("client-cannot-send", format!("client {}", k)))?;
        match nc::srv_process(&mut server, wide_addr(k as u32), &q)? {
            SR::Payload { client_id, bytes } if client_id == id_of(k) && bytes == up => {}
            other => return Err(bad("payload-attributed-to-wrong-id", format!("payload of client {} (id {}) surfaced as {:?}", k, id_of(k), other.kind()))),
        }
        steps += 4;
    }
    // keep-alive rounds; client 3 % max goes silent and must be the only one to time out (5 s)
    let silent = 3 % max;
    let kicked = max / 2;
    let mut present: Vec<usize> = all.clone();
    let mut replaced = false;
    for round in 0..26u32 {
        server.update(dt);
        for &k in &present.clone() {
            let r = nc::srv_update_client(&mut server, id_of(k))?;
            steps += 1;
            match &r {
                SR::Send { addr, bytes } => {
                    if *addr != wide_addr(k as u32) {
                        return Err(bad("keep-alive-to-wrong-address", format!("keep-alive for id {} addressed to {}", id_of(k), addr)));
                    }
                    nc::cli_process(&mut clients[k], bytes)?;
                }
                SR::Disconnected { client_id, addr, .. } => {
                    if k != silent || round < 19 {
                        return Err(bad("live-client-timed-out", format!("round {}: client {} (id {}) was disconnected by update_client", round, k, id_of(k))));
                    }
                    if *client_id != id_of(k) || *addr != wide_addr(k as u32) {
                        return Err(bad("disconnect-event-names-wrong-session", format!("time-out of client {} reported id {} at {}", k, client_id, addr)));
                    }
                    present.retain(|x| *x != k);
                }
                SR::None => {}
                other => return Err(bad("unexpected-result", format!("update_client gave {}", other.kind()))),
            }
        }
        for &k in &present.clone() {
            if k == silent && round >= 1 {
                continue;
            }
            if let Some((p, _)) = nc::cli_update(&mut clients[k], dt)? {
                let r = nc::srv_process(&mut server, wide_addr(k as u32), &p)?;
                steps += 2;
                if !matches!(r, SR::None) {
                    return Err(bad("unexpected-result", format!("keep-alive of client {} gave {}", k, r.kind())));
                }
            }
            if !clients[k].is_connected() {
                return Err(bad("live-client-timed-out", format!("round {}: client {} is no longer connected on its side", round, k)));
            }
        }
        if round == 4 && max >= 2 {
            // kick one in the middle, its slot goes to a newcomer
            let s = &mut server;
            let r = crate::link::guard("NetcodeServer::disconnect", || nc::own(s.disconnect(id_of(kicked))))?;
            match &r {
                SR::Disconnected { client_id, addr, .. } if *client_id == id_of(kicked) && *addr == wide_addr(kicked as u32) => {}
                other => return Err(bad("disconnect-event-names-wrong-session", format!("disconnect({}) reported {:?}", id_of(kicked), other.kind()))),
            }
            present.retain(|x| *x != kicked);
            check_table(&server, &present, "after disconnect(id)")?;
            let (c, r) = handshake(&mut server, max + 1, &mut steps)?;
            if !matches!(r, SR::Connected { client_id, .. } if client_id == id_of(max + 1)) || !c.is_connected() {
                return Err(bad("room-but-not-connected", format!("a slot was freed but the newcomer got {}", r.kind())));
            }
            // index bookkeeping: clients is indexed by k; park the newcomer at max + 1
            while clients.len() < max + 1 {
                clients.push(new_client(Duration::ZERO, &mk(max)));
            }
            clients.push(c);
            present.push(max + 1);
            replaced = true;
            check_table(&server, &present, "after the newcomer took the freed slot")?;
        }
    }
    if present.contains(&silent) && silent != kicked {
        return Err(bad("silent-client-not-timed-out", format!("client {} sent nothing for 6 s (time-out 5 s) and is still in the table", silent)));
    }
    let _ = replaced;
    check_table(&server, &present, "at the end")?;
    Ok(steps)
}

/// Configuration class: the limit is changed at run time (raised step by step through `steps`), `pre` clients are
/// connected one after the other, then `extra` more clients run *overlapping* handshakes (all requests first, then all
/// responses, in the given order). Never more than the limit connected, exactly the limit when enough clients came,
/// ids and lookups consistent, the losers are refused.
pub fn limit_change_case(base: usize, steps: &[usize], pre: usize, extra: usize, reverse_responses: bool) -> Result<u64, crate::explore::Violation> {
    use crate::explore::Violation;
    use crate::nc::{self, make_token_wide, new_client, new_server, server_addr, wide_addr, TokenSpec, SR};
    use std::time::Duration;
    let public = vec![server_addr(0)];
    let mut server = new_server(base, public.clone(), Duration::ZERO);
    let dt = Duration::from_millis(250);
    let id_of = |k: usize| 20_000u64 + 3 * k as u64;
    let mk = |k: usize| {
        let mut sp = TokenSpec::new(id_of(k), 0, public.clone());
        sp.expire = 600;
        sp.timeout = 5;
        make_token_wide(&sp, k as u32)
    };
    let bad = |sig: &str, msg: String| Violation::new(format!("C10/limit-change/{}", sig), format!("max_clients {} then {:?}, {} connected first, {} overlapping: {}", base, steps, pre, extra, msg));
    let mut calls = 0u64;
    let mut limit = base;
    let mut lowered = false;
    for &l in steps {
        let s = &mut server;
        match crate::link::guard("NetcodeServer::set_max_clients", || s.set_max_clients(l)) {
            Ok(()) => {}
            // the constructor rejects limits above 1024 by contract (panic); a set_max_clients that does the same
            // instead of clamping is outside what the property speaks about: the case does not apply
            Err(_) if l > 1024 => return Ok(calls),
            Err(v) => return Err(v),
        }
        // a request above the library's maximum (NETCODE_MAX_CLIENTS = 1024) is outside the contract: the library
        // clamps it; a variant that refuses it and keeps the old limit is just as good. Whatever max_clients() says
        // afterwards is the limit the rest of the case holds the server to, as long as it is a legal one.
        let l = if l > 1024 {
            let now = server.max_clients();
            if now > 1024 {
                return Err(bad("max_clients-getter", format!("max_clients() = {} after set_max_clients({}), the maximum is 1024", now, l)));
            }
            now
        } else {
            l
        };
        if l < limit {
            lowered = true;
        }
        limit = l;
        calls += 1;
    }
    if server.max_clients() != limit {
        return Err(bad("max_clients-getter", format!("max_clients() = {} after set_max_clients({})", server.max_clients(), limit)));
    }
    let mut connected: Vec<usize> = vec![];
    let mut clients: Vec<renetcode::NetcodeClient> = vec![];
    let mut challenged: Vec<(usize, Vec<u8>)> = vec![];
    let check = |server: &renetcode::NetcodeServer, connected: &[usize], what: &str| -> Result<(), Violation> {
        let mut ids = server.clients_id();
        ids.sort();
        let mut want: Vec<u64> = connected.iter().map(|&k| id_of(k)).collect();
        want.sort();
        if ids != want {
            return Err(bad("table-disagrees-with-reported-events", format!("{}: clients_id() = {:?}, events imply {:?}", what, ids, want)));
        }
        if !lowered && ids.len() > limit {
            return Err(bad("more-than-max_clients", format!("{}: {} clients connected, max_clients is {}", what, ids.len(), limit)));
        }
        for &k in connected {
            if server.client_addr(id_of(k)) != Some(wide_addr(k as u32)) {
                return Err(bad("lookup-by-id-wrong-address", format!("{}: client_addr({}) = {:?}", what, id_of(k), server.client_addr(id_of(k)))));
            }
        }
        Ok(())
    };
    // sequential part and request phase of the overlapping part
    for k in 0..pre + extra {
        let mut c = new_client(Duration::ZERO, &mk(k));
        let addr = wide_addr(k as u32);
        let (req, _) = nc::cli_update(&mut c, dt)?.ok_or_else(|| bad("client-silent", format!("client {} produced no request", k)))?;
        let r1 = nc::srv_process(&mut server, addr, &req)?;
        calls += 2;
        let room = connected.len() < limit;
        match r1.reply() {
            Some((_, bytes)) => {
                nc::cli_process(&mut c, bytes)?;
            }
            None => {
                if room {
                    return Err(bad("room-but-request-ignored", format!("request of client {} got {} with {} of {} connected", k, r1.kind(), connected.len(), limit)));
                }
            }
        }
        if let Some((resp, _)) = if c.is_connecting() { nc::cli_update(&mut c, dt)? } else { None } {
            if k < pre {
                let r2 = nc::srv_process(&mut server, addr, &resp)?;
                calls += 1;
                match &r2 {
                    SR::Connected { client_id, bytes, .. } => {
                        if *client_id != id_of(k) {
                            return Err(bad("connected-event-names-wrong-session", format!("client {} reported as id {}", k, client_id)));
                        }
                        nc::cli_process(&mut c, bytes)?;
                        connected.push(k);
                    }
                    other => {
                        if room {
                            return Err(bad("room-but-not-connected", format!("client {} got {} on its response with {} of {} connected", k, other.kind(), connected.len(), limit)));
                        }
                    }
                }
                check(&server, &connected, "sequential part")?;
            } else {
                challenged.push((k, resp));
            }
        }
        clients.push(c);
    }
    if reverse_responses {
        challenged.reverse();
    }
    for (k, resp) in &challenged {
        let room = connected.len() < limit;
        let r2 = nc::srv_process(&mut server, wide_addr(*k as u32), resp)?;
        calls += 1;
        match &r2 {
            SR::Connected { client_id, .. } => {
                if *client_id != id_of(*k) {
                    return Err(bad("connected-event-names-wrong-session", format!("client {} reported as id {}", k, client_id)));
                }
                connected.push(*k);
            }
            other => {
                if room {
                    return Err(bad("room-but-not-connected", format!("client {} got {} on its response with {} of {} connected", k, other.kind(), connected.len(), limit)));
                }
            }
        }
        check(&server, &connected, "overlapping responses")?;
    }
    if !lowered && pre + extra >= limit && connected.len() != limit {
        return Err(bad("room-but-not-connected", format!("{} clients tried, {} connected, limit {}", pre + extra, connected.len(), limit)));
    }
    Ok(calls)
}

pub fn limit_change_cases(tier: Tier) -> Vec<(usize, Vec<usize>, usize, usize, bool)> {
    let mut out = vec![];
    let bases: Vec<usize> = tier.pick(vec![1, 2, 3, 5], vec![1, 2, 3, 4, 5, 7, 8, 16]);
    for &b in &bases {
        let ups: Vec<usize> = tier.pick((b + 1..=b + 5).chain([17, 33]).collect(), (b + 1..=b + 18).chain([33, 65, 100, 129]).collect());
        for &n in &ups {
            for rev in [false, true] {
                // everything overlapping; all but one place taken first; half taken first
                out.push((b, vec![n], 0, n + 2, rev));
                out.push((b, vec![n], n - 1, 3, rev));
                out.push((b, vec![n], n / 2, n, rev));
            }
            // lobby filling up: raised one by one
            out.push((b, (b + 1..=n).collect(), n - 1, 3, false));
            // raised, lowered to the old value, raised again
            out.push((b, vec![n, b, n], b, n, false));
        }
    }
    // a limit requested above the library's maximum of 1024 (clamped): the last places are contested by overlapping handshakes
    for &(b, n) in &[(4usize, 1025usize), (4, 1500), (1000, 4096), (1024, 2000)] {
        for rev in [false, true] {
            out.push((b, vec![n], 1023, 3, rev));
        }
    }
    out.push((2, vec![1025, 3000], 1022, 4, false));
    out
}

pub fn replay(j: &J) -> i32 {
    if j.get("kind").and_then(|k| k.as_str()) == Some("large-table") {
        let m = j.get("max_clients").and_then(|x| x.as_i()).unwrap_or(256) as usize;
        println!("large table case: max_clients {}", m);
        return match table_scale_case(m) {
            Err(v) => {
                println!("RESULT: violation {} — {}", v.signature, v.message);
                1
            }
            Ok(_) => {
                println!("RESULT: no violation");
                0
            }
        };
    }
    if j.get("kind").and_then(|k| k.as_str()) == Some("limit-change") {
        let tier = match j.get("tier").and_then(|t| t.as_str()) {
            Some("thorough") => Tier::Thorough,
            _ => Tier::Quick,
        };
        let cases = limit_change_cases(tier);
        let i = j.get("case").and_then(|x| x.as_i()).unwrap_or(0) as usize;
        let Some(c) = cases.get(i) else { return 2 };
        println!("limit change case: {:?}", c);
        return match limit_change_case(c.0, &c.1, c.2, c.3, c.4) {
            Err(v) => {
                println!("RESULT: violation {} — {}", v.signature, v.message);
                1
            }
            Ok(_) => {
                println!("RESULT: no violation");
                0
            }
        };
    }
    let idx = j.get("scenario_index").and_then(|x| x.as_i()).unwrap_or(0) as usize;
    let mut w = HsWorld::new(if idx == 2 { super::hsworld::c10_prebuilt_fix() } else { c10_fix(idx + 1) });
    let acts: Vec<usize> = j
        .get("actions")
        .and_then(|a| a.as_arr())
        .map(|a| a.iter().filter_map(|x| x.as_i()).map(|x| x as usize).collect())
        .unwrap_or_default();
    for ai in acts {
        let al = w.actions();
        let Some(a) = al.get(ai) else {
            eprintln!("MACHINERY ERROR: divergence");
            return 2;
        };
        println!("  {}", describe(&w.fx, a));
        match w.step(a) {
            Err(v) if v.signature.starts_with("C10/") || v.signature.starts_with("panic/") => {
                println!("RESULT: violation {} — {}", v.signature, v.message);
                return 1;
            }
            _ => {}
        }
    }
    println!("RESULT: no violation");
    0
}
