//! C10 — Netcode connection table: unique ids, unique addresses, bounded by max_clients.

use super::hsworld::{c10_fix, describe, HsWorld};
use crate::explore::{self, DfsCfg, World};
use crate::json::J;
use crate::report::{Report, Tier};

pub fn run(tier: Tier) -> i32 {
    let mut rep = Report::new("C10", tier);
    rep.rule("M1 (handshake world, table-centred): every sequence up to depth D of {request(i), response(i, any issued challenge), genuine disconnect packet of i, genuine payload of i, server.disconnect(id), time-out tick (update 6 s + update_client for all), set_max_clients 1/2/3} for identities (id 1 @a0), (id 2 @a1), (second token for id 2 @a2), (id 3 token also @a0), servers built with max_clients 1 and 2; oracle in every state: connected ids pairwise distinct, addresses pairwise distinct, count <= limit unless lowered, clients_id() equals what the Connected/Disconnected events imply, client_addr / user_data / payload attribution refer to the session authenticated for that id, every ClientDisconnected names a connected id with its address, a denied handshake leaves the connected table untouched");
    rep.assume("identities send from fixed addresses; responses may echo any challenge issued to any identity");
    let d = tier.pick(7, 10);
    for (k, m) in [1usize, 2].into_iter().enumerate() {
        let w = HsWorld::new(c10_fix(m));
        let cfg = DfsCfg { depth: d, threads: explore::threads(), wall_cap_s: tier.pick(100.0, 1500.0), max_signatures: 8 };
        let mut r = explore::dfs(&w, &cfg);
        rep.vac("states_with_a_connection", (r.flags_seen & 1 != 0) as u64);
        rep.vac("states_after_a_disconnect_event", (r.flags_seen & 2 != 0) as u64);
        rep.vac("payload_attributed", (r.flags_seen & 4 != 0) as u64);
        rep.vac("denials_seen", (r.flags_seen & 8 != 0) as u64);
        rep.vac("timeout_ticks", (r.flags_seen & 16 != 0) as u64);
        r.found.retain(|f| f.violation.signature.starts_with("C10/") || f.violation.signature.starts_with("panic/"));
        rep.add_dfs(&format!("max_clients={}", m), k, d, &r);
    }
    // from a non-initial state: three clients connected on a 3-slot server
    {
        let d3 = tier.pick(5, 7);
        let w = HsWorld::new(super::hsworld::c10_prebuilt_fix());
        let cfg = DfsCfg { depth: d3, threads: explore::threads(), wall_cap_s: tier.pick(100.0, 1500.0), max_signatures: 8 };
        let mut r = explore::dfs(&w, &cfg);
        r.found.retain(|f| f.violation.signature.starts_with("C10/") || f.violation.signature.starts_with("panic/"));
        rep.add_dfs("three-clients-connected-on-3-slots", 2, d3, &r);
    }
    rep.finish()
}

pub fn replay(j: &J) -> i32 {
    let idx = j.get("scenario_index").and_then(|x| x.as_i()).unwrap_or(0) as usize;
    let mut w = HsWorld::new(if idx == 2 { super::hsworld::c10_prebuilt_fix() } else { c10_fix(idx + 1) });
    let acts: Vec<usize> = j
        .get("actions")
        .and_then(|a| a.as_arr())
        .map(|a| a.iter().filter_map(|x| x.as_i()).map(|x| x as usize).collect())
        .unwrap_or_default();
    for ai in acts {
        let al = w.actions();
        let Some(a) = al.get(ai) else {
            eprintln!("MACHINERY ERROR: divergence");
            return 2;
        };
        println!("  {}", describe(&w.fx, a));
        match w.step(a) {
            Err(v) if v.signature.starts_with("C10/") || v.signature.starts_with("panic/") => {
                println!("RESULT: violation {} — {}", v.signature, v.message);
                return 1;
            }
            _ => {}
        }
    }
    println!("RESULT: no violation");
    0
}
