//! C13 — Every produced packet fits its carrier: renet <= 1300 B, netcode <= 1400 B.

use super::ackworld;
use super::{run_link_scenarios, LinkScenario};
use crate::explore::{self, h64, Violation};
use crate::json::J;
use crate::link::{Chan, Kind, Link, LinkCfg, Probe, Send};
use crate::report::{Report, Tier};
use renet::DisconnectReason;

pub struct SizeProbe;

fn check_sizes(l: &Link, first: usize) -> Result<(), Violation> {
    for p in &l.emitted[first..] {
        if p.bytes.len() > 1300 {
            return Err(Violation::new(
                "C13/renet-packet-over-1300",
                format!("endpoint {} tick {}: get_packets_to_send returned a packet of {} bytes ({:?})", p.dir, l.tick, p.bytes.len(), p.info),
            ));
        }
    }
    for e in 0..2 {
        if let Some(DisconnectReason::PacketSerialization(err)) = l.ends.disconnect_reason(e) {
            return Err(Violation::new(
                "C13/packet-serialization-failed",
                format!("endpoint {} tick {}: disconnected with PacketSerialization({:?})", e, l.tick, err),
            ));
        }
    }
    Ok(())
}

impl Probe for SizeProbe {
    fn on_flush(&mut self, l: &Link, _dir: usize, first: usize) -> Result<(), Violation> {
        check_sizes(l, first)
    }
}

const CLASSES: [u64; 8] = [0, 63, 64, 16_383, 16_384, (1 << 30) - 1, 1 << 30, (1 << 62) - 300];

#[derive(Clone, Debug)]
pub struct PackCase {
    pub kind: Kind,
    pub lens: Vec<usize>,
    pub seq0: u64,
    pub id0: u64,
}

pub fn pack_cases(tier: Tier) -> Vec<PackCase> {
    let mut out = vec![];
    let lens: Vec<usize> = (1188..=1201).collect();
    for kind in [Kind::Ordered, Kind::Unreliable] {
        for &seq0 in &CLASSES {
            for &id0 in &CLASSES {
                for &a in &lens {
                    for &b in &lens {
                        if tier == Tier::Quick {
                            out.push(PackCase { kind, lens: vec![a, b], seq0, id0 });
                        } else {
                            for &c in &[1usize, 1188, 1190, 1195, 1199, 1200, 1201] {
                                out.push(PackCase { kind, lens: vec![a, b, c], seq0, id0 });
                            }
                        }
                    }
                }
                // many small messages and long sliced messages (slice index / count varint classes)
                // message-count classes per packet (255 / 256 / 257 / several hundred tiny messages in one tick)
                let many: Vec<Vec<usize>> = if seq0 == 0 && (id0 == 0 || id0 == 16_384) {
                    vec![vec![1usize; 255], vec![1usize; 256], vec![1usize; 257], vec![0usize; 600], vec![2usize; 300], vec![0usize; 1000]]
                } else {
                    vec![]
                };
                for lens in many {
                    out.push(PackCase { kind, lens, seq0, id0 });
                }
                // small and sliced messages mixed in one flush: every ordered triple over a size alphabet that spans
                // both sides of the slice threshold (open small-message packets around slice packets)
                if seq0 == id0 && (seq0 == 0 || seq0 == 16_384) {
                    let mixed = [1usize, 100, 600, 650, 700, 1100, 1188, 1200, 1201, 2000, 2401, 3601];
                    for &a in &mixed {
                        for &b in &mixed {
                            for &c in &mixed {
                                out.push(PackCase { kind, lens: vec![a, b, c], seq0, id0 });
                            }
                        }
                    }
                }
                // fill sweep: two messages of `a` bytes and a third of every length 1..=1300, with the packet sequence
                // crossing a varint width boundary between the packets of one flush (a size budget computed once per
                // flush, or from a neighbouring packet's header, shows as a packet of 1301+ bytes for a few values of b)
                if id0 == 0 || (tier == Tier::Thorough && id0 == 16_384) {
                    for &a in tier.pick(&[1000usize][..], &[400usize, 700, 1000][..]) {
                        for b in 1..=1300usize {
                            for s in [seq0.saturating_sub(1), seq0] {
                                if seq0 == 63 || seq0 == 16_383 || seq0 == (1 << 30) - 1 {
                                    out.push(PackCase { kind, lens: vec![a, a, b], seq0: s, id0 });
                                }
                            }
                        }
                    }
                }
                // fill sweep across slices: a small message, a sliced one (its slice packets leave first and carry the
                // packet sequence across a width boundary while the small-message packet is still open), then a small
                // message of every length: a size budget fixed when the small-message packet was opened is stale by then
                if id0 == 0 && (seq0 == 64 || seq0 == 16_384 || seq0 == 1 << 30) {
                    for &(a, sl) in &[(100usize, 6000usize), (1usize, 2401usize)] {
                        for b in 1..=1300usize {
                            for back in 0..=7u64 {
                                out.push(PackCase { kind, lens: vec![a, sl, b], seq0: seq0 - back, id0 });
                            }
                        }
                    }
                }
                for lens in [vec![0usize; 40], vec![1usize; 70], vec![62, 63, 64, 65, 1100], vec![76_800], vec![84_000, 1], vec![1201, 1200, 1199, 2401]] {
                    out.push(PackCase { kind, lens, seq0, id0 });
                }
            }
        }
    }
    out
}

pub fn run_pack(c: &PackCase) -> (u64, Option<Violation>) {
    let ch = Chan::new(0, c.kind, 400_000, 300);
    let mut cfg = LinkCfg::base("pack", vec![ch.clone()], vec![ch]);
    cfg.bytes_per_tick = 1_000_000;
    cfg.seq0 = Some(c.seq0);
    cfg.msg_id0 = Some(c.id0);
    cfg.script = c.lens.iter().map(|&l| Send::at(0, 0, 0, l)).collect();
    let mut l = Link::new(&cfg);
    let r = (|| -> Result<(), Violation> {
        for s in &cfg.script {
            l.send(0, 0, s.len)?;
        }
        l.update(0, 100)?;
        let first = l.flush(0)?;
        check_sizes(&l, first)?;
        // the peer must be able to read what was produced: deliver, drain, compare
        for p in first..l.emitted.len() {
            l.deliver(0, p)?;
        }
        l.drain(0)?;
        if let Some(r) = l.ends.disconnect_reason(1) {
            return Err(Violation::new(
                format!("C13/peer-rejects-produced-packet/{}", super::c01::reason_class(&r)),
                format!("the receiving endpoint disconnected with {:?} on packets produced by the sender", r),
            ));
        }
        if l.obtained[0][0].len() != l.submitted[0][0].len() {
            return Err(Violation::new(
                "C13/produced-packets-do-not-carry-all-messages",
                format!("{} of {} messages arrived on a lossless network", l.obtained[0][0].len(), l.submitted[0][0].len()),
            ));
        }
        // the receiver's ack packet as well
        l.update(1, 100)?;
        let f2 = l.flush(1)?;
        check_sizes(&l, f2)
    })();
    let sizes: Vec<usize> = l.emitted.iter().map(|e| e.bytes.len()).collect();
    (h64(&sizes), r.err())
}

/// ack packets for pending sets of n ranges with a given spacing and arrival order
pub fn ack_shapes(tier: Tier) -> Vec<(usize, u64, &'static str)> {
    let mut v = vec![];
    let ns: Vec<usize> = tier.pick(vec![1, 2, 63, 64, 65, 100, 150, 200], vec![1, 2, 3, 32, 63, 64, 65, 66, 100, 144, 145, 150, 156, 160, 200, 400]);
    for &n in &ns {
        for sp in [2u64, 64, 16_384, 1 << 30, 1 << 31, 1 << 55] {
            for order in ["ascending", "descending", "middle-out", "evens-then-odds", "evens-then-odds-descending"] {
                if (n as u64 - 1).saturating_mul(sp) >= (1 << 61) {
                    continue;
                }
                v.push((n, sp, order));
            }
        }
    }
    v
}

pub fn run(tier: Tier) -> i32 {
    let mut rep = Report::new("C13", tier);
    // the thorough bounds of this property take seconds: the quick tier runs them too
    crate::report::note_tier(tier);
    let tier = { let _ = tier; Tier::Thorough };
    rep.rule("(a) sweep: every pair (quick) / triple (thorough) of message lengths 1188..1201 (+ many-small and 64/70-slice messages) on a reliable and an unreliable channel x 8 packet-sequence classes x 8 message-id classes across the varint width boundaries, flushed by the real sender; every packet <= 1300 B, never PacketSerialization, and the peer reads back every message; (b) ack packets for 1..160 pending ranges x 5 spacings x 3 arrival orders built through process_packet, plus the ack-world DFS; (c) the C01 schedule exploration re-run with the size oracle on every flush; (d) netcode datagrams: see part netcode");
    // (a)
    let cs = pack_cases(tier);
    let r = explore::sweep(cs.len(), |i| run_pack(&cs[i]));
    rep.add_sweep(
        "packing-threshold",
        r.cases,
        r.distinct_outcomes,
        128,
        vec![format!("{:?}", cs[0]), format!("{:?}", cs[cs.len() / 2]), format!("{:?}", cs[cs.len() - 1])],
    );
    for (i, v) in r.found {
        rep.violation(
            "packing-threshold",
            v,
            J::obj().set("kind", J::s("pack")).set("case_index", J::i(i as u64)).set("case", J::s(format!("{:?}", cs[i]))),
        );
    }
    // (b) ack shapes
    let shapes = ack_shapes(tier);
    let rs = explore::sweep(shapes.len(), |i| {
        let (n, sp, order) = shapes[i];
        match ackworld::prebuilt(n, 1000, sp, order, vec![], ackworld::O_SIZE) {
            Ok(_) => (h64(&(n, sp, order)), None),
            Err(v) => {
                let keep = v.signature == "ACK/ack-packet-over-1300" || v.signature.starts_with("ACK/flush-disconnects") || v.signature.starts_with("ACK/disconnected") || v.signature.starts_with("panic/");
                let sig = format!("C13/{}", v.signature.trim_start_matches("ACK/"));
                (h64(&(n, sp, order, &v.signature)), if keep { Some(Violation::new(sig, format!("{} ranges, spacing {}, {} arrivals: {}", n, sp, order, v.message))) } else { None })
            }
        }
    });
    rep.add_sweep(
        "ack-shapes",
        rs.cases,
        rs.distinct_outcomes,
        shapes.len() as u64,
        vec![format!("{:?}", shapes[0]), format!("{:?}", shapes[shapes.len() - 1])],
    );
    for (i, v) in rs.found {
        rep.violation(
            "ack-shapes",
            v,
            J::obj().set("kind", J::s("ack-shape")).set("case_index", J::i(i as u64)).set("shape", J::s(format!("{:?}", shapes[i]))),
        );
    }
    ackworld::run_c13(&mut rep, tier);
    // (c) standing invariant over a schedule exploration
    let sc: Vec<LinkScenario<fn() -> Box<dyn Probe>>> = super::c01::scenarios(Tier::Quick)
        .into_iter()
        .map(|s| LinkScenario {
            cfg: s.cfg,
            probe: (|| Box::new(SizeProbe) as Box<dyn Probe>) as fn() -> Box<dyn Probe>,
        })
        .collect();
    run_link_scenarios(&mut rep, "m2-size-invariant", &sc, tier.pick(2, 3), tier.pick(120.0, 900.0));
    // (d) netcode
    super::netcode_sizes(&mut rep, tier);
    rep.finish()
}

pub fn replay(j: &J) -> i32 {
    let tier = match j.get("tier").and_then(|t| t.as_str()) {
        Some("thorough") => Tier::Thorough,
        _ => Tier::Quick,
    };
    crate::report::note_tier(tier);
    let tier = { let _ = tier; Tier::Thorough };
    match j.get("kind").and_then(|k| k.as_str()) {
        Some("pack") => {
            let cs = pack_cases(tier);
            let i = j.get("case_index").and_then(|x| x.as_i()).unwrap_or(0) as usize;
            let Some(c) = cs.get(i) else { return 2 };
            println!("packing case {:?}", c);
            match run_pack(c).1 {
                Some(v) => {
                    println!("RESULT: violation {} — {}", v.signature, v.message);
                    1
                }
                None => {
                    println!("RESULT: no violation");
                    0
                }
            }
        }
        Some("ack-shape") => {
            let shapes = ack_shapes(tier);
            let i = j.get("case_index").and_then(|x| x.as_i()).unwrap_or(0) as usize;
            let Some(&(n, sp, order)) = shapes.get(i) else { return 2 };
            println!("ack shape: {} ranges, spacing {}, {} arrivals", n, sp, order);
            match ackworld::prebuilt(n, 1000, sp, order, vec![], ackworld::O_SIZE) {
                Err(v) => {
                    println!("RESULT: violation {} — {}", v.signature, v.message);
                    1
                }
                Ok(_) => {
                    println!("RESULT: no violation");
                    0
                }
            }
        }
        Some("trace") => ackworld::replay(j),
        Some("schedule") => {
            let sc: Vec<LinkScenario<fn() -> Box<dyn Probe>>> = super::c01::scenarios(Tier::Quick)
                .into_iter()
                .map(|s| LinkScenario {
                    cfg: s.cfg,
                    probe: (|| Box::new(SizeProbe) as Box<dyn Probe>) as fn() -> Box<dyn Probe>,
                })
                .collect();
            super::replay_link(&sc, j)
        }
        _ => super::netcode_sizes_replay(j),
    }
}

#[allow(dead_code)]
pub fn debug_shapes() {
    for (n, sp, order) in [(150usize, 1u64 << 31, "descending"), (150, 1 << 31, "ascending")] {
        match ackworld::prebuilt(n, 1000, sp, order, vec![], ackworld::O_SIZE) {
            Ok(w) => {
                let mut c = w.ep.clone();
                let pk = c.get_packets_to_send();
                println!("{} {} {}: ok; ranges {} pk lens {:?}", n, sp, order, w.ep.verif_snapshot().pending_acks.len(), pk.iter().map(|p| p.len()).collect::<Vec<_>>());
            }
            Err(v) => println!("{} {} {}: {} {}", n, sp, order, v.signature, v.message),
        }
    }
}
