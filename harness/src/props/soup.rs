//! "API soup" (M1 over world R1): every interleaving of send / update / flush / deliver / drop /
//! duplicate / receive calls on a real client and a real server connection, with at most three
//! packets in flight per direction — the orders a tick-structured run never produces (two
//! flushes without an update, receive before process, acks racing retransmissions...). In every
//! reachable state a probe runs on a clone: deliver what is in flight, then fault-free ticks —
//! everything submitted must arrive (liveness from non-initial states) and budgets must be back.

use crate::explore::{self, h128, DfsCfg, Violation, World};
use crate::json::J;
use crate::link::{describe, Chan, Kind, Link, LinkCfg, PktInfo};
use crate::props::c02::fully_handed;
use crate::report::{Report, Tier};
use std::hash::{Hash, Hasher};

pub const O_ORDER: u8 = 1; // C01
pub const O_UNORDERED: u8 = 2; // C02
pub const O_RELEASE: u8 = 4; // C08
pub const O_MEMORY: u8 = 8; // C09

#[derive(Clone, Debug, PartialEq, Eq, Hash)]
pub enum Act {
    Send,
    Update(usize),
    Flush(usize),
    Deliver(usize, usize),
    Dup(usize, usize),
    Drop(usize, usize),
    Receive(usize),
}

#[derive(Clone)]
pub struct Soup {
    pub l: Link<'static>,
    /// lengths still to submit (direction 0, channel 0)
    pub script: Vec<usize>,
    pub sent: usize,
    pub inflight: [Vec<usize>; 2],
    pub oracles: u8,
    pub updates: [u32; 2],
    pub max_updates: u32,
    pub flags: u64,
}

pub fn leak_cfg(kind: Kind, max: usize) -> &'static LinkCfg {
    let mut c = LinkCfg::base("soup", vec![Chan::new(0, kind, max, 300)], vec![Chan::new(0, kind, max, 300)]);
    c.bytes_per_tick = 60_000;
    Box::leak(Box::new(c))
}

impl Soup {
    pub fn new(kind: Kind, script: Vec<usize>, oracles: u8, max: usize) -> Self {
        Soup {
            l: Link::new(leak_cfg(kind, max)),
            script,
            sent: 0,
            inflight: [vec![], vec![]],
            oracles,
            updates: [0, 0],
            max_updates: 4,
            flags: 0,
        }
    }

    fn kind(&self) -> Kind {
        self.l.cfg.chans[0][0].kind
    }

    fn check(&self, what: &str) -> Result<(), Violation> {
        let l = &self.l;
        let sub = &l.submitted[0][0];
        let got = &l.obtained[0][0];
        if self.oracles & O_ORDER != 0 {
            for (i, g) in got.iter().enumerate() {
                if i >= sub.len() || g.bytes != sub[i] {
                    return Err(Violation::new(
                        "C01/not-a-prefix",
                        format!("after {}: obtained #{} is {}, submitted #{} is {}", what, i, describe(&g.bytes), i, sub.get(i).map(describe).unwrap_or("nothing".into())),
                    ));
                }
            }
        }
        if self.oracles & O_UNORDERED != 0 {
            let mut seen = vec![false; sub.len()];
            for g in got {
                match sub.iter().enumerate().position(|(k, s)| *s == g.bytes && !seen[k]) {
                    Some(k) => seen[k] = true,
                    None => {
                        return Err(Violation::new(
                            if sub.iter().any(|s| *s == g.bytes) { "C02/duplicate-delivery" } else { "C02/not-submitted" },
                            format!("after {}: obtained {}", what, describe(&g.bytes)),
                        ))
                    }
                }
            }
        }
        if self.oracles & O_RELEASE != 0 {
            if let Some(s) = l.ends.snapshot(0) {
                if let Some(c) = s.send_reliable.first() {
                    let unacked: usize = c.unacked.iter().map(|u| u.len).sum();
                    let ch = &l.cfg.chans[0][0];
                    if l.ends.disconnect_reason(0).is_none() && l.ends.available_memory(0, 0) != ch.max - unacked {
                        return Err(Violation::new("C08/available-memory-disagrees-with-unacked-set", format!("after {}", what)));
                    }
                    for (k, m) in sub.iter().enumerate() {
                        let id = k as u64;
                        if id < c.next_message_id && !c.unacked.iter().any(|u| u.message_id == id) && !fully_handed(l, 0, 0, id, m.len()) {
                            return Err(Violation::new(
                                "C08/released-before-peer-has-it",
                                format!("after {}: message #{} ({} B) left the unacknowledged set although the peer was never handed every packet needed to rebuild it", what, k, m.len()),
                            ));
                        }
                    }
                }
            }
        }
        if self.oracles & O_MEMORY != 0 {
            for e in 0..2 {
                if let Some(s) = l.ends.snapshot(e) {
                    for c in &s.receive_reliable {
                        if c.memory_usage_bytes > c.max_memory_usage_bytes {
                            return Err(Violation::new("C09/over-budget/receive-reliable", format!("after {}: {} > {}", what, c.memory_usage_bytes, c.max_memory_usage_bytes)));
                        }
                    }
                    for c in &s.send_reliable {
                        if c.memory_usage_bytes > c.max_memory_usage_bytes {
                            return Err(Violation::new("C09/over-budget/send-reliable", format!("after {}", what)));
                        }
                    }
                }
            }
        }
        for e in 0..2 {
            if let Some(r) = l.ends.disconnect_reason(e) {
                let p = if self.oracles & O_ORDER != 0 { "C01" } else if self.oracles & O_UNORDERED != 0 { "C02" } else if self.oracles & O_RELEASE != 0 { "C08" } else { "C09" };
                return Err(Violation::new(
                    format!("{}/disconnected/{}", p, crate::props::c01::reason_class(&r)),
                    format!("after {}: endpoint {} disconnected with {:?} in an honest exchange within budget", what, e, r),
                ));
            }
        }
        Ok(())
    }

    /// liveness and budget return from this very state (on a clone)
    fn probe(&self) -> Result<(), Violation> {
        let mut p = self.clone();
        for dir in 0..2 {
            let fl = std::mem::take(&mut p.inflight[dir]);
            for pkt in fl {
                p.l.deliver(dir, pkt)?;
            }
        }
        p.l.drain(0)?;
        for _ in 0..8 {
            p.l.lockstep_tick(100)?;
            p.check("a fault-free tick of the probe")?;
        }
        let sub = p.l.submitted[0][0].len();
        let got = p.l.obtained[0][0].len();
        if got != sub {
            let prop = if self.oracles & O_UNORDERED != 0 { "C02" } else { "C01" };
            if self.oracles & (O_ORDER | O_UNORDERED) != 0 {
                return Err(Violation::new(
                    format!("{}/not-delivered-after-network-recovers", prop),
                    format!("from this state, delivering what is in flight and running 8 fault-free ticks yields {} of {} submitted messages", got, sub),
                ));
            }
        }
        if self.oracles & O_MEMORY != 0 && got == sub {
            for e in 0..2 {
                if let Some(s) = p.l.ends.snapshot(e) {
                    let r: usize = s.receive_reliable.iter().map(|c| c.memory_usage_bytes).sum::<usize>() + s.send_reliable.iter().map(|c| c.memory_usage_bytes).sum::<usize>();
                    if r != 0 {
                        return Err(Violation::new(
                            "C09/residue-at-quiescence/soup",
                            format!("endpoint {}: {} bytes still accounted after everything was delivered, acknowledged and drained", e, r),
                        ));
                    }
                }
            }
        }
        Ok(())
    }
}

impl World for Soup {
    type Action = Act;

    fn actions(&self) -> Vec<Act> {
        let mut v = vec![];
        if self.sent < self.script.len() {
            v.push(Act::Send);
        }
        for e in 0..2 {
            if self.updates[e] < self.max_updates {
                v.push(Act::Update(e));
            }
            if self.inflight[e].len() < 3 {
                v.push(Act::Flush(e));
            }
        }
        for d in 0..2 {
            for j in 0..self.inflight[d].len() {
                v.push(Act::Deliver(d, j));
                v.push(Act::Drop(d, j));
                if d == 0 {
                    v.push(Act::Dup(d, j));
                }
            }
        }
        v.push(Act::Receive(1));
        v
    }

    fn step(&mut self, a: &Act) -> Result<(), Violation> {
        match a {
            Act::Send => {
                let len = self.script[self.sent];
                self.sent += 1;
                self.l.send(0, 0, len)?;
            }
            Act::Update(e) => {
                self.updates[*e] += 1;
                self.l.update(*e, 100)?;
            }
            Act::Flush(e) => {
                let first = self.l.flush(*e)?;
                for p in first..self.l.emitted.len() {
                    if self.inflight[*e].len() < 6 {
                        self.inflight[*e].push(p);
                    }
                    if matches!(self.l.emitted[p].info, PktInfo::ReliableSlice { .. } | PktInfo::SmallReliable { .. }) && self.l.emitted[..p].iter().any(|q| q.dir == *e && q.info == self.l.emitted[p].info) {
                        self.flags |= 1;
                    }
                }
            }
            Act::Deliver(d, j) => {
                let p = self.inflight[*d].remove(*j);
                self.l.deliver(*d, p)?;
            }
            Act::Dup(d, j) => {
                let p = self.inflight[*d][*j];
                self.l.deliver(*d, p)?;
                self.flags |= 2;
            }
            Act::Drop(d, j) => {
                self.inflight[*d].remove(*j);
                self.flags |= 4;
            }
            Act::Receive(_) => self.l.drain(0)?,
        }
        self.check(&format!("{:?}", a))?;
        self.probe()
    }

    fn fingerprint(&self) -> u128 {
        let mut h = std::collections::hash_map::DefaultHasher::new();
        for e in 0..2 {
            if let Some(s) = self.l.ends.snapshot(e) {
                crate::link::hash_conn(&s, &mut h);
            }
        }
        for d in 0..2 {
            let mut v: Vec<&Vec<u8>> = self.inflight[d].iter().map(|p| &self.l.emitted[*p].bytes).collect();
            v.sort();
            v.hash(&mut h);
        }
        (self.sent, self.l.obtained[0][0].len(), self.updates).hash(&mut h);
        // which packets were handed over matters for the release oracle
        let mut handed: Vec<(&PktInfo, bool)> = self.l.emitted.iter().filter(|e| e.dir == 0).map(|e| (&e.info, e.delivered > 0)).collect();
        handed.sort_by(|a, b| format!("{:?}", a).cmp(&format!("{:?}", b)));
        handed.dedup();
        format!("{:?}", handed).hash(&mut h);
        h128(&h.finish())
    }

    fn flags(&self) -> u64 {
        self.flags
    }
}

pub fn run_soup(rep: &mut Report, tier: Tier, part: &str, kind: Kind, oracles: u8, keep_prefix: &[&str]) {
    let scripts: Vec<Vec<usize>> = vec![vec![1, 1201], vec![1201, 1], vec![1, 1]];
    for (k, script) in scripts.into_iter().enumerate() {
        if tier == Tier::Quick && k == 2 {
            continue;
        }
        let d = std::env::var("SOUPD").ok().and_then(|s| s.parse().ok()).unwrap_or(tier.pick(9u32, 11u32));
        let w = Soup::new(kind, script.clone(), oracles, 100_000);
        let cfg = DfsCfg { depth: d, threads: explore::threads(), wall_cap_s: tier.pick(100.0, 1500.0), max_signatures: 8 };
        let mut r = explore::dfs(&w, &cfg);
        rep.vac("soup_states_with_retransmission", (r.flags_seen & 1 != 0) as u64);
        rep.vac("soup_states_after_duplicate", (r.flags_seen & 2 != 0) as u64);
        rep.vac("soup_states_after_drop", (r.flags_seen & 4 != 0) as u64);
        r.found.retain(|f| keep_prefix.iter().any(|p| f.violation.signature.starts_with(p)) || f.violation.signature.starts_with("panic/"));
        rep.add_dfs(&format!("{}/script {:?}", part, script), 100 + k, d, &r);
    }
}

pub fn replay_soup(j: &J, kind: Kind, oracles: u8) -> i32 {
    let scripts: Vec<Vec<usize>> = vec![vec![1, 1201], vec![1201, 1], vec![1, 1]];
    let idx = (j.get("scenario_index").and_then(|x| x.as_i()).unwrap_or(100) as usize).saturating_sub(100);
    let Some(script) = scripts.get(idx) else { return 2 };
    let mut w = Soup::new(kind, script.clone(), oracles, 100_000);
    let acts: Vec<usize> = j
        .get("actions")
        .and_then(|a| a.as_arr())
        .map(|a| a.iter().filter_map(|x| x.as_i()).map(|x| x as usize).collect())
        .unwrap_or_default();
    println!("API soup on a {:?} channel, script {:?}", kind, script);
    for ai in acts {
        let al = w.actions();
        let Some(a) = al.get(ai) else {
            eprintln!("MACHINERY ERROR: divergence");
            return 2;
        };
        println!("  {:?}   (in flight: {:?} / {:?})", a, w.inflight[0].iter().map(|p| format!("{:?}", w.l.emitted[*p].info)).collect::<Vec<_>>(), w.inflight[1].len());
        if let Err(v) = w.step(a) {
            println!("RESULT: violation {} — {}", v.signature, v.message);
            return 1;
        }
    }
    println!("RESULT: no violation");
    0
}
