//! C14 — Per-tick bandwidth budget is respected, in channel priority order.

use super::{replay_link, run_link_scenarios, LinkScenario};
use crate::explore::{permutations, Violation};
use crate::json::J;
use crate::link::{Chan, Drain, Fate, Kind, Link, LinkCfg, PktInfo, Probe, Send};
use crate::report::{Report, Tier};
use std::collections::BTreeMap;
use std::time::Duration;

pub struct BudgetProbe {
    /// unreliable queues (lengths) of endpoint e right before its flush
    pre_unrel: [BTreeMap<u8, Vec<usize>>; 2],
    flushes_with_backlog: u64,
}

impl BudgetProbe {
    pub fn new() -> Self {
        BudgetProbe {
            pre_unrel: [BTreeMap::new(), BTreeMap::new()],
            flushes_with_backlog: 0,
        }
    }
}

impl Probe for BudgetProbe {
    fn on_update(&mut self, l: &Link, end: usize) -> Result<(), Violation> {
        self.pre_unrel[end].clear();
        if let Some(s) = l.ends.snapshot(end) {
            for c in &s.send_unreliable {
                self.pre_unrel[end].insert(c.channel_id, c.queued_lens.clone());
            }
        }
        Ok(())
    }

    fn on_flush(&mut self, l: &Link, dir: usize, first: usize) -> Result<(), Violation> {
        if l.ends.disconnect_reason(dir).is_some() {
            return Ok(());
        }
        let budget = l.cfg.bytes_per_tick;
        let pkts = &l.emitted[first..];
        // payload bytes per channel in this flush
        let mut used: BTreeMap<u8, u64> = BTreeMap::new();
        let mut total = 0u64;
        for p in pkts {
            let (ch, bytes) = match &p.info {
                PktInfo::SmallReliable { ch, msgs } => (*ch, msgs.iter().map(|(_, l)| *l as u64).sum::<u64>()),
                PktInfo::SmallUnreliable { ch, lens } => (*ch, lens.iter().map(|l| *l as u64).sum::<u64>()),
                PktInfo::ReliableSlice { ch, len, .. } | PktInfo::UnreliableSlice { ch, len, .. } => (*ch, *len as u64),
                _ => continue,
            };
            *used.entry(ch).or_insert(0) += bytes;
            total += bytes;
        }
        if total > budget {
            return Err(Violation::new(
                "C14/payload-bytes-exceed-budget",
                format!(
                    "endpoint {} tick {}: packets of one get_packets_to_send carry {} message payload bytes, available_bytes_per_tick is {}",
                    dir, l.tick, total, budget
                ),
            ));
        }
        let Some(snap) = l.ends.snapshot(dir) else { return Ok(()) };
        let now = snap.current_time;
        let mut before = 0u64; // bytes used by earlier channels (configuration order)
        for ch in &l.cfg.chans[dir] {
            let u = used.get(&ch.id).copied().unwrap_or(0);
            let left_after = budget.saturating_sub(before + u);
            match ch.kind {
                Kind::Unreliable => {
                    // multiset of sent message lengths; slices must be complete sets
                    let mut sent: Vec<usize> = vec![];
                    let mut slices: BTreeMap<u64, (usize, Vec<usize>, usize)> = BTreeMap::new();
                    for p in pkts {
                        match &p.info {
                            PktInfo::SmallUnreliable { ch: c, lens } if *c == ch.id => sent.extend(lens.iter().cloned()),
                            PktInfo::UnreliableSlice { ch: c, id, idx, n, len } if *c == ch.id => {
                                let e = slices.entry(*id).or_insert((*n, vec![], 0));
                                e.1.push(*idx);
                                e.2 += *len;
                            }
                            _ => {}
                        }
                    }
                    for (id, (n, mut idxs, len)) in slices {
                        idxs.sort();
                        if idxs != (0..n).collect::<Vec<_>>() {
                            return Err(Violation::new(
                                "C14/unreliable-message-sent-partially",
                                format!("endpoint {} tick {}: unreliable sliced message id {} went out with slices {:?} of {}", dir, l.tick, id, idxs, n),
                            ));
                        }
                        sent.push(len);
                    }
                    let mut queue = self.pre_unrel[dir].get(&ch.id).cloned().unwrap_or_default();
                    for s in &sent {
                        match queue.iter().position(|q| q == s) {
                            Some(i) => {
                                queue.remove(i);
                            }
                            None => {
                                return Err(Violation::new(
                                    "C14/unreliable-message-reappeared",
                                    format!(
                                        "endpoint {} tick {}: an unreliable message of {} bytes was sent that was not queued since the previous flush (a message dropped for lack of budget must never be sent later)",
                                        dir, l.tick, s
                                    ),
                                ));
                            }
                        }
                    }
                    // what was queued and not sent was dropped: it must not have fitted
                    for dropped in &queue {
                        if (*dropped as u64) <= left_after {
                            return Err(Violation::new(
                                "C14/unreliable-dropped-although-it-fitted",
                                format!(
                                    "endpoint {} tick {}: unreliable message of {} bytes on channel {} was dropped although {} bytes of the tick budget were left after this channel",
                                    dir, l.tick, dropped, ch.id, left_after
                                ),
                            ));
                        }
                    }
                    if let Some(c) = snap.send_unreliable.iter().find(|c| c.channel_id == ch.id) {
                        if !c.queued_lens.is_empty() {
                            return Err(Violation::new(
                                "C14/unreliable-queue-not-flushed",
                                format!("endpoint {} tick {}: unreliable channel {} still queues {:?} after the flush", dir, l.tick, ch.id, c.queued_lens),
                            ));
                        }
                    }
                }
                _ => {
                    let Some(c) = snap.send_reliable.iter().find(|c| c.channel_id == ch.id) else { continue };
                    let resend = Duration::from_millis(ch.resend_ms);
                    for m in &c.unacked {
                        for (i, ls) in m.last_sent.iter().enumerate() {
                            if m.sliced && m.acked[i] {
                                continue;
                            }
                            let eligible_unsent = match ls {
                                None => true,
                                Some(t) => *t != now && now.saturating_sub(*t) >= resend,
                            };
                            if !eligible_unsent {
                                continue;
                            }
                            self.flushes_with_backlog += 1;
                            let need = if m.sliced { 1200u64 } else { m.len as u64 };
                            if need <= left_after {
                                return Err(Violation::new(
                                    "C14/eligible-reliable-item-not-sent-although-budget-left",
                                    format!(
                                        "endpoint {} tick {}: channel {} message id {}{} (needs {} bytes, last sent {:?}, now {:?}) was not sent although {} bytes of the tick budget were left after this channel's packets; a later channel must only get what earlier ones left",
                                        dir,
                                        l.tick,
                                        ch.id,
                                        m.message_id,
                                        if m.sliced { format!(" slice {}", i) } else { String::new() },
                                        need,
                                        ls,
                                        now,
                                        left_after
                                    ),
                                ));
                            }
                        }
                    }
                }
            }
            before += u;
        }
        Ok(())
    }

    fn on_end(&mut self, l: &Link) -> Result<(), Violation> {
        // what did not fit waited and was sent later (only decidable when every item can fit in one tick's budget)
        if l.cfg.bytes_per_tick < 2500 {
            return Ok(());
        }
        for dir in 0..2 {
            if l.ends.disconnect_reason(0).is_some() || l.ends.disconnect_reason(1).is_some() {
                return Ok(());
            }
            for (ci, ch) in l.cfg.chans[dir].iter().enumerate() {
                if ch.kind == Kind::Unreliable {
                    continue;
                }
                if l.obtained[dir][ci].len() != l.submitted[dir][ci].len() {
                    return Err(Violation::new(
                        "C14/reliable-backlog-never-sent",
                        format!(
                            "channel {} dir {}: {} of {} reliable messages arrived after {} fault-free ticks with {} bytes per tick",
                            ch.id,
                            dir,
                            l.obtained[dir][ci].len(),
                            l.submitted[dir][ci].len(),
                            l.cfg.tail,
                            l.cfg.bytes_per_tick
                        ),
                    ));
                }
            }
        }
        Ok(())
    }

    fn outcome(&self) -> u64 {
        self.flushes_with_backlog
    }
}

pub fn scenarios(tier: Tier) -> Vec<LinkScenario<fn() -> Box<dyn Probe>>> {
    let r = 300u64;
    let budgets: Vec<u64> = vec![0, 1, 100, 1199, 1200, 1201, 2400, 2500, 60_000];
    let kinds = [Kind::Unreliable, Kind::Ordered, Kind::Unordered];
    let mut orders: Vec<Vec<Chan>> = permutations(3)
        .into_iter()
        .map(|p| p.iter().map(|&i| Chan::new(i as u8, kinds[i], 50_000, r)).collect())
        .collect();
    // two lists with two reliable channels of the same kind
    orders.push(vec![
        Chan::new(3, Kind::Ordered, 50_000, r),
        Chan::new(0, Kind::Unreliable, 50_000, 0),
        Chan::new(1, Kind::Ordered, 50_000, r),
    ]);
    orders.push(vec![
        Chan::new(2, Kind::Unordered, 50_000, r),
        Chan::new(4, Kind::Unordered, 50_000, r),
        Chan::new(0, Kind::Unreliable, 50_000, 0),
    ]);
    let mut out: Vec<LinkScenario<fn() -> Box<dyn Probe>>> = vec![];
    for (oi, order) in orders.iter().enumerate() {
        for &b in &budgets {
            for dir in 0..2usize {
                if dir == 1 && (tier == Tier::Quick || oi % 2 == 1) {
                    continue;
                }
                let names: Vec<String> = order.iter().map(|c| format!("{}{:?}", c.id, c.kind)).collect();
                let mut cfg = LinkCfg::base(&format!("budget {} order [{}] dir{}", b, names.join(","), dir), order.clone(), order.clone());
                cfg.bytes_per_tick = b;
                cfg.dt_ms = vec![100];
                cfg.horizon = 5;
                cfg.tail = 16;
                cfg.drains = vec![Drain::End];
                cfg.allow_reverse = false;
                cfg.fates = vec![Fate::Ok, Fate::Drop, Fate::Delay2];
                let mut script = vec![];
                for c in order {
                    let (t0, t2): (Vec<usize>, Vec<usize>) = match c.kind {
                        Kind::Unreliable => (vec![100, 1201, 1], vec![1200]),
                        Kind::Ordered => (vec![1, 1200, 2401], vec![100]),
                        Kind::Unordered => (vec![100, 1201], vec![1]),
                    };
                    for len in t0 {
                        script.push(Send::at(0, dir, c.id, len));
                    }
                    for len in t2 {
                        script.push(Send::at(2, dir, c.id, len));
                    }
                }
                cfg.script = script;
                out.push(LinkScenario {
                    cfg,
                    probe: (|| Box::new(BudgetProbe::new()) as Box<dyn Probe>) as fn() -> Box<dyn Probe>,
                });
            }
        }
    }
    // sliced unreliable messages against budgets that cover some of their slices but not all (a message that does
    // not fit is dropped whole, never in part), competing with a reliable channel before / after it
    for (oi, order) in [
        vec![Chan::new(0, Kind::Unreliable, 50_000, 0), Chan::new(1, Kind::Ordered, 50_000, r)],
        vec![Chan::new(1, Kind::Ordered, 50_000, r), Chan::new(0, Kind::Unreliable, 50_000, 0)],
    ]
    .iter()
    .enumerate()
    {
        for &b in &[1300u64, 2400, 2500, 3599, 3600, 4300, 4800] {
            for dir in 0..2usize {
                if dir == 1 && (tier == Tier::Quick || oi == 1) {
                    continue;
                }
                let names: Vec<String> = order.iter().map(|c| format!("{}{:?}", c.id, c.kind)).collect();
                let mut cfg = LinkCfg::base(&format!("sliced unreliable, budget {} order [{}] dir{}", b, names.join(","), dir), order.clone(), order.clone());
                cfg.bytes_per_tick = b;
                cfg.dt_ms = vec![100];
                cfg.horizon = 4;
                cfg.tail = 12;
                cfg.drains = vec![Drain::End];
                cfg.allow_reverse = false;
                cfg.fates = vec![Fate::Ok, Fate::Drop, Fate::Delay2];
                cfg.script = vec![
                    Send::at(0, dir, 0, 3000),
                    Send::at(0, dir, 1, 1300),
                    Send::at(1, dir, 0, 3000),
                    Send::at(2, dir, 0, 2500),
                    Send::at(2, dir, 0, 3000),
                    Send::at(2, dir, 1, 100),
                    Send::at(3, dir, 0, 3601),
                ];
                out.push(LinkScenario {
                    cfg,
                    probe: (|| Box::new(BudgetProbe::new()) as Box<dyn Probe>) as fn() -> Box<dyn Probe>,
                });
            }
        }
    }
    out
}

pub fn run(tier: Tier) -> i32 {
    let mut rep = Report::new("C14", tier);
    rep.rule("M2: budgets {0,1,100,1199,1200,1201,2400,2500,60000} x 8 channel lists (all 6 orders of the three kinds, two lists with two reliable channels) x a script mixing {1,100,1200,1201,2401}-byte messages on every channel at ticks 0 and 2, plus 7 budgets x 2 channel lists with 2500..3601-byte unreliable messages (budgets covering some of their slices) beside a reliable channel; every schedule with <= d drop/delay deviations on data and ack packets (retransmission backlogs compete with fresh traffic); oracle per get_packets_to_send on the decoded packets: sum of payload bytes <= budget; an eligible reliable item left unsent needs more than what its channel left; unreliable messages go out whole or are dropped because they did not fit and never reappear; with budget >= 2500 every reliable message arrives after the tail");
    rep.assume("'eligible' = unacknowledged and never sent or last sent >= resend_time ago (snapshot hook); admission rule per the implementation: a slice needs SLICE_SIZE bytes of budget left");
    let sc = scenarios(tier);
    run_link_scenarios(&mut rep, "m2", &sc, tier.pick(2, 3), tier.pick(120.0, 1500.0));
    rep.finish()
}

pub fn replay(j: &J) -> i32 {
    let tier = match j.get("tier").and_then(|t| t.as_str()) {
        Some("thorough") => Tier::Thorough,
        _ => Tier::Quick,
    };
    replay_link(&scenarios(tier), j)
}
