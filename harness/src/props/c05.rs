//! C05 — Only a valid, unexpired, untampered connect token from its own address connects.

use super::hsworld::{c05_fix, describe, HsWorld};
use crate::explore::{self, DfsCfg, World};
use crate::json::J;
use crate::report::{Report, Tier};

pub fn run(tier: Tier) -> i32 {
    let mut rep = Report::new("C05", tier);
    rep.rule("M1 (handshake world, attacker-driven): every sequence up to depth D of {connection request with each of 7 tokens (valid ids 1, 2, 2', one expiring at 3 s; foreign key; foreign protocol id; wrong host list) from 2 addresses; t1's request corrupted in version / protocol id / expiry / xnonce / first, middle, last ciphertext byte / MAC; response echoing any challenge issued so far sealed with the keys of any valid token the attacker owns from either address (all cross-uses); response with a garbage challenge; clock to 2, 3, 4 s}; oracle on every ClientConnected: it follows a response, from an address with an earlier request the reference model accepts (opens under server key and protocol id, unexpired then, host-listed, token not used from another address) whose token carries exactly the reported client id and user data, and the echoed challenge was issued for that client id");
    rep.assume("the attacker owns the listed tokens (knows their session keys) and can send from any address; challenge tokens are recognised by decrypting the server's replies with the token's server-to-client key");
    let d = tier.pick(6, 9);
    let w = HsWorld::new(c05_fix());
    let cfg = DfsCfg { depth: d, threads: explore::threads(), wall_cap_s: tier.pick(100.0, 1500.0), max_signatures: 8 };
    let mut r = explore::dfs(&w, &cfg);
    rep.vac("states_with_a_connection", (r.flags_seen & 1 != 0) as u64);
    r.found.retain(|f| f.violation.signature.starts_with("C05/") || f.violation.signature.starts_with("panic/"));
    rep.add_dfs("attacker-handshakes", 0, d, &r);
    // from a non-initial state: a full one-slot server
    let d2 = tier.pick(6, 8);
    let w2 = HsWorld::new(super::hsworld::c05_full_fix());
    let cfg2 = DfsCfg { depth: d2, threads: explore::threads(), wall_cap_s: tier.pick(100.0, 1500.0), max_signatures: 8 };
    let mut r2 = explore::dfs(&w2, &cfg2);
    r2.found.retain(|f| f.violation.signature.starts_with("C05/") || f.violation.signature.starts_with("panic/"));
    rep.add_dfs("full-one-slot-server", 1, d2, &r2);
    rep.finish()
}

pub fn replay(j: &J) -> i32 {
    let idx = j.get("scenario_index").and_then(|x| x.as_i()).unwrap_or(0);
    let mut w = HsWorld::new(if idx == 1 { super::hsworld::c05_full_fix() } else { c05_fix() });
    let acts: Vec<usize> = j
        .get("actions")
        .and_then(|a| a.as_arr())
        .map(|a| a.iter().filter_map(|x| x.as_i()).map(|x| x as usize).collect())
        .unwrap_or_default();
    for ai in acts {
        let al = w.actions();
        let Some(a) = al.get(ai) else {
            eprintln!("MACHINERY ERROR: divergence");
            return 2;
        };
        println!("  {}", describe(&w.fx, a));
        match w.step(a) {
            Err(v) if v.signature.starts_with("C05/") || v.signature.starts_with("panic/") => {
                println!("RESULT: violation {} — {}", v.signature, v.message);
                return 1;
            }
            _ => {}
        }
    }
    println!("RESULT: no violation");
    0
}
