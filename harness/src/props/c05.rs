//! C05 — Only a valid, unexpired, untampered connect token from its own address connects.

use super::hsworld::{c05_fix, describe, HsWorld};
use crate::explore::{self, DfsCfg, World};
use crate::json::J;
use crate::report::{Report, Tier};

pub fn run(tier: Tier) -> i32 {
    let mut rep = Report::new("C05", tier);
    rep.rule("M1 (handshake world, attacker-driven): every sequence up to depth D of {connection request with each of 7 tokens (valid ids 1, 2, 2', one expiring at 3 s; foreign key; foreign protocol id; wrong host list) from 2 addresses; t1's request corrupted in version / protocol id / expiry / xnonce / first, middle, last ciphertext byte / MAC; response echoing any challenge issued so far sealed with the keys of any valid token the attacker owns from either address (all cross-uses); response with a garbage challenge; clock to 2, 3, 4 s}; oracle on every ClientConnected: it follows a response, from an address with an earlier request the reference model accepts (opens under server key and protocol id, unexpired then, host-listed, token not used from another address) whose token carries exactly the reported client id and user data, and the echoed challenge was issued for that client id");
    rep.assume("the attacker owns the listed tokens (knows their session keys) and can send from any address; challenge tokens are recognised by decrypting the server's replies with the token's server-to-client key");
    let d = tier.pick(8, 10);
    let w = HsWorld::new(c05_fix());
    let cfg = DfsCfg { depth: d, threads: explore::threads(), wall_cap_s: tier.pick(100.0, 1500.0), max_signatures: 8 };
    let mut r = explore::dfs(&w, &cfg);
    rep.vac("states_with_a_connection", (r.flags_seen & 1 != 0) as u64);
    r.found.retain(|f| f.violation.signature.starts_with("C05/") || f.violation.signature.starts_with("panic/"));
    rep.add_dfs("attacker-handshakes", 0, d, &r);
    // from a non-initial state: a full one-slot server
    let d2 = tier.pick(7, 9);
    let w2 = HsWorld::new(super::hsworld::c05_full_fix());
    let cfg2 = DfsCfg { depth: d2, threads: explore::threads(), wall_cap_s: tier.pick(100.0, 1500.0), max_signatures: 8 };
    let mut r2 = explore::dfs(&w2, &cfg2);
    r2.found.retain(|f| f.violation.signature.starts_with("C05/") || f.violation.signature.starts_with("panic/"));
    rep.add_dfs("full-one-slot-server", 1, d2, &r2);
    // sessions that end and start again (time-out tick, server kick, client disconnect packet, payloads in between)
    let d3 = tier.pick(8, 10);
    let w3 = HsWorld::new(super::hsworld::c05_lifecycle_fix());
    let cfg3 = DfsCfg { depth: d3, threads: explore::threads(), wall_cap_s: tier.pick(100.0, 1500.0), max_signatures: 8 };
    let mut r3 = explore::dfs(&w3, &cfg3);
    rep.vac("lifecycle_states_after_a_disconnect_event", (r3.flags_seen & 2 != 0) as u64);
    rep.vac("lifecycle_timeout_ticks", (r3.flags_seen & 16 != 0) as u64);
    r3.found.retain(|f| f.violation.signature.starts_with("C05/") || f.violation.signature.starts_with("panic/"));
    rep.add_dfs("sessions-end-and-restart", 2, d3, &r3);
    // scale class: the table of used connect tokens (2048 entries) is full of older tokens; a token used one
    // second ago from address A must still be refused from address B after other tokens were presented
    {
        let mut n = 0u64;
        for fill in [2047usize, 2048, 2049, 2100] {
            for others in [0usize, 1, 3] {
                n += 1;
                if let Some(v) = token_table_case(fill, others, 0) {
                    rep.violation("token-table-full", v, J::obj().set("kind", J::s("token-table")).set("fill", J::i(fill as u64)).set("others", J::i(others as u64)));
                }
            }
        }
        for (fill, repeats) in [(0usize, 2047usize), (0, 2048), (0, 2100), (10, 4200), (2040, 300)] {
            n += 1;
            if let Some(v) = token_table_case(fill, 1, repeats) {
                rep.violation("token-table-full", v, J::obj().set("kind", J::s("token-table")).set("fill", J::i(fill as u64)).set("others", J::i(1)).set("repeats", J::i(repeats as u64)));
            }
        }
        // retransmissions of one request must not use up the history: new tokens after ~2048 requests in total
        for repeats in 2040usize..=2050 {
            n += 1;
            if let Some(v) = token_table_case_full(8, 0, 1, repeats, 3) {
                rep.violation("token-table-full", v, J::obj().set("kind", J::s("token-table")).set("fill", J::i(0)).set("others", J::i(1)).set("repeats", J::i(repeats as u64)).set("after", J::i(3)));
            }
        }
        // the history of used tokens is as long on a small server as on a big one
        for max in [1usize, 2, 3] {
            for others in [1usize, 2, 3, 5, 9] {
                n += 1;
                if let Some(v) = token_table_case_on(max, 0, others, 0) {
                    rep.violation("token-table-full", v, J::obj().set("kind", J::s("token-table")).set("fill", J::i(0)).set("others", J::i(others as u64)).set("max_clients", J::i(max as u64)));
                }
            }
        }
        rep.add_sweep("token-table-full", n, n, 4, vec!["fill in {2047,2048,2049,2100} old tokens, then token T from address A, {0,1,3} other new tokens, T from address B".into()]);
    }
    rep.finish()
}

pub fn token_table_case(fill: usize, others: usize, repeats: usize) -> Option<crate::explore::Violation> {
    token_table_case_on(8, fill, others, repeats)
}

pub fn token_table_case_on(max_clients: usize, fill: usize, others: usize, repeats: usize) -> Option<crate::explore::Violation> {
    token_table_case_full(max_clients, fill, others, repeats, 0)
}

/// the same on a server with `max_clients` slots (the history of used tokens does not depend on the slot count), and
/// with `after` further new tokens presented after the retransmissions
pub fn token_table_case_full(max_clients: usize, fill: usize, others: usize, repeats: usize, after: usize) -> Option<crate::explore::Violation> {
    use crate::explore::Violation;
    use crate::nc::{self, client_addr, make_token, new_server, server_addr, TokenSpec, SR};
    use crate::props::hsworld::request_datagram;
    use renetcode::verif::Packet;
    use std::time::Duration;
    let public = vec![server_addr(0)];
    let mut server = new_server(max_clients, public.clone(), Duration::ZERO);
    let r = (|| -> Result<(), Violation> {
        for i in 0..fill {
            let mut sp = TokenSpec::new(10_000 + i as u64, (i % 251) as u8, public.clone());
            sp.expire = 600;
            let mut t = make_token(&sp);
            // distinct sealed bytes per token: the xnonce carries the index
            t.xnonce[1] = (i & 0xff) as u8;
            t.xnonce[2] = (i >> 8) as u8;
            let t = {
                let mut s2 = sp.clone();
                s2.tag = (i % 251) as u8;
                let mut tk = make_token(&s2);
                tk.xnonce = t.xnonce;
                // reseal with the new xnonce through the public generator path: use the hook-free route
                let private = renetcode::verif::VerifPrivateToken {
                    client_id: s2.client_id,
                    timeout_seconds: s2.timeout,
                    server_addresses: tk.server_addresses,
                    client_to_server_key: tk.client_to_server_key,
                    server_to_client_key: tk.server_to_client_key,
                    user_data: nc::user_data(s2.tag),
                };
                tk.private_data = private.seal(s2.protocol, s2.expire, &tk.xnonce, &s2.key).expect("seal");
                tk
            };
            // every filler comes from its own address and stays half-open
            let from = std::net::SocketAddr::new(std::net::IpAddr::V4(std::net::Ipv4Addr::new(172, 16, (i >> 8) as u8, (i & 0xff) as u8)), 20_000);
            nc::srv_process(&mut server, from, &request_datagram(&t))?;
            if i % 512 == 511 {
                server.update(Duration::from_millis(10));
            }
        }
        server.update(Duration::from_secs(2));
        let mut spt = TokenSpec::new(77, 77, public.clone());
        spt.expire = 600;
        let t = make_token(&spt);
        let a = client_addr(1);
        let b = client_addr(2);
        let r1 = nc::srv_process(&mut server, a, &request_datagram(&t))?;
        if !matches!(r1, SR::Send { .. }) {
            return Err(Violation::new("C05/scale/valid-token-refused", format!("token T from its first address got {}", r1.kind())));
        }
        server.update(Duration::from_secs(1));
        for k in 0..others {
            let mut spo = TokenSpec::new(500 + k as u64, 200 + k as u8, public.clone());
            spo.expire = 600;
            nc::srv_process(&mut server, client_addr(5 + k as u16), &request_datagram(&make_token(&spo)))?;
        }
        // a client that keeps retransmitting one and the same request (same token, same address)
        if repeats > 0 {
            let mut spr = TokenSpec::new(900, 190, public.clone());
            spr.expire = 600;
            let rq = request_datagram(&make_token(&spr));
            for k in 0..repeats {
                nc::srv_process(&mut server, client_addr(40), &rq)?;
                if k % 256 == 255 {
                    server.update(Duration::from_millis(10));
                }
            }
        }
        for k in 0..after {
            let mut spo = TokenSpec::new(700 + k as u64, 100 + k as u8, public.clone());
            spo.expire = 600;
            nc::srv_process(&mut server, client_addr(60 + k as u16), &request_datagram(&make_token(&spo)))?;
        }
        let r2 = nc::srv_process(&mut server, b, &request_datagram(&t))?;
        if let SR::Send { bytes, .. } = &r2 {
            let mut d = bytes.clone();
            if let Some((_, Packet::Challenge { .. })) = nc::open(&mut d, nc::PROTOCOL, &t.server_to_client_key) {
                return Err(Violation::new(
                    "C05/token-used-from-another-address-is-challenged",
                    format!("token table filled with {} older tokens: T was used from {} one second ago; {} other tokens and {} retransmissions of one request later it is challenged from {}", fill, a, others, repeats, b),
                ));
            }
        }
        Ok(())
    })();
    r.err()
}

pub fn replay(j: &J) -> i32 {
    if j.get("kind").and_then(|k| k.as_str()) == Some("token-table") {
        let fill = j.get("fill").and_then(|x| x.as_i()).unwrap_or(2048) as usize;
        let others = j.get("others").and_then(|x| x.as_i()).unwrap_or(1) as usize;
        let repeats = j.get("repeats").and_then(|x| x.as_i()).unwrap_or(0) as usize;
        println!("token table case: {} fillers, {} other tokens, {} retransmissions of one request", fill, others, repeats);
        let max = j.get("max_clients").and_then(|x| x.as_i()).unwrap_or(8) as usize;
        let after = j.get("after").and_then(|x| x.as_i()).unwrap_or(0) as usize;
        return match token_table_case_full(max, fill, others, repeats, after) {
            Some(v) => {
                println!("RESULT: violation {} — {}", v.signature, v.message);
                1
            }
            None => {
                println!("RESULT: no violation");
                0
            }
        };
    }
    let idx = j.get("scenario_index").and_then(|x| x.as_i()).unwrap_or(0);
    let mut w = HsWorld::new(if idx == 2 { super::hsworld::c05_lifecycle_fix() } else if idx == 1 { super::hsworld::c05_full_fix() } else { c05_fix() });
    let acts: Vec<usize> = j
        .get("actions")
        .and_then(|a| a.as_arr())
        .map(|a| a.iter().filter_map(|x| x.as_i()).map(|x| x as usize).collect())
        .unwrap_or_default();
    for ai in acts {
        let al = w.actions();
        let Some(a) = al.get(ai) else {
            eprintln!("MACHINERY ERROR: divergence");
            return 2;
        };
        println!("  {}", describe(&w.fx, a));
        match w.step(a) {
            Err(v) if v.signature.starts_with("C05/") || v.signature.starts_with("panic/") => {
                println!("RESULT: violation {} — {}", v.signature, v.message);
                return 1;
            }
            _ => {}
        }
    }
    println!("RESULT: no violation");
    0
}
