//! C06 — renet survives hostile packets: no panic, at worst that one connection drops.

use crate::explore::{self, h64, Violation};
use crate::json::J;
use crate::link::{guard, Chan, Kind, Link, LinkCfg, CID};
use crate::report::{Report, Tier};
use renet::{RenetClient, RenetServer};
use std::time::Duration;

const YID: u64 = 99;
const BUDGET: usize = 100_000;

fn chans() -> Vec<Chan> {
    vec![
        Chan::new(0, Kind::Unreliable, BUDGET, 0),
        Chan::new(1, Kind::Ordered, BUDGET, 300),
        Chan::new(2, Kind::Unordered, BUDGET, 300),
    ]
}

fn cfg() -> LinkCfg {
    let mut c = LinkCfg::base("hostile", chans(), chans());
    c.bytes_per_tick = 1_000_000;
    c
}

// ---- wire assembly (independent of the crate's encoder so that unencodable values can be built) ----

pub fn vi(v: u64, width: usize) -> Vec<u8> {
    match width {
        1 => vec![(v as u8) & 0x3f],
        2 => ((v as u16 & 0x3fff) | 0x4000).to_be_bytes().to_vec(),
        4 => ((v as u32 & 0x3fff_ffff) | 0x8000_0000).to_be_bytes().to_vec(),
        _ => ((v & 0x3fff_ffff_ffff_ffff) | 0xC000_0000_0000_0000).to_be_bytes().to_vec(),
    }
}

pub fn vmin(v: u64) -> Vec<u8> {
    if v < 64 {
        vi(v, 1)
    } else if v < 16_384 {
        vi(v, 2)
    } else if v < (1 << 30) {
        vi(v, 4)
    } else {
        vi(v, 8)
    }
}

const U62: u64 = (1 << 62) - 1;

#[derive(Clone, Debug)]
pub struct Hostile {
    pub desc: String,
    pub bytes: Vec<u8>,
}

fn small(ty: u8, seq: u64, ch: u8, announced: u16, msgs: &[(u64, u64, usize)]) -> Hostile {
    // msgs: (id, announced length, actual bytes present)
    let mut b = vec![ty];
    b.extend(vmin(seq));
    b.push(ch);
    b.extend(announced.to_be_bytes());
    for &(id, alen, present) in msgs {
        if ty == 0 {
            b.extend(vmin(id));
        }
        b.extend(vmin(alen));
        b.extend(std::iter::repeat(0x5A).take(present));
    }
    Hostile {
        desc: format!("type {} seq {} ch {} announced {} msgs {:?}", ty, seq, ch, announced, msgs),
        bytes: b,
    }
}

pub fn slice_pkt(ty: u8, seq: u64, ch: u8, id: u64, idx: u64, n: u64, alen: u64, present: usize) -> Hostile {
    let mut b = vec![ty];
    b.extend(vmin(seq));
    b.push(ch);
    b.extend(vmin(id));
    b.extend(vmin(idx));
    b.extend(vmin(n));
    b.extend(vmin(alen));
    b.extend(std::iter::repeat(0xC3).take(present));
    Hostile {
        desc: format!("slice type {} seq {} ch {} id {} idx {} n {} len {}/{}", ty, seq, ch, id, idx, n, alen, present),
        bytes: b,
    }
}

fn ack(seq: u64, end: u64, size: u64, announced: u64, rest: &[(u64, u64)]) -> Hostile {
    let mut b = vec![4u8];
    b.extend(vmin(seq));
    b.extend(vmin(end));
    b.extend(vmin(size));
    b.extend(vmin(announced));
    for &(gap, sz) in rest {
        b.extend(vmin(gap));
        b.extend(vmin(sz));
    }
    Hostile {
        desc: format!("ack seq {} end {} size {} announced {} rest {:?}", seq, end, size, announced, &rest[..rest.len().min(4)]),
        bytes: b,
    }
}

pub fn singles(tier: Tier) -> Vec<Hostile> {
    let mut v: Vec<Hostile> = vec![];
    v.push(Hostile { desc: "empty".into(), bytes: vec![] });
    for ty in [0u8, 1, 2, 3, 4, 5, 6, 255] {
        v.push(Hostile { desc: format!("type {} only", ty), bytes: vec![ty] });
        v.push(Hostile { desc: format!("type {} + seq", ty), bytes: vec![ty, 0] });
        v.push(Hostile { desc: format!("type {} + truncated 8-byte varint", ty), bytes: vec![ty, 0xff, 0xff] });
    }
    // sequence numbers that fall below / between / above the pending ack ranges of the prepared states
    for seq in [5u64, 995, 1005, 1325, 1625, 1631, 2000] {
        v.push(small(1, seq, 0, 0, &[]));
        v.push(small(0, seq, 1, 0, &[]));
        v.push(ack(seq, 3, 0, 0, &[]));
    }
    let seqs = [0u64, 1, U62];
    let chs = [0u8, 1, 2, 7, 255];
    let ids = [0u64, 1, 2, 3, U62];
    for ty in [0u8, 1] {
        for &seq in &seqs {
            for &ch in &chs {
                v.push(small(ty, seq, ch, 0, &[]));
                v.push(small(ty, seq, ch, 65_535, &[(0, 1, 1)]));
                v.push(small(ty, seq, ch, 2, &[(1, 0, 0)]));
                for &id in &ids {
                    for (alen, present) in [(0u64, 0usize), (1, 1), (1200, 1200), (1201, 1201), (1250, 1250), (5000, 10), (U62, 3)] {
                        if ty == 1 && id != 0 {
                            continue;
                        }
                        if tier == Tier::Quick && seq == 1 && ch == 7 {
                            continue;
                        }
                        v.push(small(ty, seq, ch, 1, &[(id, alen, present)]));
                    }
                    if ty == 0 {
                        v.push(small(0, seq, ch, 2, &[(id, 1, 1), (id, 2, 2)]));
                        v.push(small(0, seq, ch, 3, &[(id, 1, 1), (id.wrapping_add(1) & U62, 0, 0), (0, 1200, 1200)]));
                    }
                }
            }
        }
    }
    for ty in [2u8, 3] {
        for &seq in &[0u64, U62] {
            for &ch in &[0u8, 1, 2, 7] {
                for &id in &[0u64, 1, 3, U62] {
                    for &n in &[0u64, 1, 2, 3, 80, 84, 1_000_000, 1_000_001, U62] {
                        for idx in [0u64, 1, n.wrapping_sub(1) & U62, n, (n + 1) & U62, U62] {
                            for (alen, present) in [(0u64, 0usize), (1, 1), (1199, 1199), (1200, 1200), (1201, 1201), (1290, 1290), (1200, 5)] {
                                if tier == Tier::Quick && (seq == U62 && ch != 1) {
                                    continue;
                                }
                                if tier == Tier::Quick && alen == 1199 {
                                    continue;
                                }
                                v.push(slice_pkt(ty, seq, ch, id, idx, n, alen, present));
                            }
                        }
                    }
                }
            }
        }
    }
    for &seq in &seqs {
        v.push(ack(seq, 0, 0, 0, &[]));
        v.push(ack(seq, 5, 5, 0, &[]));
        v.push(ack(seq, 3, 7, 0, &[]));
        v.push(ack(seq, U62, U62, 0, &[]));
        v.push(ack(seq, U62, 0, 1, &[(0, U62 - 2)]));
        v.push(ack(seq, 10, 0, 1, &[(9, 0)]));
        v.push(ack(seq, 10, 0, 1, &[(8, 1)]));
        v.push(ack(seq, 10, 0, 1, &[(0, 9)]));
        v.push(ack(seq, 10, 0, 1, &[(U62, 0)]));
        v.push(ack(seq, 100, 0, 1, &[]));
        v.push(ack(seq, 100, 0, U62, &[(0, 0)]));
        v.push(ack(seq, 5000, 0, 700, &(0..200).map(|_| (1u64, 0u64)).collect::<Vec<_>>()));
        v.push(ack(seq, 5000, 0, 200, &(0..200).map(|_| (1u64, 0u64)).collect::<Vec<_>>()));
        v.push(ack(seq, 64, 64, 0, &[]));
    }
    // non-minimal varints
    for w in [2usize, 4, 8] {
        let mut b = vec![0u8];
        b.extend(vi(3, w));
        b.push(1);
        b.extend(1u16.to_be_bytes());
        b.extend(vi(0, w));
        b.extend(vi(2, w));
        b.extend([1, 2]);
        v.push(Hostile { desc: format!("small reliable with {}-byte varints", w), bytes: b });
    }
    // every truncation of six exemplar packets
    let ex = vec![
        small(0, 5, 1, 2, &[(0, 3, 3), (1, 2, 2)]).bytes,
        small(1, 70, 0, 1, &[(0, 70, 70)]).bytes,
        slice_pkt(2, 9, 1, 0, 1, 3, 1200, 1200).bytes,
        slice_pkt(3, 9, 0, 0, 2, 3, 5, 5).bytes,
        ack(3, 100, 2, 2, &[(3, 1), (70, 0)]).bytes,
        slice_pkt(2, 16_384, 2, 70, 0, 2, 1200, 1200).bytes,
    ];
    for (k, e) in ex.iter().enumerate() {
        let step = if e.len() > 100 { tier.pick(97, 13) } else { 1 };
        for n in (0..e.len()).step_by(step) {
            v.push(Hostile { desc: format!("exemplar {} truncated to {}", k, n), bytes: e[..n].to_vec() });
        }
    }
    v
}

/// the slice family for one message id: (idx, n, payload length)
pub fn family(tier: Tier) -> Vec<(u64, u64, usize)> {
    let mut f = vec![];
    let ns: Vec<u64> = tier.pick(vec![1, 2, 3, 80], vec![1, 2, 3, 4, 80, 1000]);
    for &n in &ns {
        for idx in [0u64, 1, 2, 3, 5] {
            for len in tier.pick(vec![1usize, 1200, 1290], vec![1usize, 1199, 1200, 1201, 1290]) {
                f.push((idx, n, len));
            }
        }
    }
    f
}

// ---- targets and prepared states ----

#[derive(Clone)]
pub enum Target {
    Client(RenetClient),
    Server { srv: RenetServer, y_peer: RenetClient },
}

impl Target {
    fn inject(&mut self, b: &[u8]) -> Result<(), Violation> {
        match self {
            Target::Client(c) => guard("RenetClient::process_packet", || c.process_packet(b)),
            Target::Server { srv, .. } => guard("RenetServer::process_packet_from", || {
                let _ = srv.process_packet_from(b, CID);
            }),
        }
    }
    fn conn(&self) -> Option<&RenetClient> {
        match self {
            Target::Client(c) => Some(c),
            Target::Server { srv, .. } => srv.verif_connection(CID),
        }
    }
    fn check_accounting(&self, when: &str) -> Result<(), Violation> {
        let Some(c) = self.conn() else { return Ok(()) };
        let s = guard("verif_snapshot", || c.verif_snapshot())?;
        for r in &s.receive_reliable {
            if r.memory_usage_bytes > r.max_memory_usage_bytes {
                return Err(Violation::new(
                    "C06/accounting-outside-budget/receive-reliable",
                    format!("{}: reliable receive channel {} accounts {} bytes, budget {}", when, r.channel_id, r.memory_usage_bytes, r.max_memory_usage_bytes),
                ));
            }
        }
        for r in &s.receive_unreliable {
            if r.memory_usage_bytes > r.max_memory_usage_bytes {
                return Err(Violation::new(
                    "C06/accounting-outside-budget/receive-unreliable",
                    format!("{}: unreliable receive channel {} accounts {} bytes, budget {}", when, r.channel_id, r.memory_usage_bytes, r.max_memory_usage_bytes),
                ));
            }
        }
        Ok(())
    }
    /// every other public call still returns; the server's other connection still works
    fn api_alive(&mut self) -> Result<u64, Violation> {
        let mut obs = 0u64;
        match self {
            Target::Client(c) => {
                guard("update", || c.update(Duration::from_millis(100)))?;
                guard("send_message", || c.send_message(1u8, vec![1u8, 2, 3]))?;
                for ch in 0..3u8 {
                    for _ in 0..8 {
                        if guard("receive_message", || c.receive_message(ch))?.is_none() {
                            break;
                        }
                        obs += 1;
                    }
                }
                let p = guard("get_packets_to_send", || c.get_packets_to_send())?;
                obs += p.len() as u64 * 100;
                guard("status getters", || {
                    let _ = (c.is_connected(), c.is_disconnected(), c.disconnect_reason(), c.rtt(), c.packet_loss(), c.bytes_sent_per_sec(), c.bytes_received_per_sec());
                    for ch in 0..3u8 {
                        let _ = (c.channel_available_memory(ch), c.can_send_message(ch, 10), c.can_send_message(ch, 5000));
                    }
                })?;
                guard("update", || c.update(Duration::from_secs(4)))?;
                if let Some(r) = c.disconnect_reason() {
                    obs += h64(&format!("{:?}", r)) % 1000;
                }
            }
            Target::Server { srv, y_peer } => {
                guard("update", || srv.update(Duration::from_millis(100)))?;
                guard("send_message", || srv.send_message(CID, 1u8, vec![1u8, 2, 3]))?;
                guard("broadcast_message", || srv.broadcast_message(2u8, vec![9u8; 10]))?;
                for ch in 0..3u8 {
                    for _ in 0..8 {
                        if guard("receive_message", || srv.receive_message(CID, ch))?.is_none() {
                            break;
                        }
                        obs += 1;
                    }
                }
                let p = guard("get_packets_to_send", || srv.get_packets_to_send(CID).unwrap_or_default())?;
                obs += p.len() as u64 * 100;
                guard("status getters", || {
                    let _ = (srv.is_connected(CID), srv.disconnect_reason(CID), srv.clients_id(), srv.disconnections_id(), srv.rtt(CID), srv.packet_loss(CID), srv.bytes_sent_per_sec(CID), srv.bytes_received_per_sec(CID));
                    for ch in 0..3u8 {
                        let _ = (srv.channel_available_memory(CID, ch), srv.can_send_message(CID, ch, 10), srv.can_send_message(CID, ch, 5000));
                    }
                })?;
                if let Some(r) = srv.disconnect_reason(CID) {
                    obs += h64(&format!("{:?}", r)) % 1000;
                }
                // connection Y must be untouched: complete a reliable exchange in both directions
                let hello: Vec<u8> = b"hello from y".to_vec();
                let big: Vec<u8> = (0..2500u32).map(|i| i as u8).collect();
                guard("y send", || {
                    y_peer.send_message(1u8, hello.clone());
                    srv.send_message(YID, 1u8, big.clone());
                })?;
                let mut got_up = None;
                let mut got_down = None;
                for _ in 0..4 {
                    guard("y exchange", || {
                        y_peer.update(Duration::from_millis(100));
                        srv.update(Duration::from_millis(100));
                        for p in y_peer.get_packets_to_send() {
                            let _ = srv.process_packet_from(&p, YID);
                        }
                        for p in srv.get_packets_to_send(YID).unwrap_or_default() {
                            y_peer.process_packet(&p);
                        }
                        if let Some(m) = srv.receive_message(YID, 1u8) {
                            got_up = Some(m);
                        }
                        if let Some(m) = y_peer.receive_message(1u8) {
                            got_down = Some(m);
                        }
                    })?;
                }
                if srv.disconnect_reason(YID).is_some() || !srv.is_connected(YID) || y_peer.is_disconnected() {
                    return Err(Violation::new(
                        "C06/other-connection-disconnected",
                        format!("the server's other connection is no longer healthy: {:?} / peer {:?}", srv.disconnect_reason(YID), y_peer.disconnect_reason()),
                    ));
                }
                if got_up.as_deref() != Some(&hello[..]) || got_down.as_deref() != Some(&big[..]) {
                    return Err(Violation::new(
                        "C06/other-connection-traffic-disturbed",
                        format!("reliable exchange on the server's other connection did not complete (up {:?} bytes, down {:?} bytes)", got_up.map(|m| m.len()), got_down.map(|m| m.len())),
                    ));
                }
                // whatever the hostile packet left behind must not go off later either (stale-fragment clean-up at 3 s)
                guard("update", || srv.update(Duration::from_secs(4)))?;
                guard("update", || srv.update(Duration::from_millis(1)))?;
            }
        }
        Ok(obs)
    }
    fn status_ok(&self) -> Result<(), Violation> {
        // connected, or disconnected with a reason
        if let Some(c) = self.conn() {
            if !c.is_connected() && c.disconnect_reason().is_none() {
                return Err(Violation::new("C06/neither-connected-nor-disconnected-with-reason", "status is neither connected nor disconnected".to_string()));
            }
        }
        Ok(())
    }
}

pub const NSTATES: usize = 10;
pub const STATE_NAMES: [&str; NSTATES] = [
    "fresh",
    "mid-reassembly",
    "buffered-undrained",
    "after-drain",
    "unacked+sent-map",
    "64-pending-ranges",
    "combined",
    "receive-channels-2400-below-budget",
    "receive-channels-2000-below-budget",
    "receive-channels-1300-below-budget",
];

/// builds prepared state `si` for the client (role 0) or the server (role 1) as target
pub fn prepared(role: usize, si: usize) -> Target {
    let cfg = cfg();
    let mut l = Link::new(&cfg);
    let h = 1 - role; // honest sender
    let t = role;
    let mut do_mid = |l: &mut Link, first_id_hint: usize| {
        let _ = first_id_hint;
        for ch in 0..3u8 {
            let _ = l.send(h, ch, 2401);
        }
        let _ = l.update(h, 100);
        let first = l.flush(h).unwrap();
        for p in first..l.emitted.len() {
            let is_first_slice = matches!(
                &l.emitted[p].info,
                crate::link::PktInfo::ReliableSlice { idx: 0, .. } | crate::link::PktInfo::UnreliableSlice { idx: 0, .. }
            );
            if is_first_slice {
                let _ = l.deliver(h, p);
            }
        }
    };
    let do_buffered = |l: &mut Link| {
        for ch in 0..3u8 {
            let _ = l.send(h, ch, 3);
            let _ = l.send(h, ch, 70);
        }
        let _ = l.update(h, 100);
        let first = l.flush(h).unwrap();
        for p in first..l.emitted.len() {
            let _ = l.deliver(h, p);
        }
    };
    let do_unacked = |l: &mut Link| {
        for ch in 1..3u8 {
            let _ = l.send(t, ch, 5);
            let _ = l.send(t, ch, 2401);
        }
        let _ = l.send(t, 0, 10);
        let _ = l.update(t, 100);
        let _ = l.flush(t);
    };
    let do_ranges = |l: &mut Link| {
        for i in 0..64u64 {
            let b = small(1, 1000 + 10 * i, 0, 0, &[]).bytes;
            if t == 0 {
                l.ends.a.process_packet(&b);
            } else {
                let _ = l.ends.b.process_packet_from(&b, CID);
            }
        }
    };
    // every receive channel is left exactly 2400 bytes (one 2-slice reservation) below its budget
    let do_nearly_full = |l: &mut Link, free: usize| {
        for ch in 0..3u8 {
            let mut left = BUDGET - free;
            while left > 0 {
                let n = left.min(1200);
                let _ = l.send(h, ch, n);
                left -= n;
            }
        }
        for _ in 0..6 {
            let _ = l.update(h, 100);
            let first = l.flush(h).unwrap();
            for p in first..l.emitted.len() {
                let _ = l.deliver(h, p);
            }
        }
    };
    match si {
        0 => {}
        7 => do_nearly_full(&mut l, 2400),
        8 => do_nearly_full(&mut l, 2000),
        9 => do_nearly_full(&mut l, 1300),
        1 => do_mid(&mut l, 0),
        2 => do_buffered(&mut l),
        3 => {
            do_buffered(&mut l);
            let _ = l.drain(h);
            do_buffered(&mut l);
            let _ = l.drain(h);
        }
        4 => do_unacked(&mut l),
        5 => do_ranges(&mut l),
        _ => {
            do_unacked(&mut l);
            do_buffered(&mut l);
            let _ = l.drain(h);
            do_buffered(&mut l);
            do_mid(&mut l, 4);
            do_ranges(&mut l);
        }
    }
    if role == 0 {
        Target::Client(l.ends.a)
    } else {
        let mut srv = l.ends.b;
        srv.add_connection(YID);
        let mut y_peer = RenetClient::new(cfg.connection_config());
        y_peer.set_connected();
        Target::Server { srv, y_peer }
    }
}

#[derive(Clone, Debug)]
pub struct Case {
    pub role: usize,
    pub state: usize,
    pub packets: Vec<usize>, // indices into the packet table
}

pub fn run_case(base: &Target, pkts: &[&Hostile]) -> (u64, Option<Violation>) {
    let mut t = base.clone();
    let r = (|| -> Result<u64, Violation> {
        for (i, p) in pkts.iter().enumerate() {
            t.inject(&p.bytes)?;
            t.status_ok()?;
            t.check_accounting(&format!("after hostile packet {} ({})", i, p.desc))?;
        }
        let o = t.api_alive()?;
        t.check_accounting("after follow-up API calls")?;
        Ok(o)
    })();
    match r {
        Ok(o) => (o, None),
        Err(v) => {
            let sig = if v.signature.starts_with("panic/") { format!("C06/{}", v.signature) } else { v.signature };
            (1, Some(Violation::new(sig, v.message)))
        }
    }
}

pub fn run(tier: Tier) -> i32 {
    let mut rep = Report::new("C06", tier);
    rep.rule("sweeps over hostile histories injected into 7 prepared states (fresh, mid-reassembly, buffered, after drains, unacked + sent-packet map, 64 pending ack ranges, combined) of a client endpoint and of a server-side connection: (1) every single packet of a hand-assembled boundary-value alphabet (types, sequence, channel id, announced counts, ids, lengths, slice index / count / payload length, ack shapes, non-minimal varints, truncations); (2) every pair and (3) every triple over the slice family {index} x {count} x {payload length} of one message id on the reliable-ordered, reliable-unordered and unreliable channel; oracle: no unwind, status connected or disconnected-with-reason, receive accounting within [0,budget] (hook), every other API call still returns, the server's other connection completes a reliable exchange");
    rep.assume("packets are assembled by the harness's own varint writer (so unencodable values can be produced); states are prepared through honest traffic of the real peer endpoint");
    let singles = singles(tier);
    let states: Vec<(usize, usize, Target)> = (0..2).flat_map(|r| (0..NSTATES).map(move |s| (r, s, prepared(r, s)))).collect();
    // (1) singles x states
    let n = singles.len() * states.len();
    let r = explore::sweep(n, |i| {
        let (si, pi) = (i / singles.len(), i % singles.len());
        let (o, v) = run_case(&states[si].2, &[&singles[pi]]);
        (h64(&(si, o, pi % 13)), v)
    });
    rep.add_sweep(
        "single-packets",
        r.cases,
        r.distinct_outcomes,
        states.len() as u64,
        vec![singles[1].desc.clone(), singles[singles.len() / 2].desc.clone(), singles[singles.len() - 1].desc.clone()],
    );
    for (i, v) in r.found {
        let (si, pi) = (i / singles.len(), i % singles.len());
        rep.violation(
            "single-packets",
            v,
            J::obj()
                .set("kind", J::s("hostile"))
                .set("role", J::i(states[si].0 as u64))
                .set("state", J::i(states[si].1 as u64))
                .set("state_name", J::s(STATE_NAMES[states[si].1]))
                .set("packets", J::Arr(vec![J::s(hex(&singles[pi].bytes))]))
                .set("packets_text", J::Arr(vec![J::s(singles[pi].desc.clone())])),
        );
    }
    // (2)+(3) slice family words
    let fam = family(tier);
    let depth = tier.pick(2usize, 3usize);
    let fl = fam.len();
    let words = fl.pow(depth as u32);
    let targets: Vec<(u8, u8)> = vec![(2, 1), (2, 2), (3, 0)]; // (packet type, channel)
    let fstates: Vec<usize> = vec![0, 1, 6, 7, 8, 9]; // fresh, mid-reassembly, combined, nearly full (three margins)
    let total = words * targets.len() * fstates.len() * 2;
    let r = explore::sweep(total, |i| {
        let w = i % words;
        let rest = i / words;
        let (ty, ch) = targets[rest % targets.len()];
        let rest = rest / targets.len();
        let st = fstates[rest % fstates.len()];
        let role = rest / fstates.len();
        let id = if st == 0 { 0 } else { 4 };
        let mut pk: Vec<Hostile> = vec![];
        let mut x = w;
        for k in 0..depth {
            let (idx, n, len) = fam[x % fl];
            x /= fl;
            // shorter words are covered by words whose later letters repeat the first
            pk.push(slice_pkt(ty, 50 + k as u64, ch, id, idx, n, len as u64, len));
        }
        let refs: Vec<&Hostile> = pk.iter().collect();
        let base = &states[role * NSTATES + st].2;
        let (o, v) = run_case(base, &refs);
        (h64(&(o, ty, ch, st, role, w % 17)), v)
    });
    rep.add_sweep(
        "slice-family-words",
        r.cases,
        r.distinct_outcomes,
        (fstates.len() * 2) as u64,
        vec![format!("family of {} letters (idx, n, len), words of length {}", fl, depth)],
    );
    for (i, v) in r.found {
        let w = i % words;
        let rest = i / words;
        let (ty, ch) = targets[rest % targets.len()];
        let rest = rest / targets.len();
        let st = fstates[rest % fstates.len()];
        let role = rest / fstates.len();
        let id = if st == 0 { 0 } else { 4 };
        let mut x = w;
        let mut hexes = vec![];
        let mut texts = vec![];
        for k in 0..depth {
            let (idx, n, len) = fam[x % fl];
            x /= fl;
            let p = slice_pkt(ty, 50 + k as u64, ch, id, idx, n, len as u64, len);
            hexes.push(J::s(hex(&p.bytes)));
            texts.push(J::s(p.desc));
        }
        rep.violation(
            "slice-family-words",
            v,
            J::obj()
                .set("kind", J::s("hostile"))
                .set("role", J::i(role as u64))
                .set("state", J::i(st as u64))
                .set("state_name", J::s(STATE_NAMES[st]))
                .set("packets", J::Arr(hexes))
                .set("packets_text", J::Arr(texts)),
        );
    }
    // scale class: many partial reassemblies at once (first slices of K distinct message ids), then 4 s of updates
    {
        let mut hist: Vec<(usize, usize, u8, u8, usize)> = vec![];
        for role in 0..2 {
            for st in [0usize, 1] {
                for (ty, ch) in [(3u8, 0u8), (2, 1), (2, 2)] {
                    for k in [31usize, 32, 33, 34, 40, 64, 80] {
                        hist.push((role, st, ty, ch, k));
                    }
                }
            }
        }
        let r = explore::sweep(hist.len(), |i| {
            let (role, st, ty, ch, k) = hist[i];
            let pk: Vec<Hostile> = (0..k).map(|m| slice_pkt(ty, 200 + m as u64, ch, 100 + m as u64, 0, 2, 1200, 1200)).collect();
            let refs: Vec<&Hostile> = pk.iter().collect();
            let (o, v) = run_case(&states[role * NSTATES + st].2, &refs);
            (h64(&(o, role, st, ty, k)), v)
        });
        rep.add_sweep("many-partial-messages", r.cases, r.distinct_outcomes, 4, vec!["first slices of K in {31,32,33,34,40,64,80} distinct message ids, then follow-up API calls incl. update(4 s)".into()]);
        for (i, v) in r.found {
            let (role, st, ty, ch, k) = hist[i];
            rep.violation(
                "many-partial-messages",
                v,
                J::obj()
                    .set("kind", J::s("hostile"))
                    .set("role", J::i(role as u64))
                    .set("state", J::i(st as u64))
                    .set("state_name", J::s(STATE_NAMES[st]))
                    .set("packets", J::Arr((0..k).map(|m| J::s(hex(&slice_pkt(ty, 200 + m as u64, ch, 100 + m as u64, 0, 2, 1200, 1200).bytes))).collect()))
                    .set("packets_text", J::Arr(vec![J::s(format!("first slices (n=2) of {} distinct message ids on channel {}", k, ch))])),
            );
        }
    }
    rep.finish()
}

pub fn hex(b: &[u8]) -> String {
    b.iter().map(|x| format!("{:02x}", x)).collect()
}

pub fn unhex(s: &str) -> Vec<u8> {
    (0..s.len() / 2).filter_map(|i| u8::from_str_radix(&s[2 * i..2 * i + 2], 16).ok()).collect()
}

pub fn replay(j: &J) -> i32 {
    let role = j.get("role").and_then(|x| x.as_i()).unwrap_or(0) as usize;
    let state = j.get("state").and_then(|x| x.as_i()).unwrap_or(0) as usize;
    let pk: Vec<Hostile> = j
        .get("packets")
        .and_then(|a| a.as_arr())
        .map(|a| {
            a.iter()
                .filter_map(|x| x.as_str())
                .map(|h| Hostile { desc: format!("{} bytes", h.len() / 2), bytes: unhex(h) })
                .collect()
        })
        .unwrap_or_default();
    println!(
        "target: {} in state '{}'; injecting {} packet(s)",
        if role == 0 { "RenetClient::process_packet" } else { "RenetServer::process_packet_from" },
        STATE_NAMES[state.min(NSTATES - 1)],
        pk.len()
    );
    if let Some(t) = j.get("packets_text").and_then(|a| a.as_arr()) {
        for x in t {
            println!("  {}", x.as_str().unwrap_or(""));
        }
    }
    let base = prepared(role, state.min(NSTATES - 1));
    let refs: Vec<&Hostile> = pk.iter().collect();
    let (o1, v) = run_case(&base, &refs);
    let (o2, _) = run_case(&base, &refs);
    if o1 != o2 {
        eprintln!("MACHINERY ERROR: replay not deterministic");
        return 2;
    }
    match v {
        Some(v) => {
            println!("RESULT: violation {} — {}", v.signature, v.message);
            1
        }
        None => {
            println!("RESULT: no violation");
            0
        }
    }
}
