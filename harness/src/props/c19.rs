//! C19 — No traffic amplification towards addresses that have not proven themselves.

use super::hsworld::{corruptions, request_datagram, standard_tokens};
use crate::explore::{self, h64, Violation};
use crate::json::J;
use crate::nc::{self, client_addr, make_token, new_client, new_server, server_addr, TokenSpec, PROTOCOL, SR};
use crate::props::c07::LENGTHS;
use crate::report::{Report, Tier};
use renetcode::verif::Packet;
use renetcode::NetcodeServer;
use std::net::SocketAddr;
use std::time::Duration;

pub struct State {
    pub name: &'static str,
    pub server: NetcodeServer,
    /// in this state token t1 was already presented from another address: its request is not valid from the source
    pub t1_used_elsewhere: bool,
}

pub struct Dgram {
    pub desc: String,
    pub bytes: Vec<u8>,
    /// does it carry a valid connect token / a valid response for the state it is sent in?
    pub valid: Validity,
}

#[derive(Clone, Copy, PartialEq, Eq, Debug)]
pub enum Validity {
    Invalid,
    /// a request whose token is valid (may legitimately be answered)
    ValidRequest,
    /// a response sealed with the right keys echoing a genuine challenge (answered only if the source is pending)
    ValidResponse,
}

pub struct Fixture {
    pub states: Vec<State>,
    pub source: SocketAddr,
    pub other: SocketAddr,
    pub dgrams: Vec<Dgram>,
}

pub fn fixture(tier: Tier) -> Result<Fixture, Violation> {
    let public = vec![server_addr(0)];
    let toks = standard_tokens(&public);
    let source = client_addr(1);
    let other = client_addr(2);
    let third = client_addr(3);
    let t1 = &toks[0];
    let t2 = &toks[1];
    let t3 = &toks[7];
    // states
    let empty = new_server(2, public.clone(), Duration::ZERO);
    let mut source_pending = empty.clone();
    let SR::Send { bytes: challenge1, .. } = nc::srv_process(&mut source_pending, source, &t1.request)? else {
        return Err(Violation::new("C19/fixture", "no challenge".to_string()));
    };
    let mut other_pending = empty.clone();
    let SR::Send { bytes: challenge2, .. } = nc::srv_process(&mut other_pending, other, &t2.request)? else {
        return Err(Violation::new("C19/fixture", "no challenge".to_string()));
    };
    let mut full = new_server(1, public.clone(), Duration::ZERO);
    let mut c2 = new_client(Duration::ZERO, &t2.token);
    nc::connect(&mut full, &mut c2, other)?;
    let mut full_source_pending = {
        // source became pending while there was room, then the server filled up
        let mut s = new_server(1, public.clone(), Duration::ZERO);
        nc::srv_process(&mut s, source, &t1.request)?;
        let mut c = new_client(Duration::ZERO, &t2.token);
        nc::connect(&mut s, &mut c, other)?;
        s
    };
    full_source_pending.update(Duration::from_millis(10));
    let mut one_connected = new_server(2, public.clone(), Duration::ZERO);
    let mut c3 = new_client(Duration::ZERO, &t3.token);
    nc::connect(&mut one_connected, &mut c3, third)?;
    // a second token for the same client id as t1, pending at another address while the source is pending too
    let mut t1b_spec = TokenSpec::new(1, 12, public.clone());
    t1b_spec.timeout = 5;
    let t1b = make_token(&t1b_spec);
    let mut both_pending_same_id = source_pending.clone();
    let SR::Send { bytes: challenge1b, .. } = nc::srv_process(&mut both_pending_same_id, other, &request_datagram(&t1b))? else {
        return Err(Violation::new("C19/fixture", "no challenge for the second token of id 1".to_string()));
    };
    // token t1 already presented (and refused) from a third address on a full server
    let mut full_t1_used = full.clone();
    let _ = nc::srv_process(&mut full_t1_used, third, &t1.request)?;
    let mut room_t1_used = new_server(2, public.clone(), Duration::ZERO);
    let _ = nc::srv_process(&mut room_t1_used, third, &t1.request)?;
    // the same, and the source itself is half-open through another valid token of its own
    let mut t1_used_source_pending = room_t1_used.clone();
    let _ = nc::srv_process(&mut t1_used_source_pending, source, &t2.request)?;
    let mut full_t1_used_source_pending = {
        let mut s = new_server(1, public.clone(), Duration::ZERO);
        nc::srv_process(&mut s, source, &t2.request)?;
        let mut c = new_client(Duration::ZERO, &t3.token);
        nc::connect(&mut s, &mut c, other)?;
        let _ = nc::srv_process(&mut s, third, &t1.request)?;
        s
    };
    full_t1_used_source_pending.update(Duration::from_millis(10));
    // the client id of the source's token is connected from another address through a second token of that id: right
    // after the handshake (the server has heard nothing from it since) and after a first keep-alive
    let (id_connected_elsewhere_fresh, id_connected_elsewhere_heard) = {
        let mut s = new_server(2, public.clone(), Duration::ZERO);
        let mut c = new_client(Duration::ZERO, &t1b);
        if !nc::connect(&mut s, &mut c, other)? {
            return Err(Violation::new("C19/fixture", "handshake of the second token of id 1 failed".to_string()));
        }
        let fresh = s.clone();
        if let Some((ka, _)) = nc::cli_update(&mut c, Duration::from_millis(250))? {
            nc::srv_process(&mut s, other, &ka)?;
        }
        (fresh, s)
    };
    let states = vec![
        State { name: "the token's client id is connected from another address (nothing heard from it since the handshake)", server: id_connected_elsewhere_fresh, t1_used_elsewhere: false },
        State { name: "the token's client id is connected from another address (keep-alive received)", server: id_connected_elsewhere_heard, t1_used_elsewhere: false },
        State { name: "empty", server: empty, t1_used_elsewhere: false },
        State { name: "source pending", server: source_pending, t1_used_elsewhere: false },
        State { name: "other address pending", server: other_pending, t1_used_elsewhere: false },
        State { name: "server full", server: full, t1_used_elsewhere: false },
        State { name: "server full, source pending", server: full_source_pending, t1_used_elsewhere: false },
        State { name: "another client connected", server: one_connected, t1_used_elsewhere: false },
        State { name: "source pending and a second token of the same client id pending elsewhere", server: both_pending_same_id, t1_used_elsewhere: false },
        State { name: "server full, token already presented from another address", server: full_t1_used, t1_used_elsewhere: true },
        State { name: "room left, token already presented from another address", server: room_t1_used, t1_used_elsewhere: true },
        State { name: "room left, token already presented from another address, the source is half-open through another token", server: t1_used_source_pending, t1_used_elsewhere: true },
        State { name: "server full, token already presented from another address, the source is half-open through another token", server: full_t1_used_source_pending, t1_used_elsewhere: true },
    ];
    // datagrams
    let mut d: Vec<Dgram> = vec![];
    let req = t1.request.clone();
    d.push(Dgram { desc: "valid request (1078 B)".into(), bytes: req.clone(), valid: Validity::ValidRequest });
    for pad in [1usize, 22, 322] {
        let mut b = req.clone();
        b.extend(std::iter::repeat(0).take(pad));
        d.push(Dgram { desc: format!("valid request padded to {}", b.len()), bytes: b, valid: Validity::ValidRequest });
    }
    for cut in [1usize, 16, 17, 500] {
        d.push(Dgram { desc: format!("valid request truncated by {}", cut), bytes: req[..req.len() - cut].to_vec(), valid: Validity::Invalid });
    }
    for (name, b) in corruptions(&req) {
        d.push(Dgram { desc: format!("request corrupted in {}", name), bytes: b, valid: Validity::Invalid });
    }
    for t in [4usize, 5, 6] {
        d.push(Dgram { desc: format!("request with {}", toks[t].name), bytes: toks[t].request.clone(), valid: Validity::Invalid });
    }
    {
        let mut ex = TokenSpec::new(8, 88, public.clone());
        ex.expire = 0;
        d.push(Dgram { desc: "request with an expired token".into(), bytes: request_datagram(&make_token(&ex)), valid: Validity::Invalid });
    }
    if tier == Tier::Thorough {
        for i in 0..req.len() {
            for b in 0..8u8 {
                if i == 0 && b >= 4 {
                    continue; // the prefix high nibble of a request is neither sealed nor interpreted
                }
                let mut x = req.clone();
                x[i] ^= 1 << b;
                d.push(Dgram { desc: format!("valid request with bit {} of byte {} flipped", b, i), bytes: x, valid: Validity::Invalid });
            }
        }
    }
    // responses: genuine challenge of the source's own pending session, sealed with the right keys
    let open_ch = |bytes: &Vec<u8>, key: &[u8; 32]| -> Option<(u64, [u8; 300])> {
        let mut b = bytes.clone();
        match nc::open(&mut b, PROTOCOL, key) {
            Some((_, Packet::Challenge { token_sequence, token_data })) => Some((token_sequence, token_data)),
            _ => None,
        }
    };
    let (cs1, cd1) = open_ch(&challenge1, &t1.token.server_to_client_key).ok_or_else(|| Violation::new("C19/fixture", "challenge 1 does not open".to_string()))?;
    let (cs2, cd2) = open_ch(&challenge2, &t2.token.server_to_client_key).ok_or_else(|| Violation::new("C19/fixture", "challenge 2 does not open".to_string()))?;
    for seq in [0u64, 1, 300] {
        let b = nc::seal(&Packet::Response { token_sequence: cs1, token_data: cd1 }, PROTOCOL, seq, &t1.token.client_to_server_key);
        d.push(Dgram { desc: format!("valid response, client sequence {} ({} B)", seq, b.len()), bytes: b.clone(), valid: Validity::ValidResponse });
        let mut p = b.clone();
        p.extend([0u8; 40]);
        d.push(Dgram { desc: format!("valid response seq {} padded by 40", seq), bytes: p, valid: Validity::Invalid });
        d.push(Dgram { desc: format!("valid response seq {} truncated by 1", seq), bytes: b[..b.len() - 1].to_vec(), valid: Validity::Invalid });
    }
    if tier == Tier::Thorough {
        let b = nc::seal(&Packet::Response { token_sequence: cs1, token_data: cd1 }, PROTOCOL, 1, &t1.token.client_to_server_key);
        for i in 0..b.len() {
            for bit in 0..8u8 {
                let mut x = b.clone();
                x[i] ^= 1 << bit;
                d.push(Dgram { desc: format!("valid response with bit {} of byte {} flipped", bit, i), bytes: x, valid: Validity::Invalid });
            }
        }
    }
    d.push(Dgram {
        desc: "response with a garbage challenge".into(),
        bytes: nc::seal(&Packet::Response { token_sequence: 1, token_data: [7u8; 300] }, PROTOCOL, 2, &t1.token.client_to_server_key),
        valid: Validity::Invalid,
    });
    d.push(Dgram {
        desc: "response with another session's challenge".into(),
        bytes: nc::seal(&Packet::Response { token_sequence: cs2, token_data: cd2 }, PROTOCOL, 2, &t1.token.client_to_server_key),
        valid: Validity::Invalid,
    });
    if let Some((cs, cd)) = open_ch(&challenge1b, &t1b.server_to_client_key) {
        d.push(Dgram {
            desc: "response echoing the challenge issued to another token of the same client id".into(),
            bytes: nc::seal(&Packet::Response { token_sequence: cs, token_data: cd }, PROTOCOL, 2, &t1.token.client_to_server_key),
            valid: Validity::Invalid,
        });
    }
    d.push(Dgram {
        desc: "response sealed with another token's keys".into(),
        bytes: nc::seal(&Packet::Response { token_sequence: cs1, token_data: cd1 }, PROTOCOL, 2, &t2.token.client_to_server_key),
        valid: Validity::Invalid,
    });
    for prefix in 0..=255u8 {
        for &len in &LENGTHS {
            if len == 0 || (tier == Tier::Quick && len > 400 && prefix & 0x0f > 6) {
                continue;
            }
            let mut b: Vec<u8> = (0..len).map(|i| (i as u8).wrapping_mul(13)).collect();
            b[0] = prefix;
            d.push(Dgram { desc: format!("prefix {:#04x} length {}", prefix, len), bytes: b, valid: Validity::Invalid });
        }
    }
    Ok(Fixture { states, source, other, dgrams: d })
}

/// one datagram presented three times in a row from the unproven source address
pub fn run_case(fx: &Fixture, si: usize, di: usize) -> (u64, Option<Violation>) {
    let mut s = fx.states[si].server.clone();
    let dg = &fx.dgrams[di];
    let mut obs = vec![];
    for round in 0..3 {
        let r = match nc::srv_process(&mut s, fx.source, &dg.bytes) {
            Err(v) => return (0, Some(Violation::new(format!("C19/{}", v.signature), v.message))),
            Ok(r) => r,
        };
        obs.push(r.kind());
        let reply = r.reply().map(|(a, b)| (a, b.len()));
        if let Some((to, len)) = reply {
            if to != fx.source {
                return (1, Some(Violation::new("C19/reply-to-another-address", format!("{} in state '{}': reply sent to {} instead of the source {}", dg.desc, fx.states[si].name, to, fx.source))));
            }
            if len >= dg.bytes.len() {
                return (
                    2,
                    Some(Violation::new(
                        "C19/reply-not-smaller-than-request",
                        format!("{} in state '{}' (round {}): {} byte reply to a {} byte datagram", dg.desc, fx.states[si].name, round, len, dg.bytes.len()),
                    )),
                );
            }
            let invalid_here = dg.valid == Validity::Invalid || (dg.valid == Validity::ValidRequest && fx.states[si].t1_used_elsewhere);
            if invalid_here {
                return (
                    3,
                    Some(Violation::new(
                        format!("C19/invalid-datagram-answered/{}", r.kind()),
                        format!("{} in state '{}' (round {}): answered with {} ({} bytes) although it carries neither a valid connect token nor a valid response", dg.desc, fx.states[si].name, round, r.kind(), len),
                    )),
                );
            }
        }
        if matches!(r, SR::Payload { .. } | SR::Disconnected { .. }) {
            return (4, Some(Violation::new("C19/unproven-address-produces-session-event", format!("{} produced {}", dg.desc, r.kind()))));
        }
        if let SR::Connected { .. } = r {
            if dg.valid != Validity::ValidResponse {
                return (5, Some(Violation::new("C19/connected-without-valid-response", format!("{} in state '{}'", dg.desc, fx.states[si].name))));
            }
            break; // the address has completed its handshake: no longer in scope
        }
    }
    (h64(&(si, obs, dg.valid == Validity::Invalid)), None)
}

pub fn run(tier: Tier) -> i32 {
    let mut rep = Report::new("C19", tier);
    // the thorough bounds of this property take seconds: the quick tier runs them too
    crate::report::note_tier(tier);
    let tier = { let _ = tier; Tier::Thorough };
    rep.rule("sweep: every datagram of the alphabet {valid request at 1078 B and padded to 1079/1100/1400; truncated by 1/16/17/500; 9 single-field corruptions; foreign key / foreign protocol / wrong host / expired tokens; valid responses with client sequence 0, 1, 300, padded, truncated; garbage challenge; another session's challenge; another token's keys; all 256 prefix bytes x the parser-threshold length list} presented three times in a row from an address without a completed handshake, in server states {empty, source pending, other address pending, full, full with source pending, another client connected, the token's client id connected from another address (silent since its handshake / heard), token already presented elsewhere}; oracle per call: at most one reply, addressed to the source, strictly smaller than the datagram received, and no reply at all for datagrams carrying neither a valid connect token nor a valid response");
    rep.assume("one process_packet call returns at most one datagram by construction of ServerResult; the transport sends exactly what it returns");
    let fx = match fixture(tier) {
        Ok(f) => f,
        Err(v) => {
            rep.violation("fixture", v, J::obj().set("kind", J::s("fixture")));
            return rep.finish();
        }
    };
    let (ns, nd) = (fx.states.len(), fx.dgrams.len());
    let r = explore::sweep(ns * nd, |i| run_case(&fx, i % ns, i / ns));
    rep.add_sweep("datagrams-x-states", r.cases, r.distinct_outcomes, ns as u64, vec![fx.dgrams[0].desc.clone(), fx.dgrams[20].desc.clone(), fx.dgrams[nd - 1].desc.clone()]);
    for (i, v) in r.found {
        rep.violation(
            "datagrams-x-states",
            v,
            J::obj().set("kind", J::s("amplification")).set("state", J::i((i % ns) as u64)).set("datagram", J::i((i / ns) as u64)).set("datagram_text", J::s(fx.dgrams[i / ns].desc.clone())),
        );
    }
    rep.finish()
}

pub fn replay(j: &J) -> i32 {
    let tier = match j.get("tier").and_then(|t| t.as_str()) {
        Some("thorough") => Tier::Thorough,
        _ => Tier::Quick,
    };
    crate::report::note_tier(tier);
    let tier = { let _ = tier; Tier::Thorough };
    let fx = match fixture(tier) {
        Ok(f) => f,
        Err(v) => {
            println!("RESULT: violation {} — {}", v.signature, v.message);
            return 1;
        }
    };
    let si = j.get("state").and_then(|x| x.as_i()).unwrap_or(0) as usize;
    let di = j.get("datagram").and_then(|x| x.as_i()).unwrap_or(0) as usize;
    if si >= fx.states.len() || di >= fx.dgrams.len() {
        return 2;
    }
    println!("state '{}', datagram: {} ({} B) x3 from {}", fx.states[si].name, fx.dgrams[di].desc, fx.dgrams[di].bytes.len(), fx.source);
    match run_case(&fx, si, di).1 {
        Some(v) => {
            println!("RESULT: violation {} — {}", v.signature, v.message);
            1
        }
        None => {
            println!("RESULT: no violation");
            0
        }
    }
}
