//! C01 — ReliableOrdered: exactly-once, in-order, intact delivery under any faults.

use super::{replay_link, run_link_scenarios, LinkScenario};
use crate::explore::Violation;
use crate::json::J;
use crate::link::{describe, Chan, Kind, Link, LinkCfg, Probe, Send};
use crate::report::{Report, Tier};

pub struct OrderedProbe {
    /// how many obtained messages per (dir, channel index) were already verified
    checked: [Vec<usize>; 2],
    pub expect_complete: bool,
    /// the scenario lets the application fall behind on a small budget: a disconnect for exhausted channel
    /// memory is then the documented outcome and ends the obligations; a silent stall is not
    pub lazy_app: bool,
}

impl OrderedProbe {
    pub fn new() -> Self {
        OrderedProbe {
            checked: [vec![], vec![]],
            expect_complete: true,
            lazy_app: false,
        }
    }

    fn check_prefix(&mut self, l: &Link, dir: usize) -> Result<(), Violation> {
        for (ci, ch) in l.cfg.chans[dir].iter().enumerate() {
            if ch.kind != Kind::Ordered {
                continue;
            }
            if self.checked[dir].len() <= ci {
                self.checked[dir].resize(ci + 1, 0);
            }
            let got = &l.obtained[dir][ci];
            let sub = &l.submitted[dir][ci];
            for i in self.checked[dir][ci]..got.len() {
                if i >= sub.len() {
                    return Err(Violation::new(
                        "C01/extra-message",
                        format!(
                            "ordered channel {} dir {}: obtained message #{} ({}) but only {} were submitted",
                            ch.id,
                            dir,
                            i,
                            describe(&got[i].bytes),
                            sub.len()
                        ),
                    ));
                }
                if got[i].bytes != sub[i] {
                    return Err(Violation::new(
                        "C01/not-a-prefix",
                        format!(
                            "ordered channel {} dir {}: obtained #{} is {} but submitted #{} is {} (tick {})",
                            ch.id,
                            dir,
                            i,
                            describe(&got[i].bytes),
                            i,
                            describe(&sub[i]),
                            l.tick
                        ),
                    ));
                }
            }
            self.checked[dir][ci] = got.len();
        }
        Ok(())
    }
}

impl Probe for OrderedProbe {
    fn on_drain(&mut self, l: &Link, dir: usize) -> Result<(), Violation> {
        self.check_prefix(l, dir)
    }
    fn on_tick_end(&mut self, l: &Link) -> Result<(), Violation> {
        for e in 0..2 {
            if let Some(r) = l.ends.disconnect_reason(e) {
                if self.lazy_app && format!("{:?}", r).contains("MaxMemoryReached") {
                    self.expect_complete = false;
                    return Ok(());
                }
                return Err(Violation::new(
                    format!("C01/disconnected/{}", reason_class(&r)),
                    format!(
                        "endpoint {} disconnected ({:?}) at tick {} although both sides are honest and budgets ample; submitted messages can no longer arrive",
                        e, r, l.tick
                    ),
                ));
            }
        }
        Ok(())
    }
    fn on_end(&mut self, l: &Link) -> Result<(), Violation> {
        if !self.expect_complete {
            return Ok(());
        }
        for dir in 0..2 {
            for (ci, ch) in l.cfg.chans[dir].iter().enumerate() {
                if ch.kind != Kind::Ordered {
                    continue;
                }
                let got = l.obtained[dir][ci].len();
                let sub = l.submitted[dir][ci].len();
                if got != sub {
                    return Err(Violation::new(
                        "C01/not-delivered-after-tail",
                        format!(
                            "ordered channel {} dir {}: only {} of {} submitted messages obtained after {} fault-free ticks",
                            ch.id, dir, got, sub, l.cfg.tail
                        ),
                    ));
                }
            }
        }
        Ok(())
    }
}

pub fn reason_class(r: &renet::DisconnectReason) -> String {
    let s = format!("{:?}", r);
    s.split(|c: char| !c.is_ascii_alphanumeric()).next().unwrap_or("").to_string()
}

fn tail_for(resend_ms: u64, dts: &[u64]) -> u32 {
    let min_dt = *dts.iter().min().unwrap();
    (resend_ms.div_ceil(min_dt) + 4) as u32
}

pub fn scenarios(tier: Tier) -> Vec<LinkScenario<fn() -> Box<dyn Probe>>> {
    let r = 300u64;
    let scripts: Vec<(&str, Vec<usize>, bool)> = vec![
        ("1+1201", vec![1, 1201], false),
        ("1201+1", vec![1201, 1], false),
        ("0+1200+1", vec![0, 1200, 1], false),
        ("2401", vec![2401], false),
        ("1,1,1-per-tick", vec![1, 1, 1], true),
        ("3600+1", vec![3600, 1], false),
    ];
    let timings: Vec<(&str, Vec<u64>)> = vec![
        ("dt=R/3", vec![100]),
        ("dt=R", vec![300]),
        ("dt=2R", vec![600]),
        ("dt=irregular", vec![100, 150, 300, 450]),
    ];
    let mut out: Vec<LinkScenario<fn() -> Box<dyn Probe>>> = vec![];
    for (sname, lens, per_tick) in &scripts {
        for (tname, dts) in &timings {
            for dir in 0..2usize {
                // quick tier: a representative subset (documented in the evidence)
                let quick_keep = match (*sname, *tname, dir) {
                    ("1+1201", "dt=R/3", _) => true,
                    ("1201+1", "dt=R", 0) => true,
                    ("0+1200+1", "dt=R/3", 1) => true,
                    ("2401", "dt=R/3", 0) => true,
                    ("2401", "dt=2R", 1) => true,
                    ("1,1,1-per-tick", "dt=irregular", 0) => true,
                    ("3600+1", "dt=R", 1) => true,
                    ("1+1201", "dt=irregular", 1) => true,
                    _ => false,
                };
                if tier == Tier::Quick && !quick_keep {
                    continue;
                }
                let mut cfg = LinkCfg::base(
                    &format!("{} {} dir{}", sname, tname, dir),
                    vec![Chan::new(0, Kind::Ordered, 100_000, r)],
                    vec![Chan::new(0, Kind::Ordered, 100_000, r)],
                );
                cfg.dt_ms = dts.clone();
                cfg.horizon = 5;
                cfg.tail = tail_for(r, dts);
                cfg.script = lens
                    .iter()
                    .enumerate()
                    .map(|(i, &len)| Send {
                        tick: if *per_tick { i as u32 } else { 0 },
                        dir,
                        ch: 0,
                        len,
                    })
                    .collect();
                out.push(LinkScenario {
                    cfg,
                    probe: (|| Box::new(OrderedProbe::new()) as Box<dyn Probe>) as fn() -> Box<dyn Probe>,
                });
            }
        }
    }
    // bidirectional traffic on two ordered channels per direction, other resend times (0 = every tick, = dt, 2.5 dt)
    for (name, r2, dts) in [("R=0", 0u64, vec![100u64]), ("R=dt", 100, vec![100]), ("R=2.5dt", 250, vec![100]), ("R=300 dt irregular", 300, vec![100, 150, 300, 450])] {
        if tier == Tier::Quick && name != "R=dt" {
            continue;
        }
        let chans = || vec![Chan::new(0, Kind::Ordered, 100_000, r2), Chan::new(5, Kind::Ordered, 100_000, r2.max(50) * 2)];
        let mut cfg = LinkCfg::base(&format!("bidirectional two ordered channels {}", name), chans(), chans());
        cfg.dt_ms = dts.clone();
        cfg.horizon = 4;
        cfg.tail = (r2.max(50) * 2).div_ceil(*dts.iter().min().unwrap()) as u32 + 5;
        cfg.script = vec![
            Send { tick: 0, dir: 0, ch: 0, len: 1 },
            Send { tick: 0, dir: 0, ch: 5, len: 1201 },
            Send { tick: 0, dir: 1, ch: 0, len: 1201 },
            Send { tick: 1, dir: 1, ch: 5, len: 1 },
            Send { tick: 1, dir: 0, ch: 0, len: 70 },
        ];
        out.push(LinkScenario {
            cfg,
            probe: (|| Box::new(OrderedProbe::new()) as Box<dyn Probe>) as fn() -> Box<dyn Probe>,
        });
    }
    // a sliced message larger than half of the channel budget (reservation and final size must never be
    // accounted at the same time)
    for dir in 0..2usize {
        let mut cfg = LinkCfg::base(
            &format!("budget 4000, message 2401+1 dir{}", dir),
            vec![Chan::new(0, Kind::Ordered, 4000, 300)],
            vec![Chan::new(0, Kind::Ordered, 4000, 300)],
        );
        cfg.dt_ms = vec![100];
        cfg.horizon = 4;
        cfg.tail = 8;
        cfg.script = vec![Send { tick: 0, dir, ch: 0, len: 2401 }, Send { tick: 0, dir, ch: 0, len: 1 }];
        out.push(LinkScenario {
            cfg,
            probe: (|| Box::new(OrderedProbe::new()) as Box<dyn Probe>) as fn() -> Box<dyn Probe>,
        });
    }
    // a tick budget that the queue exceeds with mixed sizes: the packer skips the message that does not fit and packs a
    // later, shorter one (message ids inside one packet are then not consecutive)
    for dir in 0..2usize {
        if tier == Tier::Quick && dir == 1 {
            continue;
        }
        let mut cfg = LinkCfg::base(
            &format!("2000 B per tick, 900+1200+100 dir{}", dir),
            vec![Chan::new(0, Kind::Ordered, 100_000, 300)],
            vec![Chan::new(0, Kind::Ordered, 100_000, 300)],
        );
        cfg.bytes_per_tick = 2000;
        cfg.dt_ms = vec![100];
        cfg.horizon = 4;
        cfg.tail = 10;
        cfg.script = vec![Send { tick: 0, dir, ch: 0, len: 900 }, Send { tick: 0, dir, ch: 0, len: 1200 }, Send { tick: 0, dir, ch: 0, len: 100 }];
        out.push(LinkScenario {
            cfg,
            probe: (|| Box::new(OrderedProbe::new()) as Box<dyn Probe>) as fn() -> Box<dyn Probe>,
        });
    }
    out
}

/// scale class: a message of 120 slices on a link that carries 50 slices per tick; one or two packets lost
pub fn long_scenarios(kind: Kind, probe: fn() -> Box<dyn Probe>) -> Vec<LinkScenario<fn() -> Box<dyn Probe>>> {
    let mut out = vec![];
    for dir in 0..2usize {
        let mut cfg = LinkCfg::base(
            &format!("144000-byte message (120 slices) at 60000 B per tick dir{}", dir),
            vec![Chan::new(0, kind, 400_000, 300)],
            vec![Chan::new(0, kind, 400_000, 300)],
        );
        cfg.bytes_per_tick = 60_000;
        cfg.dt_ms = vec![100];
        cfg.horizon = 3;
        cfg.tail = 25;
        cfg.fates = vec![crate::link::Fate::Ok, crate::link::Fate::Drop];
        cfg.drains = vec![crate::link::Drain::End];
        cfg.allow_reverse = false;
        cfg.faults_dir = [dir == 0, dir == 1];
        cfg.script = vec![Send { tick: 0, dir, ch: 0, len: 144_000 }, Send { tick: 0, dir, ch: 0, len: 7 }];
        out.push(LinkScenario { cfg, probe });
    }
    out
}

/// scale class: a link outage (every packet of both directions lost) of 1 s, 3.25 s and 10 s that begins while a
/// sliced message is partly delivered / partly acknowledged (the faults of the first two ticks decide which part);
/// 3 s is the age at which the library forgets sent-packet records and stale unreliable fragments
pub fn outage_scenarios(kind: Kind, probe: fn() -> Box<dyn Probe>, tier: Tier) -> Vec<LinkScenario<fn() -> Box<dyn Probe>>> {
    let mut out = vec![];
    for dir in 0..2usize {
        for n in [4u32, 13, 40] {
            if tier == Tier::Quick && ((dir == 1 && n != 13) || (dir == 0 && n == 4)) {
                continue;
            }
            let mut cfg = LinkCfg::base(
                &format!("3601+1 then an outage of {} ms from tick 2, dir{}", n * 250, dir),
                vec![Chan::new(0, kind, 100_000, 300)],
                vec![Chan::new(0, kind, 100_000, 300)],
            );
            cfg.dt_ms = vec![250];
            cfg.horizon = 2;
            cfg.outage = Some((2, 2 + n));
            cfg.tail = n + 8;
            cfg.script = vec![Send { tick: 0, dir, ch: 0, len: 3601 }, Send { tick: 0, dir, ch: 0, len: 1 }];
            out.push(LinkScenario { cfg, probe });
        }
    }
    out
}

/// scale class: more than 64 acknowledgement ranges pending at the receiver (every second data packet lost for three
/// ticks while the receiver's ack packets are lost too, so nothing trims the list), then the link recovers
pub fn many_ranges_scenarios(kind: Kind, probe: fn() -> Box<dyn Probe>) -> Vec<LinkScenario<fn() -> Box<dyn Probe>>> {
    let mut out = vec![];
    for dir in 0..2usize {
        let mut cfg = LinkCfg::base(
            &format!("180000-byte message, every second data packet lost in ticks 0-2, acks lost in ticks 0-1, dir{}", dir),
            vec![Chan::new(0, kind, 400_000, 300)],
            vec![Chan::new(0, kind, 400_000, 300)],
        );
        cfg.bytes_per_tick = 60_000;
        cfg.dt_ms = vec![100];
        cfg.horizon = 4;
        cfg.tail = 30;
        cfg.alt_drop = Some((dir, 0, 3));
        cfg.dir_outage = Some((1 - dir, 0, 2));
        cfg.fates = vec![crate::link::Fate::Ok, crate::link::Fate::Drop];
        cfg.drains = vec![crate::link::Drain::End];
        cfg.allow_reverse = false;
        cfg.faults_dir = [dir == 1, dir == 0];
        cfg.script = vec![Send { tick: 0, dir, ch: 0, len: 180_000 }, Send { tick: 0, dir, ch: 0, len: 7 }];
        out.push(LinkScenario { cfg, probe });
    }
    out
}

fn lazy_probe() -> Box<dyn Probe> {
    let mut p = OrderedProbe::new();
    p.lazy_app = true;
    Box::new(p)
}

/// an application that may skip draining for up to three ticks on a 12 000-byte budget: the second message
/// (7200 B, sliced) can meet a receive channel that still holds the first (6000 B). Either somebody is
/// disconnected for channel memory, or everything arrives: nothing may be dropped silently
pub fn lazy_scenarios() -> Vec<LinkScenario<fn() -> Box<dyn Probe>>> {
    let mut out = vec![];
    for (dir, second) in [(0usize, 7200usize), (1, 7200), (0, 1100)] {
        let mut cfg = LinkCfg::base(
            &format!("budget 12000, 6000 at tick 0 and {} at tick 2, application may skip drains, dir{}", second, dir),
            vec![Chan::new(0, Kind::Ordered, 12_000, 300)],
            vec![Chan::new(0, Kind::Ordered, 12_000, 300)],
        );
        cfg.dt_ms = vec![100];
        cfg.horizon = 4;
        cfg.tail = 12;
        cfg.fates = vec![crate::link::Fate::Ok];
        cfg.drains = vec![crate::link::Drain::End, crate::link::Drain::Skip];
        cfg.allow_reverse = false;
        cfg.script = vec![Send { tick: 0, dir, ch: 0, len: 6000 }, Send { tick: 2, dir, ch: 0, len: second }, Send { tick: 2, dir, ch: 0, len: 9 }];
        out.push(LinkScenario { cfg, probe: lazy_probe as fn() -> Box<dyn Probe> });
    }
    out
}

pub fn run(tier: Tier) -> i32 {
    let mut rep = Report::new("C01", tier);
    rep.rule("M2: every schedule with <= d deviations (per packet: drop/dup/delay1/delay2/dup-late; per batch: reverse; per tick: application skips draining) over the first 5 ticks of each scenario (script x tick length x direction), then a fault-free tail; oracle: obtained is a byte-identical prefix of submitted after every drain, equal after the tail, nobody disconnects");
    rep.assume("payloads are the harness's self-describing pattern; sizes are from the boundary alphabet {0,1,1200,1201,2401,3600}");
    let sc = scenarios(tier);
    let d = tier.pick(3, 4);
    run_link_scenarios(&mut rep, "m2", &sc, d, tier.pick(120.0, 3000.0));
    if rep.machinery.is_none() {
        let long = long_scenarios(Kind::Ordered, (|| Box::new(OrderedProbe::new()) as Box<dyn Probe>) as fn() -> Box<dyn Probe>);
        super::run_link_scenarios_from(&mut rep, "m2-long", &long[..tier.pick(1, 2)], tier.pick(1, 2), tier.pick(120.0, 3000.0), 1000);
    }
    if rep.machinery.is_none() {
        super::run_link_scenarios_from(&mut rep, "m2-lazy-app", &lazy_scenarios(), tier.pick(3, 4), tier.pick(120.0, 3000.0), 2000);
    }
    if rep.machinery.is_none() {
        let outage = outage_scenarios(Kind::Ordered, (|| Box::new(OrderedProbe::new()) as Box<dyn Probe>) as fn() -> Box<dyn Probe>, tier);
        super::run_link_scenarios_from(&mut rep, "m2-outage", &outage, tier.pick(2, 3), tier.pick(120.0, 3000.0), 3000);
    }
    if rep.machinery.is_none() {
        let many = many_ranges_scenarios(Kind::Ordered, (|| Box::new(OrderedProbe::new()) as Box<dyn Probe>) as fn() -> Box<dyn Probe>);
        super::run_link_scenarios_from(&mut rep, "m2-many-ack-ranges", &many, tier.pick(1, 2), tier.pick(120.0, 3000.0), 4000);
    }
    {
        let ks: Vec<usize> = tier.pick(vec![257, 1100], vec![255, 256, 257, 1024, 1100, 5000]);
        for &k in &ks {
            if let Some(v) = super::c02::scale_case(k, Kind::Ordered) {
                rep.violation("scale", v, J::obj().set("kind", J::s("scale")).set("k", J::i(k as u64)));
            }
        }
        rep.add_sweep("scale", ks.len() as u64, ks.len() as u64, 1, vec![format!("k in {:?} messages buffered while message #0 is missing (head-of-line), early packets replayed, then recovery", ks)]);
    }
    if rep.machinery.is_none() {
        rep.rule("M1 (API soup): every interleaving up to depth D of send / update / flush / deliver / drop / duplicate / receive on a real client and server connection with <= 3 packets in flight per direction; prefix oracle after every call, and in every state a probe on a clone: deliver what is in flight, 8 fault-free ticks, everything submitted must have arrived");
        super::soup::run_soup(&mut rep, tier, "soup", Kind::Ordered, super::soup::O_ORDER, &["C01/"]);
    }
    rep.finish()
}

pub fn replay(j: &J) -> i32 {
    let tier = match j.get("tier").and_then(|t| t.as_str()) {
        Some("thorough") => Tier::Thorough,
        _ => Tier::Quick,
    };
    if j.get("kind").and_then(|k| k.as_str()) == Some("trace") {
        return super::soup::replay_soup(j, Kind::Ordered, super::soup::O_ORDER);
    }
    if j.get("scenario_index").and_then(|x| x.as_i()).unwrap_or(0) >= 4000 {
        let many = many_ranges_scenarios(Kind::Ordered, (|| Box::new(OrderedProbe::new()) as Box<dyn Probe>) as fn() -> Box<dyn Probe>);
        return super::replay_link_from(&many, j, 4000);
    }
    if j.get("scenario_index").and_then(|x| x.as_i()).unwrap_or(0) >= 3000 {
        let outage = outage_scenarios(Kind::Ordered, (|| Box::new(OrderedProbe::new()) as Box<dyn Probe>) as fn() -> Box<dyn Probe>, tier);
        return super::replay_link_from(&outage, j, 3000);
    }
    if j.get("scenario_index").and_then(|x| x.as_i()).unwrap_or(0) >= 2000 {
        return super::replay_link_from(&lazy_scenarios(), j, 2000);
    }
    if j.get("scenario_index").and_then(|x| x.as_i()).unwrap_or(0) >= 1000 {
        let long = long_scenarios(Kind::Ordered, (|| Box::new(OrderedProbe::new()) as Box<dyn Probe>) as fn() -> Box<dyn Probe>);
        return super::replay_link_from(&long, j, 1000);
    }
    replay_link(&scenarios(tier), j)
}
