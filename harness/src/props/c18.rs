//! C18 — Netcode liveness: handshakes complete, silent peers time out, live ones do not.

use super::{NetScenario, run_net_scenarios, replay_net};
use crate::explore::Violation;
use crate::json::J;
use crate::nc::{server_addr, SR};
use crate::netsim::{ClientCfg, NetProbe, NFate, Sim, SimCfg};
use crate::report::{Report, Tier};
use renetcode::DisconnectReason;

pub struct LiveProbe {
    checked: u64,
    client_was_connected: Vec<bool>,
}

impl LiveProbe {
    pub fn new() -> Self {
        LiveProbe { checked: 0, client_was_connected: vec![] }
    }
}

impl NetProbe for LiveProbe {
    fn on_update_client(&mut self, sim: &Sim, id: u64, r: &SR) -> Result<(), Violation> {
        let Some(i) = sim.cfg.clients.iter().position(|c| c.id == id) else { return Ok(()) };
        let t = sim.cfg.clients[i].timeout;
        let Some(last) = sim.last_auth_at_server[i] else { return Ok(()) };
        self.checked += 1;
        let silent_ms = sim.now_ms - last;
        let must = t > 0 && silent_ms > t as u64 * 1000;
        let did = matches!(r, SR::Disconnected { .. });
        if must && !did {
            return Err(Violation::new(
                "C18/server-does-not-time-out-silent-client",
                format!(
                    "tick {}: no authentic datagram from client {} was delivered for {} ms (token timeout {} s) but update_client did not disconnect it",
                    sim.tick, id, silent_ms, t
                ),
            ));
        }
        if did && !must {
            return Err(Violation::new(
                "C18/server-times-out-live-client",
                format!("tick {}: client {} was disconnected by update_client although an authentic datagram arrived {} ms ago (timeout {} s)", sim.tick, id, silent_ms, t),
            ));
        }
        Ok(())
    }

    fn on_client_update(&mut self, sim: &Sim, i: usize) -> Result<(), Violation> {
        if self.client_was_connected.len() <= i {
            self.client_was_connected.resize(i + 1, false);
        }
        let Some(c) = sim.clients[i].as_ref() else { return Ok(()) };
        let t = sim.cfg.clients[i].timeout;
        if self.client_was_connected[i] {
            if let Some(last) = sim.last_auth_at_client[i] {
                let silent_ms = sim.client_now_ms[i] - last;
                let must = t > 0 && silent_ms > t as u64 * 1000;
                let timed_out = c.disconnect_reason() == Some(DisconnectReason::ConnectionTimedOut);
                let gone_otherwise = c.is_disconnected() && !timed_out;
                if !gone_otherwise {
                    if must && !timed_out {
                        return Err(Violation::new(
                            "C18/client-does-not-time-out-silent-server",
                            format!("tick {}: client {} got no authentic datagram for {} ms (timeout {} s) and is still connected after update", sim.tick, i, silent_ms, t),
                        ));
                    }
                    if timed_out && !must {
                        return Err(Violation::new(
                            "C18/client-times-out-live-server",
                            format!("tick {}: client {} timed out although an authentic datagram arrived {} ms ago (timeout {} s)", sim.tick, i, silent_ms, t),
                        ));
                    }
                }
            }
        }
        if c.is_connected() {
            self.client_was_connected[i] = true;
        }
        if c.is_disconnected() {
            self.client_was_connected[i] = false;
        }
        Ok(())
    }

    fn on_server_update(&mut self, sim: &Sim) -> Result<(), Violation> {
        // half-open sessions vanish when their token expires
        let snap = sim.server.verif_snapshot();
        for p in &snap.pending {
            if snap.current_time.as_secs() > p.expire_timestamp {
                return Err(Violation::new(
                    "C18/half-open-session-outlives-token",
                    format!("tick {}: pending session of client {} is still there at server time {:?}, token expired at {} s", sim.tick, p.client_id, snap.current_time, p.expire_timestamp),
                ));
            }
        }
        Ok(())
    }

    fn on_end(&mut self, sim: &Sim) -> Result<(), Violation> {
        let cfg = sim.cfg;
        // L1: every honest client that was left alone and for which there is room must be connected on both sides
        let undisturbed: Vec<usize> = (0..cfg.clients.len())
            .filter(|&i| {
                let c = &cfg.clients[i];
                c.silent_from.is_none()
                    && c.disconnect_at.is_none()
                    && cfg.server_disconnect.map(|(_, id)| id != c.id).unwrap_or(true)
                    && cfg.server_silent_from.is_none()
                    && c.addr_list.iter().any(|&a| cfg.alive[a])
            })
            .collect();
        let room = cfg.room_guaranteed || (undisturbed.len() <= sim.current_max && cfg.clients.len() <= sim.current_max.max(cfg.max_clients.min(sim.current_max)));
        if room {
            for &i in &undisturbed {
                let c = sim.clients[i].as_ref();
                let cs = c.map(|c| c.is_connected()).unwrap_or(false);
                let ss = sim.server.is_client_connected(cfg.clients[i].id);
                // a session that legitimately timed out (computed by the other clauses) is not a handshake failure
                let timed_out = sim.events.iter().any(|e| matches!(e, crate::netsim::Ev::ServerDisconnected { id, timed_out: true, .. } if *id == cfg.clients[i].id))
                    || c.map(|c| c.disconnect_reason() == Some(DisconnectReason::ConnectionTimedOut)).unwrap_or(false);
                if timed_out {
                    continue;
                }
                if !(cs && ss) {
                    return Err(Violation::new(
                        "C18/handshake-did-not-complete",
                        format!(
                            "client {} (id {}): after {} fault-free ticks of {} ms client side is {:?}, server side connected = {}; connected clients {} / limit {}",
                            i,
                            cfg.clients[i].id,
                            cfg.tail,
                            cfg.dt_ms,
                            c.map(|c| (c.is_connected(), c.disconnect_reason())),
                            ss,
                            sim.server.connected_clients(),
                            sim.current_max
                        ),
                    ));
                }
            }
        }
        // token expiry on the client side
        for (i, cc) in cfg.clients.iter().enumerate() {
            if let Some(c) = sim.clients[i].as_ref() {
                let elapsed_s = (sim.client_now_ms[i] - cc.start_tick as u64 * cfg.dt_ms) / 1000;
                if c.is_connecting() && cc.silent_from.is_none() && elapsed_s > cc.expire + 1 && cc.addr_list.len() == 1 {
                    return Err(Violation::new(
                        "C18/client-keeps-connecting-after-token-expiry",
                        format!("client {} still connecting {} s after it started, its token was valid for {} s", i, elapsed_s, cc.expire),
                    ));
                }
            }
        }
        Ok(())
    }

    fn flags(&self) -> u64 {
        0
    }
}

fn probe() -> Box<dyn NetProbe> {
    Box::new(LiveProbe::new())
}

pub fn scenarios(tier: Tier) -> Vec<NetScenario> {
    let mut v: Vec<SimCfg> = vec![];
    let dts: Vec<u64> = tier.pick(vec![100, 250, 1000], vec![100, 250, 400, 1000]);
    // S1: one client, every tick length
    for &dt in &dts {
        let mut c = SimCfg::base(&format!("handshake 1 client dt={}ms", dt), vec![ClientCfg::new(1)]);
        c.dt_ms = dt;
        c.horizon = if dt >= 250 { 6 } else { 10 };
        c.tail = if dt >= 250 { 14 } else { 30 };
        v.push(c);
    }
    // S2: two clients
    {
        let mut c = SimCfg::base("handshake 2 clients dt=250ms", vec![ClientCfg::new(1), ClientCfg::new(2)]);
        c.horizon = 4;
        v.push(c);
    }
    // S3: fail-over from a silent address (timeout 2 s)
    {
        let mut cl = ClientCfg::new(1);
        cl.timeout = 2;
        cl.addr_list = vec![1, 0];
        let mut c = SimCfg::base("fail-over silent first address timeout=2s", vec![cl]);
        c.server_addrs = vec![server_addr(0), server_addr(1)];
        c.alive = vec![true, false];
        c.horizon = 14;
        c.tail = 16;
        c.fates = vec![NFate::Ok, NFate::Drop, NFate::Delay1];
        v.push(c);
    }
    // S4: client goes silent after connecting; attacker injects forged / replayed datagrams
    for &(t, dt) in &[(1i32, 250u64), (2, 250), (5, 1000)] {
        if tier == Tier::Quick && t == 5 {
            continue;
        }
        let mut cl = ClientCfg::new(1);
        cl.timeout = t;
        cl.silent_from = Some(6);
        cl.payload_ticks = vec![4];
        let mut c = SimCfg::base(&format!("client silent after tick 6, timeout={}s dt={}ms, attacker on path", t, dt), vec![cl]);
        c.dt_ms = dt;
        c.horizon = 6 + (t as u32 * 1000 / dt as u32) + 2;
        c.tail = 8;
        c.fates = vec![NFate::Ok];
        c.inject = true;
        v.push(c);
    }
    // S5: server goes silent after the handshake
    for &t in &[1i32, 2] {
        let mut cl = ClientCfg::new(1);
        cl.timeout = t;
        let mut c = SimCfg::base(&format!("server silent after tick 6, timeout={}s", t), vec![cl]);
        c.server_silent_from = Some(6);
        c.horizon = 5;
        c.tail = 16;
        c.fates = vec![NFate::Ok, NFate::Drop, NFate::Dup];
        v.push(c);
    }
    // S6: limit raised at run time, second client arrives afterwards
    {
        let mut c2 = ClientCfg::new(2);
        c2.start_tick = 6;
        let mut c = SimCfg::base("max_clients 1 raised to 2 at tick 4, second client from tick 6", vec![ClientCfg::new(1), c2]);
        c.max_clients = 1;
        c.set_max = Some((4, 2));
        c.horizon = 9;
        c.fates = vec![NFate::Ok, NFate::Drop];
        v.push(c);
    }
    // S7: limit lowered at run time; the connected client must be left alone
    {
        let mut c2 = ClientCfg::new(2);
        c2.start_tick = 6;
        let mut c = SimCfg::base("max_clients 2 lowered to 1 at tick 4, second client from tick 6", vec![ClientCfg::new(1), c2]);
        c.max_clients = 2;
        c.set_max = Some((4, 1));
        c.horizon = 9;
        c.fates = vec![NFate::Ok, NFate::Drop];
        v.push(c);
    }
    // S11: a client denied on a full server connects on its retry once the slot is free; a stale denial
    // (delayed on the path) arriving afterwards must not end the healthy session
    {
        let mut c2 = ClientCfg::new(2);
        c2.start_tick = 7;
        c2.timeout = 2;
        let mut c = SimCfg::base("1-slot server: client 2 denied at tick 7, slot freed at tick 7, stale denials may arrive late", vec![ClientCfg::new(1), c2]);
        c.max_clients = 1;
        c.server_disconnect = Some((7, 1));
        c.fault_from = 7;
        c.horizon = 10;
        c.tail = 24;
        c.fates = vec![NFate::Ok, NFate::Drop, NFate::Delay4, NFate::DupLate3];
        v.push(c);
    }
    // S12: lossy start — the first requests never arrive, the challenge comes late, then responses may be lost:
    // the response step has its own time-out period counted from the challenge
    {
        let mut cl = ClientCfg::new(1);
        cl.timeout = 2;
        let mut c = SimCfg::base("requests lost for 1.5 s (time-out 2 s), late challenge, faults on the response leg", vec![cl]);
        c.c2s_blackout_until = 6;
        c.fault_from = 7; // the request of tick 6 gets through; faults start on the response leg
        c.horizon = 11;
        c.tail = 14;
        c.fates = vec![NFate::Ok, NFate::Drop, NFate::Delay1];
        v.push(c);
    }
    // S13: server silent after the handshake, the on-path attacker replays the server's own handshake
    // replies (challenge, denial) and first keep-alive to the client: the client still times out on schedule
    for &t in &[1i32, 2] {
        let mut cl = ClientCfg::new(1);
        cl.timeout = t;
        let mut c = SimCfg::base(&format!("server silent after tick 6, timeout={}s, replays towards the client", t), vec![cl]);
        c.server_silent_from = Some(6);
        c.fault_from = 6;
        c.horizon = 6 + (t as u32 * 4) + 2;
        c.tail = 10;
        c.fates = vec![NFate::Ok];
        c.inject_to_client = true;
        v.push(c);
    }
    // S8: token expires while half-open (server never heard: expiry 4 s)
    {
        let mut cl = ClientCfg::new(1);
        cl.expire = 4;
        cl.timeout = 10;
        let mut c = SimCfg::base("challenge never arrives, token valid 4 s", vec![cl]);
        c.server_silent_from = Some(0);
        c.dt_ms = 500;
        c.horizon = 4;
        c.tail = 10;
        c.fates = vec![NFate::Ok, NFate::Drop, NFate::Delay2];
        v.push(c);
    }
    // S9: time-out disabled
    {
        let mut cl = ClientCfg::new(1);
        cl.timeout = -1;
        cl.silent_from = Some(6);
        let mut c = SimCfg::base("timeout disabled (-1), client silent after tick 6", vec![cl]);
        c.dt_ms = 1000;
        c.horizon = 4;
        c.tail = 12;
        v.push(c);
    }
    // S10: long-lived session on keep-alives only, coarse ticks
    {
        let mut cl = ClientCfg::new(1);
        cl.timeout = 2;
        let mut c = SimCfg::base("keep-alive only session dt=1000ms timeout=2s", vec![cl]);
        c.dt_ms = 1000;
        c.fault_from = 4; // the handshake itself is undisturbed (2 losses would exhaust a 2 s time-out)
        c.horizon = 10;
        c.tail = 6;
        c.fates = vec![NFate::Ok, NFate::Drop, NFate::Dup, NFate::Delay1];
        v.push(c);
    }
    v.into_iter().map(|cfg| NetScenario { cfg, probe: probe as fn() -> Box<dyn NetProbe> }).collect()
}

pub fn run(tier: Tier) -> i32 {
    let mut rep = Report::new("C18", tier);
    rep.rule("M2 over the netcode world: every schedule with <= d deviations (per datagram both ways: drop/dup/delay1/delay2; attacker injection of request-typed garbage, replays of the client's own response / keep-alive / payload, forged keep-alive / payload) for scenarios: handshake at dt in {100,250,400,1000} ms, two clients, fail-over from a silent first address, client silent after connecting (timeouts 1/2/5 s) with an on-path attacker, server silent, limit raised 1->2 and lowered 2->1 at run time, token expiring while half-open, time-out disabled, keep-alive only session with coarse ticks; oracle from the harness's own delivery log: update_client disconnects iff no authentic datagram arrived for more than the token time-out (same on the client side), half-open sessions are gone once server time passes the token expiry, and after the fault-free tail every undisturbed honest client for which there is room under the current limit is connected on both sides");
    rep.assume("authentic = first delivery of a genuine keep-alive / payload (or the connecting response) of the honest peer; tails are long enough for 4 handshake legs at the 250 ms send rate plus one time-out per silent address; time-outs >= 2 s in handshake-fault scenarios so that <= 3 losses cannot exhaust them");
    let sc = scenarios(tier);
    run_net_scenarios(&mut rep, "m2", &sc, tier.pick(2, 4), tier.pick(120.0, 3000.0));
    rep.finish()
}

pub fn replay(j: &J) -> i32 {
    let tier = match j.get("tier").and_then(|t| t.as_str()) {
        Some("thorough") => Tier::Thorough,
        _ => Tier::Quick,
    };
    replay_net(&scenarios(tier), j)
}
