//! C18 — Netcode liveness: handshakes complete, silent peers time out, live ones do not.

use super::{NetScenario, run_net_scenarios, replay_net};
use crate::explore::Violation;
use crate::json::J;
use crate::nc::{server_addr, SR};
use crate::netsim::{ClientCfg, NetProbe, NFate, Sim, SimCfg};
use crate::report::{Report, Tier};
use renetcode::DisconnectReason;

pub struct LiveProbe {
    checked: u64,
    client_was_connected: Vec<bool>,
}

impl LiveProbe {
    pub fn new() -> Self {
        LiveProbe { checked: 0, client_was_connected: vec![] }
    }
}

impl NetProbe for LiveProbe {
    fn on_update_client(&mut self, sim: &Sim, id: u64, r: &SR) -> Result<(), Violation> {
        let Some(i) = sim.cfg.clients.iter().position(|c| c.id == id) else { return Ok(()) };
        let t = sim.cfg.clients[i].timeout;
        let Some(last) = sim.last_auth_at_server[i] else { return Ok(()) };
        self.checked += 1;
        let silent_ms = sim.now_ms - last;
        let must = t > 0 && silent_ms > t as u64 * 1000;
        let did = matches!(r, SR::Disconnected { .. });
        if must && !did {
            return Err(Violation::new(
                "C18/server-does-not-time-out-silent-client",
                format!(
                    "tick {}: no authentic datagram from client {} was delivered for {} ms (token timeout {} s) but update_client did not disconnect it",
                    sim.tick, id, silent_ms, t
                ),
            ));
        }
        if did && !must {
            return Err(Violation::new(
                "C18/server-times-out-live-client",
                format!("tick {}: client {} was disconnected by update_client although an authentic datagram arrived {} ms ago (timeout {} s)", sim.tick, id, silent_ms, t),
            ));
        }
        Ok(())
    }

    fn on_client_update(&mut self, sim: &Sim, i: usize) -> Result<(), Violation> {
        if self.client_was_connected.len() <= i {
            self.client_was_connected.resize(i + 1, false);
        }
        let Some(c) = sim.clients[i].as_ref() else { return Ok(()) };
        let t = sim.cfg.clients[i].timeout;
        if self.client_was_connected[i] {
            if let Some(last) = sim.last_auth_at_client[i] {
                let silent_ms = sim.client_now_ms[i] - last;
                let must = t > 0 && silent_ms > t as u64 * 1000;
                let timed_out = c.disconnect_reason() == Some(DisconnectReason::ConnectionTimedOut);
                let gone_otherwise = c.is_disconnected() && !timed_out;
                if !gone_otherwise {
                    if must && !timed_out {
                        return Err(Violation::new(
                            "C18/client-does-not-time-out-silent-server",
                            format!("tick {}: client {} got no authentic datagram for {} ms (timeout {} s) and is still connected after update", sim.tick, i, silent_ms, t),
                        ));
                    }
                    if timed_out && !must {
                        return Err(Violation::new(
                            "C18/client-times-out-live-server",
                            format!("tick {}: client {} timed out although an authentic datagram arrived {} ms ago (timeout {} s)", sim.tick, i, silent_ms, t),
                        ));
                    }
                }
            }
        }
        if c.is_connected() {
            self.client_was_connected[i] = true;
        }
        if c.is_disconnected() {
            self.client_was_connected[i] = false;
        }
        Ok(())
    }

    fn on_server_update(&mut self, sim: &Sim) -> Result<(), Violation> {
        // half-open sessions vanish when their token expires
        let snap = sim.server.verif_snapshot();
        for p in &snap.pending {
            if snap.current_time.as_secs() > p.expire_timestamp {
                return Err(Violation::new(
                    "C18/half-open-session-outlives-token",
                    format!("tick {}: pending session of client {} is still there at server time {:?}, token expired at {} s", sim.tick, p.client_id, snap.current_time, p.expire_timestamp),
                ));
            }
        }
        Ok(())
    }

    fn on_end(&mut self, sim: &Sim) -> Result<(), Violation> {
        let cfg = sim.cfg;
        // L1: every honest client that was left alone and for which there is room must be connected on both sides
        let undisturbed: Vec<usize> = (0..cfg.clients.len())
            .filter(|&i| {
                let c = &cfg.clients[i];
                c.silent_from.is_none()
                    && c.disconnect_at.is_none()
                    && cfg.server_disconnect.map(|(_, id)| id != c.id).unwrap_or(true)
                    && cfg.server_silent_from.is_none()
                    && c.addr_list.iter().any(|&a| cfg.alive[a])
            })
            .collect();
        let room = cfg.room_guaranteed || (undisturbed.len() <= sim.current_max && cfg.clients.len() <= sim.current_max.max(cfg.max_clients.min(sim.current_max)));
        if room {
            for &i in &undisturbed {
                let c = sim.clients[i].as_ref();
                let cs = c.map(|c| c.is_connected()).unwrap_or(false);
                let ss = sim.server.is_client_connected(cfg.clients[i].id);
                // a session that legitimately timed out (computed by the other clauses) is not a handshake failure
                let timed_out = sim.events.iter().any(|e| matches!(e, crate::netsim::Ev::ServerDisconnected { id, timed_out: true, .. } if *id == cfg.clients[i].id))
                    || c.map(|c| c.disconnect_reason() == Some(DisconnectReason::ConnectionTimedOut)).unwrap_or(false);
                if timed_out {
                    continue;
                }
                if !(cs && ss) {
                    return Err(Violation::new(
                        "C18/handshake-did-not-complete",
                        format!(
                            "client {} (id {}): after {} fault-free ticks of {} ms client side is {:?}, server side connected = {}; connected clients {} / limit {}",
                            i,
                            cfg.clients[i].id,
                            cfg.tail,
                            cfg.dt_ms,
                            c.map(|c| (c.is_connected(), c.disconnect_reason())),
                            ss,
                            sim.server.connected_clients(),
                            sim.current_max
                        ),
                    ));
                }
            }
        }
        // token expiry on the client side
        for (i, cc) in cfg.clients.iter().enumerate() {
            if let Some(c) = sim.clients[i].as_ref() {
                let elapsed_s = (sim.client_now_ms[i] - sim.client_start_ms[i]) / 1000;
                if c.is_connecting() && cc.silent_from.is_none() && elapsed_s > cc.expire + 1 && cc.addr_list.len() == 1 {
                    return Err(Violation::new(
                        "C18/client-keeps-connecting-after-token-expiry",
                        format!("client {} still connecting {} s after it started, its token was valid for {} s", i, elapsed_s, cc.expire),
                    ));
                }
            }
        }
        Ok(())
    }

    fn flags(&self) -> u64 {
        0
    }
}

fn probe() -> Box<dyn NetProbe> {
    Box::new(LiveProbe::new())
}

pub fn scenarios(tier: Tier) -> Vec<NetScenario> {
    let mut v: Vec<SimCfg> = vec![];
    let dts: Vec<u64> = tier.pick(vec![100, 250, 1000], vec![100, 250, 400, 1000]);
    // S1: one client, every tick length
    for &dt in &dts {
        let mut c = SimCfg::base(&format!("handshake 1 client dt={}ms", dt), vec![ClientCfg::new(1)]);
        c.dt_ms = dt;
        c.horizon = if dt >= 250 { 6 } else { 10 };
        c.tail = if dt >= 250 { 14 } else { 30 };
        v.push(c);
    }
    // S2: two clients
    {
        let mut c = SimCfg::base("handshake 2 clients dt=250ms", vec![ClientCfg::new(1), ClientCfg::new(2)]);
        c.horizon = 4;
        v.push(c);
    }
    // S3: fail-over from a silent address (timeout 2 s)
    {
        let mut cl = ClientCfg::new(1);
        cl.timeout = 2;
        cl.addr_list = vec![1, 0];
        let mut c = SimCfg::base("fail-over silent first address timeout=2s", vec![cl]);
        c.server_addrs = vec![server_addr(0), server_addr(1)];
        c.alive = vec![true, false];
        c.horizon = 14;
        c.tail = 16;
        c.fates = vec![NFate::Ok, NFate::Drop, NFate::Delay1];
        v.push(c);
    }
    // S4: client goes silent after connecting; attacker injects forged / replayed datagrams
    for &(t, dt) in &[(1i32, 250u64), (2, 250), (5, 1000)] {
        if tier == Tier::Quick && t == 5 {
            continue;
        }
        let mut cl = ClientCfg::new(1);
        cl.timeout = t;
        cl.silent_from = Some(6);
        cl.payload_ticks = vec![4];
        let mut c = SimCfg::base(&format!("client silent after tick 6, timeout={}s dt={}ms, attacker on path", t, dt), vec![cl]);
        c.dt_ms = dt;
        c.horizon = 6 + (t as u32 * 1000 / dt as u32) + 2;
        c.tail = 8;
        c.fates = vec![NFate::Ok];
        c.inject = true;
        v.push(c);
    }
    // S5: server goes silent after the handshake
    for &t in &[1i32, 2] {
        let mut cl = ClientCfg::new(1);
        cl.timeout = t;
        let mut c = SimCfg::base(&format!("server silent after tick 6, timeout={}s", t), vec![cl]);
        c.server_silent_from = Some(6);
        c.horizon = 5;
        c.tail = 16;
        c.fates = vec![NFate::Ok, NFate::Drop, NFate::Dup];
        v.push(c);
    }
    // S6: limit raised at run time, second client arrives afterwards
    {
        let mut c2 = ClientCfg::new(2);
        c2.start_tick = 6;
        let mut c = SimCfg::base("max_clients 1 raised to 2 at tick 4, second client from tick 6", vec![ClientCfg::new(1), c2]);
        c.max_clients = 1;
        c.set_max = Some((4, 2));
        c.horizon = 9;
        c.fates = vec![NFate::Ok, NFate::Drop];
        v.push(c);
    }
    // S7: limit lowered at run time; the connected client must be left alone
    {
        let mut c2 = ClientCfg::new(2);
        c2.start_tick = 6;
        let mut c = SimCfg::base("max_clients 2 lowered to 1 at tick 4, second client from tick 6", vec![ClientCfg::new(1), c2]);
        c.max_clients = 2;
        c.set_max = Some((4, 1));
        c.horizon = 9;
        c.fates = vec![NFate::Ok, NFate::Drop];
        v.push(c);
    }
    // S11: a client denied on a full server connects on its retry once the slot is free; a stale denial
    // (delayed on the path) arriving afterwards must not end the healthy session
    {
        let mut c2 = ClientCfg::new(2);
        c2.start_tick = 7;
        c2.timeout = 2;
        let mut c = SimCfg::base("1-slot server: client 2 denied at tick 7, slot freed at tick 7, stale denials may arrive late", vec![ClientCfg::new(1), c2]);
        c.max_clients = 1;
        c.server_disconnect = Some((7, 1));
        c.fault_from = 7;
        c.horizon = 10;
        c.tail = 24;
        c.fates = vec![NFate::Ok, NFate::Drop, NFate::Delay4, NFate::DupLate3];
        v.push(c);
    }
    // S12: lossy start — the first requests never arrive, the challenge comes late, then responses may be lost:
    // the response step has its own time-out period counted from the challenge
    {
        let mut cl = ClientCfg::new(1);
        cl.timeout = 2;
        let mut c = SimCfg::base("requests lost for 1.5 s (time-out 2 s), late challenge, faults on the response leg", vec![cl]);
        c.c2s_blackout_until = 6;
        c.fault_from = 7; // the request of tick 6 gets through; faults start on the response leg
        c.horizon = 11;
        c.tail = 14;
        c.fates = vec![NFate::Ok, NFate::Drop, NFate::Delay1];
        v.push(c);
    }
    // S13: server silent after the handshake, the on-path attacker replays the server's own handshake
    // replies (challenge, denial) and first keep-alive to the client: the client still times out on schedule
    for &t in &[1i32, 2] {
        let mut cl = ClientCfg::new(1);
        cl.timeout = t;
        let mut c = SimCfg::base(&format!("server silent after tick 6, timeout={}s, replays towards the client", t), vec![cl]);
        c.server_silent_from = Some(6);
        c.fault_from = 6;
        c.horizon = 6 + (t as u32 * 4) + 2;
        c.tail = 10;
        c.fates = vec![NFate::Ok];
        c.inject_to_client = true;
        v.push(c);
    }
    // S8: token expires while half-open (server never heard: expiry 4 s)
    {
        let mut cl = ClientCfg::new(1);
        cl.expire = 4;
        cl.timeout = 10;
        let mut c = SimCfg::base("challenge never arrives, token valid 4 s", vec![cl]);
        c.server_silent_from = Some(0);
        c.dt_ms = 500;
        c.horizon = 4;
        c.tail = 10;
        c.fates = vec![NFate::Ok, NFate::Drop, NFate::Delay2];
        v.push(c);
    }
    // S9: time-out disabled
    {
        let mut cl = ClientCfg::new(1);
        cl.timeout = -1;
        cl.silent_from = Some(6);
        let mut c = SimCfg::base("timeout disabled (-1), client silent after tick 6", vec![cl]);
        c.dt_ms = 1000;
        c.horizon = 4;
        c.tail = 12;
        v.push(c);
    }
    // S10: long-lived session on keep-alives only, coarse ticks
    {
        let mut cl = ClientCfg::new(1);
        cl.timeout = 2;
        let mut c = SimCfg::base("keep-alive only session dt=1000ms timeout=2s", vec![cl]);
        c.dt_ms = 1000;
        c.fault_from = 4; // the handshake itself is undisturbed (2 losses would exhaust a 2 s time-out)
        c.horizon = 10;
        c.tail = 6;
        c.fates = vec![NFate::Ok, NFate::Drop, NFate::Dup, NFate::Delay1];
        v.push(c);
    }
    // IPv6 everywhere: three clients (two share an IP, two share a port), and a fail-over between two IPv6 addresses
    {
        let mut c = SimCfg::base("handshake 3 clients, IPv6 addresses", vec![ClientCfg::new(1), ClientCfg::new(2), ClientCfg::new(3)]);
        c.ipv6 = true;
        c.server_addrs = vec![crate::nc::server_addr6(0)];
        c.horizon = 4;
        c.server_payload_ticks = vec![5, 6];
        v.push(c);
        let mut cl = ClientCfg::new(1);
        cl.timeout = 2;
        cl.addr_list = vec![1, 0];
        let mut c = SimCfg::base("fail-over silent first address timeout=2s, IPv6 addresses", vec![cl]);
        c.ipv6 = true;
        c.server_addrs = vec![crate::nc::server_addr6(0), crate::nc::server_addr6(1)];
        c.alive = vec![true, false];
        c.fault_from = 9;
        c.horizon = 13;
        c.tail = 16;
        c.fates = vec![NFate::Ok, NFate::Drop, NFate::Delay1];
        v.push(c);
    }
    // scale class: a token with the maximum of 32 addresses, only the last one answers (time-out 1 s per address)
    {
        let mut cl = ClientCfg::new(1);
        cl.timeout = 1;
        cl.expire = 120;
        cl.addr_list = (1..32).chain(std::iter::once(0)).collect();
        let mut c = SimCfg::base("token with 32 addresses, only the last one answers, timeout=1s", vec![cl]);
        c.server_addrs = (0..32).map(server_addr).collect();
        c.alive = (0..32).map(|k| k == 0).collect();
        // the client reaches the last address at tick 154; the 1 s time-out (4 ticks) must not be exhaustible by
        // the deviation budget, so faults are confined to three ticks
        c.fault_from = 154;
        c.horizon = 157;
        c.tail = 20;
        c.fates = vec![NFate::Ok, NFate::Drop];
        v.push(c);
    }
    // clients whose clock has nothing to do with the token issuer's: far ahead, far behind, slightly ahead
    for (cname, server_epoch, client_clock) in [("client clock 1000 s ahead", 0u64, 1000u64), ("client clock far behind", 8_640_000, 5), ("client clock 20 s ahead", 100, 120), ("client clock far ahead", 50, 1u64 << 33)] {
        let mut cl = ClientCfg::new(1);
        cl.clock_s = Some(client_clock);
        let mut c = SimCfg::base(&format!("handshake 1 client dt=250ms, {}", cname), vec![cl]);
        c.epoch_s = server_epoch;
        c.horizon = 6;
        c.tail = 14;
        v.push(c);
        // and the expiry on the client side still works on its own clock: challenge never arrives, token valid 4 s
        let mut cl = ClientCfg::new(1);
        cl.clock_s = Some(client_clock);
        cl.expire = 4;
        cl.timeout = 10;
        let mut c = SimCfg::base(&format!("challenge never arrives, token valid 4 s, {}", cname), vec![cl]);
        c.epoch_s = server_epoch;
        c.server_silent_from = Some(0);
        c.dt_ms = 500;
        c.horizon = 4;
        c.tail = 10;
        c.fates = vec![NFate::Ok, NFate::Drop, NFate::Delay2];
        v.push(c);
    }
    // a server with two public addresses; the token lists only the second one
    {
        let mut cl = ClientCfg::new(1);
        cl.addr_list = vec![1];
        let mut c = SimCfg::base("server with two public addresses, the token lists only the second", vec![cl]);
        c.server_addrs = vec![server_addr(0), server_addr(1)];
        c.alive = vec![true, true];
        c.horizon = 5;
        v.push(c);
    }
    // all 32 listed addresses stay silent: the client gives up in an orderly way (no panic, disconnected with a reason)
    {
        let mut cl = ClientCfg::new(1);
        cl.timeout = 1;
        cl.expire = 120;
        cl.addr_list = (1..33).collect();
        let mut c = SimCfg::base("token with 32 addresses, none answers, timeout=1s", vec![cl]);
        c.server_addrs = (0..33).map(server_addr).collect();
        c.alive = (0..33).map(|k| k == 0).collect();
        c.fault_from = 0;
        c.horizon = 0;
        c.tail = 180;
        c.fates = vec![NFate::Ok];
        v.push(c);
    }
    // responses lost for 1.25 s after the challenge, then the session confirmed, then 1 s without anything from the
    // server (less than the 2 s time-out): the client's time-out period counts from the last authentic datagram
    for s0 in [6u32, 7, 8] {
        let mut cl = ClientCfg::new(1);
        cl.timeout = 2;
        let mut c = SimCfg::base(&format!("responses lost for 1.25 s, late confirmation, then 1 s of server silence from tick {} (time-out 2 s)", s0), vec![cl]);
        c.c2s_blackout_window = Some((1, 6));
        c.s2c_blackout_window = Some((s0, s0 + 4));
        c.fault_from = s0 + 4;
        c.horizon = s0 + 7;
        c.tail = 10;
        c.fates = vec![NFate::Ok, NFate::Drop, NFate::Delay1];
        v.push(c);
    }
    // scale class: the same sessions on a server that has been up for 100 days / for more than 2^32 seconds
    {
        let pick: Vec<SimCfg> = v
            .iter()
            .filter(|c| {
                c.name == "handshake 1 client dt=250ms"
                    || c.name == "client silent after tick 6, timeout=2s dt=250ms, attacker on path"
                    || c.name == "server silent after tick 6, timeout=2s"
                    || c.name == "challenge never arrives, token valid 4 s"
            })
            .cloned()
            .collect();
        for epoch in [8_640_000u64, (1u64 << 32) + 7] {
            for c in &pick {
                let mut c = c.clone();
                c.name = format!("{} [server uptime {} s]", c.name, epoch);
                c.epoch_s = epoch;
                v.push(c);
            }
        }
    }
    // payload-only session: both sides send a payload every 100 ms tick, more often than the 250 ms keep-alive rate, so
    // neither side ever emits a keep-alive for four time-out periods: payloads alone must keep the session alive
    {
        let mut cl = ClientCfg::new(1);
        cl.timeout = 1;
        cl.payload_ticks = (6..46).collect();
        let mut c = SimCfg::base("payload-only traffic both ways for 4 time-outs, timeout=1s dt=100ms", vec![cl]);
        c.dt_ms = 100;
        c.fault_from = 9;
        c.horizon = 40;
        c.tail = 6;
        c.server_payload_ticks = (6..46).collect();
        c.fates = vec![NFate::Ok, NFate::Drop, NFate::Delay1];
        v.push(c);
    }
    v.into_iter().map(|cfg| NetScenario { cfg, probe: probe as fn() -> Box<dyn NetProbe> }).collect()
}

pub fn run(tier: Tier) -> i32 {
    let mut rep = Report::new("C18", tier);
    rep.rule("M2 over the netcode world: every schedule with <= d deviations (per datagram both ways: drop/dup/delay1/delay2; attacker injection of request-typed garbage, replays of the client's own response / keep-alive / payload, forged keep-alive / payload) for scenarios: handshake at dt in {100,250,400,1000} ms, two clients, fail-over from a silent first address, client silent after connecting (timeouts 1/2/5 s) with an on-path attacker, server silent, limit raised 1->2 and lowered 2->1 at run time, token expiring while half-open, time-out disabled, keep-alive only session with coarse ticks, payload-only session (no keep-alives for four time-outs); oracle from the harness's own delivery log: update_client disconnects iff no authentic datagram arrived for more than the token time-out (same on the client side), half-open sessions are gone once server time passes the token expiry, and after the fault-free tail every undisturbed honest client for which there is room under the current limit is connected on both sides");
    rep.assume("authentic = first delivery of a genuine keep-alive / payload (or the connecting response) of the honest peer; tails are long enough for 4 handshake legs at the 250 ms send rate plus one time-out per silent address; time-outs >= 2 s in handshake-fault scenarios so that <= 3 losses cannot exhaust them");
    let sc = scenarios(tier);
    run_net_scenarios(&mut rep, "m2", &sc, tier.pick(2, 4), tier.pick(120.0, 3000.0));
    // scale class: thousands of half-open sessions (the pending table holds at most 4096)
    {
        let sizes: Vec<usize> = tier.pick(vec![300, 4095, 4096, 4100], vec![255, 256, 257, 1024, 4095, 4096, 4097, 5000]);
        let res = crate::explore::par_cases(sizes.len(), |i| pending_scale_case(sizes[i]));
        let mut steps = 0u64;
        for (i, r) in res.into_iter().enumerate() {
            match r {
                Ok(n) => steps += n,
                Err(v) => rep.violation("many-half-open", v, J::obj().set("kind", J::s("many-half-open")).set("n", J::i(sizes[i] as u64))),
            }
        }
        rep.add_sweep("many-half-open", sizes.len() as u64, sizes.len() as u64, sizes.len() as u64, vec![format!("{:?} half-open sessions (valid tokens, 10 s to live): the first and the last admitted one still complete, all vanish at token expiry, an honest client connects afterwards ({} library calls)", sizes, steps)]);
        rep.transitions += steps;
    }
    // fail-over between two different servers
    {
        let cases = failover_cases();
        let res = crate::explore::par_cases(cases.len() * 2, |i| failover_case_exp(cases[i / 2].0, cases[i / 2].1, cases[i / 2].2, if i % 2 == 0 { 600 } else { u64::MAX }));
        let res: Vec<_> = res.chunks(2).map(|c| match (&c[0], &c[1]) { (Err(v), _) | (_, Err(v)) => Err(v.clone()), (Ok(a), Ok(b)) => Ok(a + b) }).collect();
        let mut steps = 0u64;
        for (i, r) in res.into_iter().enumerate() {
            match r {
                Ok(n) => steps += n,
                Err(v) => rep.violation("fail-over-between-servers", v, J::obj().set("kind", J::s("failover")).set("case", J::i(i as u64))),
            }
        }
        rep.add_sweep("fail-over-between-servers", cases.len() as u64, cases.len() as u64, 3, vec![format!("{} cases: two servers with their own challenge keys, the first listed one silent from the start / after its challenge / after its challenge and a lost response, x (time-out, tick length); the client completes a full handshake with the second ({} library calls)", cases.len(), steps)]);
        rep.transitions += steps;
    }
    // recovery class: a client returns from an address whose earlier session ended and whose slot was re-used
    {
        let cases = return_cases();
        let res = crate::explore::par_cases(cases.len(), |i| return_case(cases[i].0, cases[i].1, cases[i].2, cases[i].3));
        let mut steps = 0u64;
        for (i, r) in res.into_iter().enumerate() {
            match r {
                Ok(n) => steps += n,
                Err(v) => rep.violation("return-after-slot-reuse", v, J::obj().set("kind", J::s("return")).set("case", J::i(i as u64))),
            }
        }
        rep.add_sweep("return-after-slot-reuse", cases.len() as u64, cases.len() as u64, 3, vec![format!("{} cases (how X's session ended: kick / time-out / disconnect datagram) x (same id / new id returns from X's address) x (2, 3, 8 slots) x (Y connected before / after X left): the returning handshake completes, lookups and payload routing name the right sessions ({} library calls)", cases.len(), steps)]);
        rep.transitions += steps;
    }
    rep.finish()
}

/// `n` half-open handshakes from distinct addresses on a 4-slot server.
pub fn pending_scale_case(n: usize) -> Result<u64, Violation> {
    use crate::nc::{self, make_token_wide, new_client, new_server, wide_addr, TokenSpec};
    use std::time::Duration;
    let public = vec![server_addr(0)];
    let mut server = new_server(4, public.clone(), Duration::ZERO);
    let dt = Duration::from_millis(250);
    let bad = |sig: &str, msg: String| Violation::new(format!("C18/many-half-open/{}", sig), format!("{} half-open sessions: {}", n, msg));
    let mk = |k: usize, expire: u64| {
        let mut sp = TokenSpec::new(50_000 + k as u64, 0, public.clone());
        sp.expire = expire;
        sp.timeout = 5;
        make_token_wide(&sp, k as u32)
    };
    let mut steps = 0u64;
    let mut held: Vec<(usize, renetcode::NetcodeClient)> = vec![];
    let mut admitted = 0usize;
    for k in 0..n {
        let mut c = new_client(Duration::ZERO, &mk(k, 10));
        let (req, _) = nc::cli_update(&mut c, dt)?.ok_or_else(|| bad("client-silent", format!("client {}", k)))?;
        let r = nc::srv_process(&mut server, wide_addr(k as u32), &req)?;
        steps += 2;
        match r.reply() {
            Some((to, bytes)) => {
                if to != wide_addr(k as u32) {
                    return Err(bad("reply-to-wrong-address", format!("challenge for client {} went to {}", k, to)));
                }
                admitted += 1;
                nc::cli_process(&mut c, bytes)?;
                if k == 0 || k + 1 == n.min(4096) {
                    held.push((k, c));
                }
            }
            None => {
                if k < 4096 {
                    return Err(bad("valid-request-unanswered", format!("request number {} got no challenge although only {} sessions are half-open", k + 1, admitted)));
                }
            }
        }
    }
    let snap = server.verif_snapshot();
    if snap.pending.len() != admitted {
        return Err(bad("pending-count", format!("{} challenges were issued, {} half-open sessions exist", admitted, snap.pending.len())));
    }
    // a half-open client whose challenge was lost retransmits its request (a send interval later): it is answered again
    server.update(dt);
    for (k, _) in held.iter() {
        let mut c2 = new_client(Duration::ZERO, &mk(*k, 10));
        let (req, _) = nc::cli_update(&mut c2, dt)?.ok_or_else(|| bad("client-silent", format!("client {}", k)))?;
        let r = nc::srv_process(&mut server, wide_addr(*k as u32), &req)?;
        steps += 2;
        if r.reply().is_none() {
            return Err(bad("retransmitted-request-unanswered", format!("half-open client {} repeated its request (its challenge may have been lost) and got {}", k, r.kind())));
        }
    }
    // the first and the last admitted one complete their handshake while the table is crowded
    server.update(Duration::from_secs(1));
    for (k, c) in held.iter_mut() {
        let (resp, _) = nc::cli_update(c, dt)?.ok_or_else(|| bad("client-silent", format!("client {} has no response to send", k)))?;
        let r = nc::srv_process(&mut server, wide_addr(*k as u32), &resp)?;
        steps += 2;
        match &r {
            SR::Connected { client_id, .. } if *client_id == 50_000 + *k as u64 => {}
            other => return Err(bad("room-but-not-connected", format!("half-open client {} answered its challenge and got {}", k, other.kind()))),
        }
        if let Some((_, bytes)) = r.reply() {
            nc::cli_process(c, bytes)?;
        }
        if !c.is_connected() {
            return Err(bad("room-but-not-connected", format!("client {} not connected on its side", k)));
        }
    }
    // token expiry: every half-open session is gone, connected ones stay (they keep talking)
    for _ in 0..11 {
        server.update(Duration::from_secs(1));
        for (k, c) in held.iter_mut() {
            let id = 50_000 + *k as u64;
            if let SR::Send { bytes, .. } = nc::srv_update_client(&mut server, id)? {
                nc::cli_process(c, &bytes)?;
            }
            if let Some((p, _)) = nc::cli_update(c, Duration::from_secs(1))? {
                nc::srv_process(&mut server, wide_addr(*k as u32), &p)?;
            }
            steps += 3;
        }
    }
    let snap = server.verif_snapshot();
    if !snap.pending.is_empty() {
        return Err(Violation::new(
            "C18/half-open-session-outlives-token",
            format!("{} half-open sessions: {} are still there at server time {:?}, their tokens expired at 10 s", n, snap.pending.len(), snap.current_time),
        ));
    }
    for (k, c) in held.iter() {
        if !c.is_connected() || !server.is_client_connected(50_000 + *k as u64) {
            return Err(bad("live-session-lost", format!("client {} kept exchanging keep-alives but is no longer connected", k)));
        }
    }
    // an honest newcomer connects afterwards
    let k = n + 10;
    let mut c = new_client(Duration::from_secs(12), &{
        let mut sp = TokenSpec::new(50_000 + k as u64, 0, public.clone());
        sp.create = 12;
        sp.expire = 60;
        make_token_wide(&sp, k as u32)
    });
    if !nc::connect(&mut server, &mut c, wide_addr(k as u32))? {
        return Err(bad("room-but-not-connected", "an honest client with a fresh token cannot connect after the half-open sessions expired".to_string()));
    }
    Ok(steps + 6)
}

/// Fail-over between two *different* servers (own challenge keys): server A, listed first, goes silent at `stage`
/// (0 = never answers, 1 = after its challenge, 2 = after its challenge and one lost response); the client must move
/// to server B after the token time-out and complete a full handshake there.
pub fn failover_case(stage: usize, timeout_s: i32, dt_ms: u64) -> Result<u64, Violation> {
    failover_case_exp(stage, timeout_s, dt_ms, 600)
}

/// `expire`: the token's lifetime in seconds (u64::MAX - create = a token that never expires)
pub fn failover_case_exp(stage: usize, timeout_s: i32, dt_ms: u64, expire: u64) -> Result<u64, Violation> {
    use crate::nc::{self, client_addr, make_token, new_client, new_server, server_addr, TokenSpec};
    use std::time::Duration;
    let (a_addr, b_addr) = (server_addr(0), server_addr(1));
    let mut a = new_server(4, vec![a_addr], Duration::ZERO);
    let mut b = new_server(4, vec![b_addr], Duration::ZERO);
    let mut sp = TokenSpec::new(9, 9, vec![a_addr, b_addr]);
    sp.timeout = timeout_s;
    sp.expire = expire;
    let tok = make_token(&sp);
    let mut c = new_client(Duration::ZERO, &tok);
    let bad = |sig: &str, msg: String| Violation::new(format!("C18/fail-over-between-servers/{}", sig), format!("first server silent {}, time-out {} s, ticks of {} ms: {}", ["from the start", "after its challenge", "after its challenge and a lost response"][stage], timeout_s, dt_ms, msg));
    let dt = Duration::from_millis(dt_ms);
    let me = client_addr(1);
    let mut calls = 0u64;
    let mut a_answers = if stage == 0 { 0 } else { 1 };
    let budget_ticks = ((timeout_s as u64 * 1000) / dt_ms + 1) * 2 + 40;
    let mut switched_at: Option<u64> = None;
    for tick in 0..budget_ticks {
        a.update(dt);
        b.update(dt);
        let out = nc::cli_update(&mut c, dt)?;
        calls += 3;
        if c.is_disconnected() {
            return Err(bad("client-gave-up", format!("tick {}: the client is disconnected ({:?}) although the second listed server answers", tick, c.disconnect_reason())));
        }
        if let Some((p, to)) = out {
            if to == a_addr {
                if a_answers > 0 {
                    a_answers -= 1;
                    let r = nc::srv_process(&mut a, me, &p)?;
                    if let Some((_, bytes)) = r.reply() {
                        nc::cli_process(&mut c, bytes)?;
                    }
                    calls += 2;
                }
            } else if to == b_addr {
                switched_at.get_or_insert(tick);
                let r = nc::srv_process(&mut b, me, &p)?;
                if let Some((_, bytes)) = r.reply() {
                    nc::cli_process(&mut c, bytes)?;
                }
                calls += 2;
            } else {
                return Err(bad("datagram-to-unlisted-address", format!("tick {}: the client addressed {}", tick, to)));
            }
        }
        if c.is_connected() && b.is_client_connected(9) {
            return Ok(calls);
        }
        if let Some(t0) = switched_at {
            if (tick - t0) * dt_ms > 4 * dt_ms.max(250) + 1000 {
                return Err(bad("handshake-did-not-complete", format!("the client turned to the second server at tick {} and is still not connected there at tick {} (client connected: {}, server B has it: {})", t0, tick, c.is_connected(), b.is_client_connected(9))));
            }
        }
    }
    Err(bad("handshake-did-not-complete", format!("{} ticks: the client never got connected to the second server (switched at {:?})", budget_ticks, switched_at)))
}

pub fn failover_cases() -> Vec<(usize, i32, u64)> {
    let mut v = vec![];
    for stage in 0..3 {
        for (t, dt) in [(1i32, 100u64), (2, 250), (2, 400), (5, 250)] {
            v.push((stage, t, dt));
        }
    }
    v
}

/// Recovery class: client X (address A) connects and its session ends in one of three ways; another client Y takes the
/// freed slot; then somebody connects from address A again (X's id with a fresh token, or a new id). There is room, so
/// the handshake must complete, Y must be undisturbed and payloads must be routed to the right sessions.
/// `end`: 0 = server.disconnect(id), 1 = time-out, 2 = the client's disconnect datagram
pub fn return_case(end: usize, same_id: bool, slots: usize, y_before_end: bool) -> Result<u64, Violation> {
    use crate::nc::{self, make_token_wide, new_client, new_server, server_addr, wide_addr, TokenSpec, SR};
    use std::time::Duration;
    let public = vec![server_addr(0)];
    let mut server = new_server(slots, public.clone(), Duration::ZERO);
    let bad = |sig: &str, msg: String| Violation::new(format!("C18/return-after-slot-reuse/{}", sig), format!("session of X ended by {}, {} slots, {}: {}", ["server.disconnect", "time-out", "client disconnect"][end], slots, if same_id { "same id returns" } else { "new id from the same address" }, msg));
    let mk = |id: u64, salt: u32| {
        let mut sp = TokenSpec::new(id, 0, public.clone());
        sp.expire = 600;
        sp.timeout = 5;
        make_token_wide(&sp, salt)
    };
    let dt = Duration::from_millis(250);
    let mut calls = 0u64;
    let mut hs = |server: &mut renetcode::NetcodeServer, id: u64, salt: u32, addr_k: u32, calls: &mut u64| -> Result<Option<renetcode::NetcodeClient>, Violation> {
        let mut c = new_client(Duration::ZERO, &mk(id, salt));
        for _ in 0..4 {
            if let Some((p, _)) = nc::cli_update(&mut c, dt)? {
                let r = nc::srv_process(server, wide_addr(addr_k), &p)?;
                *calls += 2;
                if let Some((_, b)) = r.reply() {
                    nc::cli_process(&mut c, b)?;
                }
            }
            if c.is_connected() && server.is_client_connected(id) {
                return Ok(Some(c));
            }
        }
        Ok(None)
    };
    let (xa, ya) = (1u32, 2u32);
    let mut x = hs(&mut server, 100, 1, xa, &mut calls)?.ok_or_else(|| bad("fixture", "X did not connect".into()))?;
    let mut y = None;
    if y_before_end {
        y = Some(hs(&mut server, 200, 2, ya, &mut calls)?.ok_or_else(|| bad("fixture", "Y did not connect".into()))?);
    }
    // X's session ends
    match end {
        0 => {
            let s = &mut server;
            let r = crate::link::guard("NetcodeServer::disconnect", || nc::own(s.disconnect(100)))?;
            if !matches!(r, SR::Disconnected { client_id: 100, .. }) {
                return Err(bad("fixture", format!("disconnect(100) gave {}", r.kind())));
            }
        }
        1 => {
            // Y (if there) keeps talking, X is silent for 6 s
            for _ in 0..24 {
                server.update(dt);
                for id in server.clients_id() {
                    let r = nc::srv_update_client(&mut server, id)?;
                    if let (SR::Send { bytes, .. }, Some(yc)) = (&r, y.as_mut()) {
                        if id == 200 {
                            nc::cli_process(yc, bytes)?;
                        }
                    }
                }
                if let Some(yc) = y.as_mut() {
                    if let Some((p, _)) = nc::cli_update(yc, dt)? {
                        nc::srv_process(&mut server, wide_addr(ya), &p)?;
                    }
                }
                calls += 4;
            }
            if server.is_client_connected(100) {
                return Err(bad("silent-client-not-timed-out", "X sent nothing for 6 s (time-out 5 s) and is still connected".into()));
            }
        }
        _ => {
            let xc = &mut x;
            let d = crate::link::guard("NetcodeClient::disconnect", || xc.disconnect().map(|(_, p)| p.to_vec()).ok())?.ok_or_else(|| bad("fixture", "no disconnect datagram".into()))?;
            let r = nc::srv_process(&mut server, wide_addr(xa), &d)?;
            if !matches!(r, SR::Disconnected { client_id: 100, .. }) {
                return Err(bad("fixture", format!("disconnect datagram gave {}", r.kind())));
            }
        }
    }
    if !y_before_end {
        // Y takes the slot X left
        y = Some(hs(&mut server, 200, 2, ya, &mut calls)?.ok_or_else(|| bad("handshake-did-not-complete", "Y could not connect although a slot was free".into()))?);
    }
    // somebody returns from X's address
    let rid = if same_id { 100 } else { 300 };
    let mut ret = match hs(&mut server, rid, 3, xa, &mut calls)? {
        Some(c) => c,
        None => {
            return Err(bad("handshake-did-not-complete", format!("{} of {} clients connected, but the client returning from {} (id {}) does not get connected", server.connected_clients(), slots, wide_addr(xa), rid)));
        }
    };
    // both sessions are the right ones
    let mut yc = y.take().unwrap();
    for (id, addr_k, c) in [(200u64, ya, &mut yc), (rid, xa, &mut ret)] {
        if server.client_addr(id) != Some(wide_addr(addr_k)) {
            return Err(bad("lookup-by-id-wrong-address", format!("client_addr({}) = {:?}", id, server.client_addr(id))));
        }
        let body = format!("to-{}", id).into_bytes();
        let s = &mut server;
        let out = crate::link::guard("generate_payload_packet", || s.generate_payload_packet(id, &body).map(|(a, p)| (a, p.to_vec())).ok())?;
        let Some((a, p)) = out else { return Err(bad("payload-for-connected-id-refused", format!("id {}", id))) };
        if a != wide_addr(addr_k) || nc::cli_process(c, &p)? != Some(body.clone()) {
            return Err(bad("payload-routed-to-wrong-session", format!("payload for id {} went to {} / could not be opened by its client", id, a)));
        }
        let up = format!("from-{}", id).into_bytes();
        let (_, q) = crate::link::guard("NetcodeClient::generate_payload_packet", || c.generate_payload_packet(&up).map(|(a, p)| (a, p.to_vec())).ok())?.ok_or_else(|| bad("client-cannot-send", format!("id {}", id)))?;
        match nc::srv_process(&mut server, wide_addr(addr_k), &q)? {
            SR::Payload { client_id, bytes } if client_id == id && bytes == up => {}
            other => return Err(bad("payload-attributed-to-wrong-id", format!("payload of id {} surfaced as {}", id, other.kind()))),
        }
        calls += 4;
    }
    Ok(calls)
}

pub fn return_cases() -> Vec<(usize, bool, usize, bool)> {
    let mut v = vec![];
    for end in 0..3 {
        for same_id in [true, false] {
            for slots in [2usize, 3, 8] {
                for y_before in [false, true] {
                    v.push((end, same_id, slots, y_before));
                }
            }
        }
    }
    v
}

pub fn replay(j: &J) -> i32 {
    let tier = match j.get("tier").and_then(|t| t.as_str()) {
        Some("thorough") => Tier::Thorough,
        _ => Tier::Quick,
    };
    if j.get("kind").and_then(|k| k.as_str()) == Some("many-half-open") {
        let n = j.get("n").and_then(|x| x.as_i()).unwrap_or(4096) as usize;
        println!("{} half-open sessions on a 4-slot server", n);
        return match pending_scale_case(n) {
            Err(v) => {
                println!("RESULT: violation {} — {}", v.signature, v.message);
                1
            }
            Ok(_) => {
                println!("RESULT: no violation");
                0
            }
        };
    }
    if j.get("kind").and_then(|k| k.as_str()) == Some("failover") {
        let cases = failover_cases();
        let i = j.get("case").and_then(|x| x.as_i()).unwrap_or(0) as usize;
        let Some(c) = cases.get(i) else { return 2 };
        println!("fail-over case {:?}", c);
        return match failover_case(c.0, c.1, c.2) {
            Err(v) => {
                println!("RESULT: violation {} — {}", v.signature, v.message);
                1
            }
            Ok(_) => {
                println!("RESULT: no violation");
                0
            }
        };
    }
    if j.get("kind").and_then(|k| k.as_str()) == Some("return") {
        let cases = return_cases();
        let i = j.get("case").and_then(|x| x.as_i()).unwrap_or(0) as usize;
        let Some(c) = cases.get(i) else { return 2 };
        println!("return case {:?}", c);
        return match return_case(c.0, c.1, c.2, c.3) {
            Err(v) => {
                println!("RESULT: violation {} — {}", v.signature, v.message);
                1
            }
            Ok(_) => {
                println!("RESULT: no violation");
                0
            }
        };
    }
    replay_net(&scenarios(tier), j)
}
