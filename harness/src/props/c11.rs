//! C11 — Isolation between clients and channels; broadcast reaches exactly its targets.

use crate::explore::{self, h128, Ctx, DfsCfg, RunOut, Scenario, Violation, World};
use crate::json::J;
use crate::link::{decode, guard, hash_conn, PktInfo};
use crate::report::{Report, Tier};
use renet::{ChannelConfig, ConnectionConfig, RenetClient, RenetServer, SendType};
use std::collections::BTreeMap;
use std::hash::{Hash, Hasher};
use std::time::Duration;

const RESEND_MS: u64 = 300;
const DT: u64 = 100;
const PROBE_TICKS: u32 = 7;

fn config() -> ConnectionConfig {
    let chans = || {
        vec![
            ChannelConfig { channel_id: 0, max_memory_usage_bytes: 100_000, send_type: SendType::Unreliable },
            ChannelConfig {
                channel_id: 1,
                max_memory_usage_bytes: 100_000,
                send_type: SendType::ReliableOrdered { resend_time: Duration::from_millis(RESEND_MS) },
            },
            ChannelConfig {
                channel_id: 2,
                max_memory_usage_bytes: 100_000,
                send_type: SendType::ReliableUnordered { resend_time: Duration::from_millis(RESEND_MS) },
            },
        ]
    };
    ConnectionConfig { available_bytes_per_tick: 60_000, server_channels_config: chans(), client_channels_config: chans() }
}

fn id_of(i: usize) -> u64 {
    100 + i as u64
}

#[derive(Clone, Debug)]
struct Msg {
    ch: u8,
    from_server: bool,
    /// client index of the sender (client -> server messages)
    sender: usize,
    sender_epoch: u32,
    /// (client index, connection epoch) that must / may obtain it
    recipients: Vec<(usize, u32)>,
    got: Vec<(usize, u32)>,
}

fn body(label: u16, ch: u8, from_server: bool, sender: usize, len: usize) -> Vec<u8> {
    let mut v = vec![0x4C, (label & 0xff) as u8, (label >> 8) as u8, ch, from_server as u8, sender as u8];
    while v.len() < len {
        v.push((v.len() as u8).wrapping_mul(7).wrapping_add(label as u8));
    }
    v
}

#[derive(Clone, Debug, PartialEq, Eq, Hash)]
pub enum Act {
    Connect(usize),
    ServerDisconnect(usize),
    Remove(usize),
    Send(usize, u8),
    Broadcast(u8),
    BroadcastExcept(usize, u8),
    ClientSend(usize, u8),
    Tick,
    /// one tick in which every packet of client i's link (both directions) is lost
    TickLinkDown(usize),
    Hostile(usize),
    /// a well-formed packet from client i that its connection refuses without disconnecting: the first slice of an
    /// unreliable message announcing 10 000 slices (does not fit the channel budget)
    HostileSlice(usize),
    /// one tick of 3.1 s (stale-fragment clean-up, sent-packet records written off)
    LongTick,
}

#[derive(Clone, Copy, PartialEq, Eq, Debug)]
enum Fault {
    None,
    /// everything to and from client i is lost
    Stall(usize),
    /// server -> client i packets of the ordered channel are lost
    StallOrdered(usize),
}

#[derive(Clone)]
pub struct NWorld {
    srv: RenetServer,
    peers: Vec<Option<RenetClient>>,
    epochs: Vec<u32>,
    msgs: Vec<Msg>,
    tick: u32,
    /// (observer, label, tick) log: observer = client index, or 1000 + client index for the server side
    log: Vec<(usize, u16, u32)>,
    flags: u64,
    /// packets of the faulty link held back by the schedule: (to_server, bytes, due tick)
    held: Vec<(bool, Vec<u8>, u32)>,
}

impl NWorld {
    pub fn new(n: usize) -> Self {
        NWorld {
            srv: RenetServer::new(config()),
            peers: vec![None; n],
            epochs: vec![0; n],
            msgs: vec![],
            tick: 0,
            log: vec![],
            flags: 0,
            held: vec![],
        }
    }

    /// applies an action without running the per-state probes (used by the scripted M2 sessions)
    fn step_quiet(&mut self, a: &Act) -> Result<(), Violation> {
        self.apply(a)?;
        while self.srv.get_event().is_some() {}
        Ok(())
    }

    /// one tick in which every packet of client `faulty`'s link gets a fate from the schedule
    fn tick_with_schedule(&mut self, ctx: &mut Ctx, faulty: usize, open: bool) -> Result<(), Violation> {
        self.tick += 1;
        let tick = self.tick;
        let n = self.n();
        let mut fate = |ctx: &mut Ctx, held: &mut Vec<(bool, Vec<u8>, u32)>, to_server: bool, p: Vec<u8>, now: &mut Vec<Vec<u8>>| {
            let f = if open { PFATES[ctx.choose(PFATES.len())] } else { PFate::Ok };
            if f != PFate::Ok {
                ctx.note(|| format!("t{} link of client {}: {} packet ({} B) fate {:?}", tick, faulty, if to_server { "client->server" } else { "server->client" }, p.len(), f));
            }
            match f {
                PFate::Ok => now.push(p),
                PFate::Drop => {}
                PFate::Dup => {
                    now.push(p.clone());
                    now.push(p);
                }
                PFate::Delay1 => held.push((to_server, p, tick + 1)),
                PFate::Delay2 => held.push((to_server, p, tick + 2)),
            }
        };
        // clients -> server
        for i in 0..n {
            if let Some(c) = self.peers[i].as_mut() {
                let pk = guard("client update+flush", || {
                    c.update(Duration::from_millis(DT));
                    c.get_packets_to_send()
                })?;
                let mut now: Vec<Vec<u8>> = vec![];
                if i == faulty {
                    let mut rest = vec![];
                    for (ts, p, due) in std::mem::take(&mut self.held) {
                        if ts && due <= tick {
                            now.push(p);
                        } else {
                            rest.push((ts, p, due));
                        }
                    }
                    self.held = rest;
                    for p in pk {
                        fate(ctx, &mut self.held, true, p, &mut now);
                    }
                } else {
                    now = pk;
                }
                let srv = &mut self.srv;
                for p in now {
                    guard("process_packet_from", || {
                        let _ = srv.process_packet_from(&p, id_of(i));
                    })?;
                }
            }
        }
        for i in 0..n {
            for ch in 0..3u8 {
                loop {
                    let srv = &mut self.srv;
                    let m = guard("receive_message", || srv.receive_message(id_of(i), ch))?;
                    match m {
                        Some(b) => self.obtained(None, i, ch, &b)?,
                        None => break,
                    }
                }
            }
        }
        let srv = &mut self.srv;
        guard("server update", || srv.update(Duration::from_millis(DT)))?;
        for i in 0..n {
            let srv = &mut self.srv;
            let pk = guard("get_packets_to_send", || srv.get_packets_to_send(id_of(i)).unwrap_or_default())?;
            let mut now: Vec<Vec<u8>> = vec![];
            if i == faulty {
                let mut rest = vec![];
                for (ts, p, due) in std::mem::take(&mut self.held) {
                    if !ts && due <= tick {
                        now.push(p);
                    } else {
                        rest.push((ts, p, due));
                    }
                }
                self.held = rest;
                for p in pk {
                    fate(ctx, &mut self.held, false, p, &mut now);
                }
            } else {
                now = pk;
            }
            if let Some(c) = self.peers[i].as_mut() {
                for p in now {
                    guard("process_packet", || c.process_packet(&p))?;
                }
            }
        }
        for i in 0..n {
            for ch in 0..3u8 {
                loop {
                    let Some(c) = self.peers[i].as_mut() else { break };
                    let m = guard("client receive_message", || c.receive_message(ch))?;
                    match m {
                        Some(b) => self.obtained(Some(i), i, ch, &b)?,
                        None => break,
                    }
                }
            }
        }
        Ok(())
    }

    fn n(&self) -> usize {
        self.peers.len()
    }

    fn new_label(&mut self, ch: u8, from_server: bool, sender: usize, recipients: Vec<(usize, u32)>) -> u16 {
        let se = self.epochs.get(sender).copied().unwrap_or(0);
        self.msgs.push(Msg { ch, from_server, sender, sender_epoch: se, recipients, got: vec![] });
        (self.msgs.len() - 1) as u16
    }

    fn connected_now(&self) -> Vec<(usize, u32)> {
        (0..self.n()).filter(|&i| self.srv.is_connected(id_of(i))).map(|i| (i, self.epochs[i])).collect()
    }

    fn len_for(label: u16, ch: u8) -> usize {
        // some reliable messages are sliced
        if ch != 0 && label % 3 == 2 {
            1500
        } else {
            12
        }
    }

    fn obtained(&mut self, observer_client: Option<usize>, via_id: usize, ch: u8, bytes: &[u8]) -> Result<(), Violation> {
        if bytes.len() < 6 || bytes[0] != 0x4C {
            return Err(Violation::new("C11/fabricated-message", format!("obtained {} bytes that no application submitted", bytes.len())));
        }
        let label = bytes[1] as u16 | ((bytes[2] as u16) << 8);
        let Some(m) = self.msgs.get(label as usize).cloned() else {
            return Err(Violation::new("C11/fabricated-message", format!("label {} was never submitted", label)));
        };
        if bytes != &body(label, m.ch, m.from_server, m.sender, Self::len_for(label, m.ch))[..] {
            return Err(Violation::new("C11/corrupted-message", format!("label {} arrived with different bytes", label)));
        }
        if m.ch != ch {
            return Err(Violation::new(
                "C11/cross-channel-delivery",
                format!("message {} submitted on channel {} was obtained on channel {}", label, m.ch, ch),
            ));
        }
        match observer_client {
            Some(j) => {
                // a client obtained a server message
                let e = self.epochs[j];
                if !m.from_server || !m.recipients.contains(&(j, e)) {
                    return Err(Violation::new(
                        "C11/obtained-by-wrong-client",
                        format!(
                            "client {} (connection epoch {}) obtained message {} whose recipients are {:?} (from_server {})",
                            j, e, label, m.recipients, m.from_server
                        ),
                    ));
                }
                if self.msgs[label as usize].got.contains(&(j, e)) {
                    if m.ch == 0 {
                        // an unreliable message may legitimately arrive again when the link duplicated its packet
                        return Ok(());
                    }
                    return Err(Violation::new("C11/obtained-twice", format!("client {} obtained message {} twice", j, label)));
                }
                self.msgs[label as usize].got.push((j, e));
                self.log.push((j, label, self.tick));
            }
            None => {
                // the server obtained it through receive_message(id_of(via_id))
                if m.from_server || m.sender != via_id || m.sender_epoch != self.epochs[via_id] {
                    return Err(Violation::new(
                        "C11/attributed-to-wrong-client",
                        format!("server obtained message {} under client {}'s id, but it was sent by client {} (from_server {})", label, via_id, m.sender, m.from_server),
                    ));
                }
                if self.msgs[label as usize].got.contains(&(1000 + via_id, 0)) {
                    if m.ch == 0 {
                        return Ok(());
                    }
                    return Err(Violation::new("C11/obtained-twice", format!("server obtained message {} twice", label)));
                }
                self.msgs[label as usize].got.push((1000 + via_id, 0));
                self.log.push((1000 + via_id, label, self.tick));
            }
        }
        Ok(())
    }

    fn tick(&mut self, fault: Fault) -> Result<(), Violation> {
        self.tick_dt(fault, DT)
    }

    fn tick_dt(&mut self, fault: Fault, dt: u64) -> Result<(), Violation> {
        self.tick += 1;
        let n = self.n();
        // clients: update, flush -> server
        for i in 0..n {
            let lost = matches!(fault, Fault::Stall(x) if x == i);
            if let Some(c) = self.peers[i].as_mut() {
                let pk = guard("client update+flush", || {
                    c.update(Duration::from_millis(dt));
                    c.get_packets_to_send()
                })?;
                if !lost {
                    let srv = &mut self.srv;
                    for p in pk {
                        guard("process_packet_from", || {
                            let _ = srv.process_packet_from(&p, id_of(i));
                        })?;
                    }
                }
            }
        }
        // server application drains
        for i in 0..n {
            for ch in 0..3u8 {
                loop {
                    let srv = &mut self.srv;
                    let m = guard("receive_message", || srv.receive_message(id_of(i), ch))?;
                    match m {
                        Some(b) => self.obtained(None, i, ch, &b)?,
                        None => break,
                    }
                }
            }
        }
        // server: update, flush -> clients
        let srv = &mut self.srv;
        guard("server update", || srv.update(Duration::from_millis(dt)))?;
        for i in 0..n {
            let srv = &mut self.srv;
            let pk = guard("get_packets_to_send", || srv.get_packets_to_send(id_of(i)).unwrap_or_default())?;
            let lost_all = matches!(fault, Fault::Stall(x) if x == i);
            if let Some(c) = self.peers[i].as_mut() {
                for p in pk {
                    if lost_all {
                        continue;
                    }
                    if matches!(fault, Fault::StallOrdered(x) if x == i) {
                        let (_, info, _) = decode(&p);
                        let ordered = matches!(info, PktInfo::SmallReliable { ch: 1, .. } | PktInfo::ReliableSlice { ch: 1, .. });
                        if ordered {
                            continue;
                        }
                    }
                    guard("process_packet", || c.process_packet(&p))?;
                }
            }
        }
        // client applications drain
        for i in 0..n {
            for ch in 0..3u8 {
                loop {
                    let Some(c) = self.peers[i].as_mut() else { break };
                    let m = guard("client receive_message", || c.receive_message(ch))?;
                    match m {
                        Some(b) => self.obtained(Some(i), i, ch, &b)?,
                        None => break,
                    }
                }
            }
        }
        Ok(())
    }

    fn healthy(&self, i: usize) -> bool {
        self.srv.is_connected(id_of(i)) && self.peers[i].as_ref().map(|c| c.is_connected()).unwrap_or(false)
    }

    /// probes run on clones in every state: completeness and the differential isolation oracle
    fn probes(&self) -> Result<(), Violation> {
        let run = |fault: Fault| -> Result<NWorld, Violation> {
            let mut w = self.clone();
            w.log.clear();
            // fresh traffic to everybody on every channel, plus one message from every client
            for j in 0..w.n() {
                if w.healthy(j) {
                    for ch in 0..3u8 {
                        let l = w.new_label(ch, true, 0, vec![(j, w.epochs[j])]);
                        let b = body(l, ch, true, 0, Self::len_for(l, ch));
                        w.srv.send_message(id_of(j), ch, b);
                        let l = w.new_label(ch, false, j, vec![]);
                        let b = body(l, ch, false, j, Self::len_for(l, ch));
                        if let Some(c) = w.peers[j].as_mut() {
                            c.send_message(ch, b);
                        }
                    }
                }
            }
            let rc = w.connected_now();
            let l = w.new_label(1, true, 0, rc);
            let b = body(l, 1, true, 0, Self::len_for(l, 1));
            w.srv.broadcast_message(1u8, b);
            for _ in 0..PROBE_TICKS {
                w.tick(fault)?;
            }
            Ok(w)
        };
        let base = run(Fault::None)?;
        // completeness: every reliable message reached every recipient that is still healthy, exactly once
        for (l, m) in base.msgs.iter().enumerate() {
            if m.ch == 0 {
                continue;
            }
            if m.from_server {
                for &(j, e) in &m.recipients {
                    if base.epochs[j] == e && base.healthy(j) && !m.got.contains(&(j, e)) {
                        return Err(Violation::new(
                            "C11/reliable-message-not-obtained-by-recipient",
                            format!("message {} on channel {} for client {} not obtained after {} fault-free ticks (recipients {:?})", l, m.ch, j, PROBE_TICKS, m.recipients),
                        ));
                    }
                }
            } else if base.epochs[m.sender] == m.sender_epoch && base.healthy(m.sender) && !m.got.contains(&(1000 + m.sender, 0)) {
                return Err(Violation::new(
                    "C11/client-message-not-obtained-by-server",
                    format!("message {} from client {} on channel {} not obtained after {} fault-free ticks", l, m.sender, m.ch, PROBE_TICKS),
                ));
            }
        }
        // isolation: a stalled client does not change what anybody else observes, tick for tick
        for i in 0..self.n() {
            if self.peers[i].is_none() {
                continue;
            }
            let stalled = run(Fault::Stall(i))?;
            let f = |w: &NWorld| -> Vec<(usize, u16, u32)> { w.log.iter().cloned().filter(|(o, _, _)| *o != i && *o != 1000 + i).collect() };
            if f(&base) != f(&stalled) {
                return Err(Violation::new(
                    "C11/stalled-client-changes-others-traffic",
                    format!(
                        "with client {}'s link down the other observers see {:?}, with it up {:?} (observer, label, tick)",
                        i,
                        f(&stalled),
                        f(&base)
                    ),
                ));
            }
            // a stalled ordered stream of client i does not delay its other channels
            let so = run(Fault::StallOrdered(i))?;
            let g = |w: &NWorld| -> Vec<(usize, u16, u32)> {
                w.log
                    .iter()
                    .cloned()
                    .filter(|(o, l, _)| !(*o == i && w.msgs[*l as usize].ch == 1))
                    .collect()
            };
            if g(&base) != g(&so) {
                return Err(Violation::new(
                    "C11/stalled-ordered-stream-delays-other-channels",
                    format!("with client {}'s ordered stream stalled, the rest observes {:?} instead of {:?}", i, g(&so), g(&base)),
                ));
            }
        }
        Ok(())
    }
}

impl World for NWorld {
    type Action = Act;

    fn actions(&self) -> Vec<Act> {
        let mut v = vec![];
        let n = self.n();
        for i in 0..n {
            let exists = self.srv.verif_connection_ids().contains(&id_of(i));
            if !exists {
                v.push(Act::Connect(i));
            } else {
                v.push(Act::ServerDisconnect(i));
                v.push(Act::Remove(i));
                v.push(Act::Hostile(i));
                v.push(Act::HostileSlice(i));
                v.push(Act::TickLinkDown(i));
            }
            v.push(Act::Send(i, 1));
            v.push(Act::Send(i, 0));
            v.push(Act::BroadcastExcept(i, 2));
            if self.peers[i].is_some() {
                v.push(Act::ClientSend(i, 1));
                v.push(Act::ClientSend(i, 2));
            }
        }
        v.push(Act::Broadcast(1));
        v.push(Act::Broadcast(0));
        v.push(Act::Tick);
        v.push(Act::LongTick);
        v
    }

    fn step(&mut self, a: &Act) -> Result<(), Violation> {
        self.apply(a)?;
        while self.srv.get_event().is_some() {}
        self.probes()
    }

    fn fingerprint(&self) -> u128 {
        self.fp()
    }

    fn flags(&self) -> u64 {
        self.flags
    }
}

impl NWorld {
    fn apply(&mut self, a: &Act) -> Result<(), Violation> {
        match a {
            Act::Connect(i) => {
                let srv = &mut self.srv;
                guard("add_connection", || srv.add_connection(id_of(*i)))?;
                let mut c = RenetClient::new(config());
                c.set_connected();
                self.peers[*i] = Some(c);
                self.epochs[*i] += 1;
                self.flags |= 1;
            }
            Act::ServerDisconnect(i) => {
                let srv = &mut self.srv;
                guard("disconnect", || srv.disconnect(id_of(*i)))?;
                self.flags |= 2;
            }
            Act::Remove(i) => {
                let srv = &mut self.srv;
                guard("remove_connection", || srv.remove_connection(id_of(*i)))?;
                self.peers[*i] = None;
            }
            Act::Hostile(i) => {
                let srv = &mut self.srv;
                guard("process_packet_from", || {
                    let _ = srv.process_packet_from(&[9, 9, 9], id_of(*i));
                })?;
                self.flags |= 4;
            }
            Act::Send(i, ch) => {
                let rc = if self.srv.is_connected(id_of(*i)) { vec![(*i, self.epochs[*i])] } else { vec![] };
                let l = self.new_label(*ch, true, 0, rc);
                let b = body(l, *ch, true, 0, Self::len_for(l, *ch));
                let srv = &mut self.srv;
                guard("send_message", || srv.send_message(id_of(*i), *ch, b))?;
            }
            Act::Broadcast(ch) => {
                let rc = self.connected_now();
                let l = self.new_label(*ch, true, 0, rc);
                let b = body(l, *ch, true, 0, Self::len_for(l, *ch));
                let srv = &mut self.srv;
                guard("broadcast_message", || srv.broadcast_message(*ch, b))?;
                self.flags |= 8;
            }
            Act::BroadcastExcept(i, ch) => {
                let rc: Vec<(usize, u32)> = self.connected_now().into_iter().filter(|(j, _)| j != i).collect();
                let l = self.new_label(*ch, true, 0, rc);
                let b = body(l, *ch, true, 0, Self::len_for(l, *ch));
                let srv = &mut self.srv;
                guard("broadcast_message_except", || srv.broadcast_message_except(id_of(*i), *ch, b))?;
            }
            Act::ClientSend(i, ch) => {
                let l = self.new_label(*ch, false, *i, vec![]);
                let b = body(l, *ch, false, *i, Self::len_for(l, *ch));
                if let Some(c) = self.peers[*i].as_mut() {
                    guard("client send_message", || c.send_message(*ch, b))?;
                }
            }
            Act::HostileSlice(i) => {
                let pkt = renet::verif::Packet::UnreliableSlice {
                    sequence: 1 << 40,
                    channel_id: 0,
                    slice: renet::verif::Slice { message_id: 77, slice_index: 0, num_slices: 10_000, payload: vec![7u8; 1200].into() },
                };
                let mut buf = [0u8; 1400];
                let len = {
                    let mut o = octets::OctetsMut::with_slice(&mut buf);
                    pkt.to_bytes(&mut o).unwrap_or(0)
                };
                let srv = &mut self.srv;
                guard("process_packet_from", || {
                    let _ = srv.process_packet_from(&buf[..len], id_of(*i));
                })?;
                self.flags |= 4;
            }
            Act::LongTick => self.tick_dt(Fault::None, 3100)?,
            Act::Tick => self.tick(Fault::None)?,
            Act::TickLinkDown(i) => {
                self.tick(Fault::Stall(*i))?;
                self.flags |= 16;
            }
        }
        Ok(())
    }

    fn fp(&self) -> u128 {
        let mut h = std::collections::hash_map::DefaultHasher::new();
        for i in 0..self.n() {
            match self.srv.verif_connection(id_of(i)) {
                Some(c) => hash_conn(&c.verif_snapshot(), &mut h),
                None => 0u8.hash(&mut h),
            }
            match &self.peers[i] {
                Some(c) => hash_conn(&c.verif_snapshot(), &mut h),
                None => 0u8.hash(&mut h),
            }
        }
        self.msgs.len().hash(&mut h);
        let mut pending: BTreeMap<u16, (u8, bool, usize, Vec<(usize, u32)>, Vec<(usize, u32)>)> = BTreeMap::new();
        for (l, m) in self.msgs.iter().enumerate() {
            pending.insert(l as u16, (m.ch, m.from_server, m.sender, m.recipients.clone(), m.got.clone()));
        }
        pending.hash(&mut h);
        self.epochs.hash(&mut h);
        h128(&h.finish())
    }
}

// ------------------------------------------------------------------------------------------
// M2: per-packet fault schedules on ONE client's link, differential oracle on the OTHER clients
// ------------------------------------------------------------------------------------------

pub struct FaultyLinkScenario {
    pub name: String,
    pub n: usize,
    pub faulty: usize,
    pub horizon: u32,
    pub tail: u32,
    /// (observer, label, tick) log of the fault-free run, restricted to observers other than the faulty client
    pub baseline: Vec<(usize, u16, u32)>,
}

#[derive(Clone, Copy, PartialEq, Eq, Debug)]
enum PFate {
    Ok,
    Drop,
    Dup,
    Delay1,
    Delay2,
}
const PFATES: [PFate; 5] = [PFate::Ok, PFate::Drop, PFate::Dup, PFate::Delay1, PFate::Delay2];

impl FaultyLinkScenario {
    fn script(w: &mut NWorld, tick: u32) -> Result<(), Violation> {
        let n = w.n();
        match tick {
            0 => {
                for i in 0..n {
                    w.step_quiet(&Act::Connect(i))?;
                }
            }
            1 => {
                w.step_quiet(&Act::Broadcast(1))?;
                for i in 0..n {
                    w.step_quiet(&Act::Send(i, 1))?;
                    w.step_quiet(&Act::ClientSend(i, 1))?;
                }
                w.step_quiet(&Act::Broadcast(0))?;
            }
            2 => {
                for i in 0..n {
                    w.step_quiet(&Act::Send(i, 0))?;
                    w.step_quiet(&Act::ClientSend(i, 2))?;
                    w.step_quiet(&Act::BroadcastExcept(i, 2))?;
                }
            }
            3 => {
                w.step_quiet(&Act::Broadcast(1))?;
                for i in 0..n {
                    w.step_quiet(&Act::Send(i, 1))?;
                }
            }
            _ => {}
        }
        Ok(())
    }

    fn execute(&self, ctx: &mut Ctx) -> (NWorld, Result<(), Violation>) {
        let mut w = NWorld::new(self.n);
        let r = (|| -> Result<(), Violation> {
            for tick in 0..self.horizon + self.tail {
                Self::script(&mut w, tick)?;
                w.tick_with_schedule(ctx, self.faulty, tick < self.horizon)?;
                ctx.transitions += 1;
                ctx.state(crate::explore::h64(&w.fingerprint()));
            }
            Ok(())
        })();
        (w, r)
    }

    pub fn new(name: &str, n: usize, faulty: usize, horizon: u32, tail: u32) -> Self {
        let mut s = FaultyLinkScenario { name: name.to_string(), n, faulty, horizon, tail, baseline: vec![] };
        let mut ctx = Ctx::new(&[], false);
        let (w, _) = s.execute(&mut ctx);
        s.baseline = w.log.iter().cloned().filter(|(o, _, _)| *o != faulty && *o != 1000 + faulty).collect();
        s
    }
}

impl Scenario for FaultyLinkScenario {
    fn name(&self) -> String {
        self.name.clone()
    }
    fn run(&self, ctx: &mut Ctx) -> RunOut {
        let (w, r) = self.execute(ctx);
        let mut violation = r.err();
        let others: Vec<(usize, u16, u32)> = w.log.iter().cloned().filter(|(o, _, _)| *o != self.faulty && *o != 1000 + self.faulty).collect();
        if violation.is_none() && others != self.baseline {
            violation = Some(Violation::new(
                "C11/faults-on-one-link-change-other-clients-traffic",
                format!(
                    "faults applied only to client {}'s link: the other observers' (observer, label, tick) log is {:?}, without faults it is {:?}",
                    self.faulty, others, self.baseline
                ),
            ));
        }
        if violation.is_none() {
            // completeness for everybody after the tail
            for (l, m) in w.msgs.iter().enumerate() {
                if m.ch == 0 {
                    continue;
                }
                if m.from_server {
                    for &(j, e) in &m.recipients {
                        if w.epochs[j] == e && w.healthy(j) && !m.got.contains(&(j, e)) {
                            violation = Some(Violation::new(
                                "C11/reliable-message-not-obtained-by-recipient",
                                format!("message {} on channel {} for client {} not obtained after the fault-free tail", l, m.ch, j),
                            ));
                        }
                    }
                } else if w.healthy(m.sender) && !m.got.contains(&(1000 + m.sender, 0)) {
                    violation = Some(Violation::new("C11/client-message-not-obtained-by-server", format!("message {} from client {}", l, m.sender)));
                }
            }
            for i in 0..w.n() {
                if !w.healthy(i) {
                    violation = Some(Violation::new("C11/honest-client-disconnected", format!("client {} is no longer connected on both sides", i)));
                }
            }
        }
        if ctx.verbose {
            for (o, l, t) in &w.log {
                ctx.log.push(format!("t{} observer {} obtained message {}", t, o, l));
            }
        }
        RunOut { violation, outcome: crate::explore::h64(&w.log) }
    }
}

pub fn faulty_link_scenarios(tier: Tier) -> Vec<FaultyLinkScenario> {
    let mut v = vec![FaultyLinkScenario::new("2 clients, faults on client 0's link", 2, 0, 5, 8), FaultyLinkScenario::new("3 clients, faults on client 1's link", 3, 1, 5, 8)];
    if tier == Tier::Thorough {
        v.push(FaultyLinkScenario::new("3 clients, faults on client 2's link", 3, 2, 6, 8));
    }
    v
}

pub fn run(tier: Tier) -> i32 {
    let mut rep = Report::new("C11", tier);
    rep.rule("M1: every sequence up to depth D of {connect i, server.disconnect i, remove i, send(i,ch), broadcast(ch), broadcast_except(i,ch), client i sends, tick, tick with client i's link down, hostile packet on link i} for N clients, each over its own link; labels are unique so every obtained message is attributed; in every state three kinds of probes run on clones: (P1) fault-free ticks with fresh traffic to every healthy client on every channel: every reliable message reaches exactly its still-healthy recipients exactly once, nobody else; (P2, per client) the same ticks with that client's link down: what every other observer obtains, tick for tick, is identical to P1 (differential isolation); (P3, per client) its ordered server->client stream stalled: everything else identical to P1");
    rep.assume("ticks deliver without delay inside the M1 alphabet (per-packet fault schedules on a single link are C01-C03's job); recipients of a broadcast = clients for which RenetServer::is_connected holds at the call");
    for (k, (n, d)) in [(2usize, std::env::var("C11D").ok().and_then(|s| s.parse().ok()).unwrap_or(tier.pick(6u32, 7u32))), (3usize, tier.pick(5u32, 6u32))].into_iter().enumerate() {
        let cfg = DfsCfg { depth: d, threads: explore::threads(), wall_cap_s: tier.pick(100.0, 1500.0), max_signatures: 8 };
        let w = NWorld::new(n);
        let r = explore::dfs(&w, &cfg);
        rep.vac("states_after_connect", (r.flags_seen & 1 != 0) as u64);
        rep.vac("states_after_server_disconnect", (r.flags_seen & 2 != 0) as u64);
        rep.vac("states_after_hostile_packet", (r.flags_seen & 4 != 0) as u64);
        rep.vac("states_after_broadcast", (r.flags_seen & 8 != 0) as u64);
        rep.vac("states_after_link_down_tick", (r.flags_seen & 16 != 0) as u64);
        rep.add_dfs(&format!("{}-clients", n), k, d, &r);
    }
    if rep.machinery.is_none() {
        rep.rule("M2: a scripted session (broadcasts, sends, broadcast_except, client sends on all three channel kinds over 4 ticks) with every schedule of <= d per-packet deviations (drop, duplicate, delay 1/2) on ONE client's link in both directions; differential oracle: the (observer, label, tick) log of every other observer equals the fault-free run's; recipient / at-most-once / attribution oracles on every obtained message; completeness after the tail");
        let sc = faulty_link_scenarios(tier);
        for (i, s) in sc.iter().enumerate() {
            let cfg = crate::explore::ExploreCfg { max_dev: tier.pick(2, 3), wall_cap_s: tier.pick(100.0, 1500.0), ..Default::default() };
            match explore::explore_schedules(s, 10 + i, &cfg, 0) {
                Ok(r) => rep.add_explore(&format!("m2/{}", s.name), &r, &[]),
                Err(e) => {
                    rep.machinery = Some(e.0);
                    break;
                }
            }
        }
    }
    // scale class: crowds (client tables, broadcast loops and id handling beyond one byte)
    if rep.machinery.is_none() {
        let sizes: Vec<usize> = tier.pick(vec![2, 255, 256, 257, 300], vec![2, 3, 64, 255, 256, 257, 300, 1000, 2000]);
        let res = explore::par_cases(sizes.len(), |i| crowd_case(sizes[i]));
        let mut steps = 0u64;
        for (i, r) in res.into_iter().enumerate() {
            match r {
                Ok(n) => steps += n,
                Err(v) => rep.violation("crowd", v, J::obj().set("kind", J::s("crowd")).set("clients", J::i(sizes[i] as u64))),
            }
        }
        rep.add_sweep("crowd", sizes.len() as u64, sizes.len() as u64, sizes.len() as u64, vec![format!("{:?} clients on one server: broadcast, broadcast_except, unicast, sliced broadcast, every client sends; one client kicked, one link dead, then a second broadcast ({} library calls)", sizes, steps)]);
        rep.transitions += steps;
    }
    // recovery class: a connection added after a dirty session was removed behaves like one on a fresh server
    if rep.machinery.is_none() {
        let cases = reconnect_cases();
        let res = explore::par_cases(cases.len(), |i| reconnect_case(cases[i].0, cases[i].1, cases[i].2, cases[i].3));
        let mut steps = 0u64;
        for (i, r) in res.into_iter().enumerate() {
            match r {
                Ok(n) => steps += n,
                Err(v) => rep.violation("reconnect", v, J::obj().set("kind", J::s("reconnect")).set("case", J::i(i as u64))),
            }
        }
        rep.add_sweep("reconnect", cases.len() as u64, cases.len() as u64, RECONNECT_RECIPES.len() as u64, vec![format!("{} cases: {} states an earlier session is left in x (same id / another id added with add_connection, same id via new_local_client) x (earlier session remote and removed / a local client ended by disconnect_local_client); the new session's standard exchange (unicasts both ways, broadcast, broadcast_except) equals the one on a fresh server ({} library calls)", cases.len(), RECONNECT_RECIPES.len(), steps)]);
        rep.transitions += steps;
    }
    rep.finish()
}

/// Recovery class: a connection is left in a "dirty" state (recipe), removed, and a connection is added again (same or
/// another client id, fresh peer). The new session must behave exactly like a session on a fresh server: a standard
/// exchange on every channel in both directions delivers the same messages (differential oracle + exact delivery).
pub const RECONNECT_RECIPES: [&str; 9] = [
    "unordered receive stream with a gap (older message lost, younger ones received and consumed)",
    "ordered receive stream with a gap (younger messages buffered)",
    "first slices only of a sliced message on every channel",
    "server-side unacknowledged small and sliced messages",
    "messages received but not drained",
    "many pending acknowledgement ranges",
    "disconnected by a hostile packet",
    "kicked by the server while messages were in flight both ways",
    "all of the above",
];

pub fn reconnect_case(recipe: usize, same_id: bool, via_local_client: bool, old_local: bool) -> Result<u64, Violation> {
    let bad = |sig: &str, msg: String| {
        Violation::new(format!("C11/reconnect/{}", sig), format!("earlier session ({}) left: {}; {} id reconnects{}: {}", if old_local { "a local client, ended by disconnect_local_client" } else { "added by add_connection, ended by remove_connection" }, RECONNECT_RECIPES[recipe], if same_id { "the same" } else { "another" }, if via_local_client { " as a local client" } else { "" }, msg))
    };
    let dt = Duration::from_millis(DT);
    let mut steps = 0u64;
    // the standard exchange: returns what each side obtained per channel
    let exchange = |srv: &mut RenetServer, id: u64, peer: &mut RenetClient, steps: &mut u64| -> Result<Vec<Vec<Vec<u8>>>, Violation> {
        let mut got: Vec<Vec<Vec<u8>>> = vec![vec![]; 6];
        for round in 0..3u16 {
            for ch in 0..3u8 {
                for (k, len) in [(0u16, 9usize), (1, 2500)] {
                    let down = body(100 + round * 10 + k, ch, true, 0, len);
                    let up = body(200 + round * 10 + k, ch, false, 0, len + 3);
                    guard("send_message", || srv.send_message(id, ch, down))?;
                    guard("client send_message", || peer.send_message(ch, up))?;
                }
                let b1 = body(300 + round, ch, true, 0, 11);
                let b2 = body(310 + round, ch, true, 0, 1300);
                guard("broadcast_message", || srv.broadcast_message(ch, b1))?;
                guard("broadcast_message_except", || srv.broadcast_message_except(id + 1000, ch, b2))?;
            }
            for _ in 0..5 {
                guard("exchange tick", || {
                    peer.update(dt);
                    for p in peer.get_packets_to_send() {
                        let _ = srv.process_packet_from(&p, id);
                    }
                    srv.update(dt);
                    for p in srv.get_packets_to_send(id).unwrap_or_default() {
                        peer.process_packet(&p);
                    }
                })?;
                *steps += 4;
                for ch in 0..3u8 {
                    while let Some(m) = guard("receive_message", || srv.receive_message(id, ch))? {
                        got[ch as usize].push(m.to_vec());
                    }
                    while let Some(m) = guard("client receive_message", || peer.receive_message(ch))? {
                        got[3 + ch as usize].push(m.to_vec());
                    }
                }
            }
        }
        if let Some(r) = srv.disconnect_reason(id) {
            return Err(bad("new-session-disconnected", format!("server side of the new session: {:?}", r)));
        }
        if let Some(r) = peer.disconnect_reason() {
            return Err(bad("new-session-disconnected", format!("client side of the new session: {:?}", r)));
        }
        Ok(got)
    };
    // reference: the same exchange on a fresh server
    let reference = {
        let mut srv = RenetServer::new(config());
        srv.add_connection(7);
        let mut peer = RenetClient::new(config());
        peer.set_connected();
        let mut n = 0u64;
        exchange(&mut srv, 7, &mut peer, &mut n)?
    };
    for (i, g) in reference.iter().enumerate() {
        if g.len() != if i < 3 { 6 } else { 12 } {
            return Err(bad("fixture", format!("reference exchange delivered {} of {} messages on stream {}", g.len(), if i < 3 { 6 } else { 12 }, i)));
        }
    }
    // the dirty session
    let old_id = 7u64;
    let mut srv = RenetServer::new(config());
    let mut old;
    if old_local {
        old = guard("new_local_client", || srv.new_local_client(old_id))?;
    } else {
        srv.add_connection(old_id);
        old = RenetClient::new(config());
        old.set_connected();
    }
    let parts: Vec<usize> = if recipe == 8 { (0..8).collect() } else { vec![recipe] };
    for part in parts {
        guard("dirty session", || {
            let deliver_up = |srv: &mut RenetServer, old: &mut RenetClient, keep: &dyn Fn(usize, &PktInfo) -> bool| {
                old.update(dt);
                for (k, p) in old.get_packets_to_send().into_iter().enumerate() {
                    let (_, info, _) = decode(&p);
                    if keep(k, &info) {
                        let _ = srv.process_packet_from(&p, old_id);
                    }
                }
            };
            match part {
                0 | 1 => {
                    let ch = if part == 0 { 2u8 } else { 1u8 };
                    old.send_message(ch, body(1, ch, false, 0, 20));
                    deliver_up(&mut srv, &mut old, &|_, _| false);
                    old.send_message(ch, body(2, ch, false, 0, 20));
                    old.send_message(ch, body(3, ch, false, 0, 2500));
                    // the first message is not yet due again: only the younger ones travel
                    deliver_up(&mut srv, &mut old, &|_, info| !matches!(info, PktInfo::SmallReliable { msgs, .. } if msgs.iter().any(|(id, _)| *id == 0)));
                    while srv.receive_message(old_id, ch).is_some() {}
                }
                2 => {
                    for ch in 0..3u8 {
                        old.send_message(ch, body(4, ch, false, 0, 3000));
                    }
                    deliver_up(&mut srv, &mut old, &|_, info| matches!(info, PktInfo::ReliableSlice { idx: 0, .. } | PktInfo::UnreliableSlice { idx: 0, .. }));
                }
                3 => {
                    for ch in 0..3u8 {
                        srv.send_message(old_id, ch, body(5, ch, true, 0, 30));
                        srv.send_message(old_id, ch, body(6, ch, true, 0, 2600));
                    }
                    srv.update(dt);
                    let _ = srv.get_packets_to_send(old_id);
                }
                4 => {
                    for ch in 0..3u8 {
                        old.send_message(ch, body(7, ch, false, 0, 40));
                        old.send_message(ch, body(8, ch, false, 0, 2700));
                    }
                    deliver_up(&mut srv, &mut old, &|_, _| true);
                }
                5 => {
                    for k in 0..40u16 {
                        old.send_message(0u8, body(9 + k, 0, false, 0, 1100));
                    }
                    deliver_up(&mut srv, &mut old, &|k, _| k % 2 == 0);
                    while srv.receive_message(old_id, 0u8).is_some() {}
                }
                6 => {
                    let _ = srv.process_packet_from(&[9, 9, 9], old_id);
                }
                _ => {
                    for ch in 0..3u8 {
                        srv.send_message(old_id, ch, body(60, ch, true, 0, 2600));
                        old.send_message(ch, body(61, ch, false, 0, 2600));
                    }
                    deliver_up(&mut srv, &mut old, &|k, _| k % 2 == 1);
                    srv.disconnect(old_id);
                }
            }
        })?;
    }
    steps += 20;
    while srv.get_event().is_some() {}
    if old_local {
        guard("disconnect_local_client", || srv.disconnect_local_client(old_id, &mut old))?;
        while srv.get_event().is_some() {}
    } else {
        guard("remove_connection", || srv.remove_connection(old_id))?;
    }
    let new_id = if same_id { old_id } else { 8 };
    let mut peer;
    if via_local_client {
        peer = guard("new_local_client", || srv.new_local_client(new_id))?;
    } else {
        guard("add_connection", || srv.add_connection(new_id))?;
        peer = RenetClient::new(config());
        peer.set_connected();
    }
    if !srv.is_connected(new_id) {
        return Err(bad("new-session-not-connected", format!("is_connected({}) is false right after the connection was added", new_id)));
    }
    let got = if via_local_client {
        // a local client is pumped through process_local_client instead of packets
        let mut got: Vec<Vec<Vec<u8>>> = vec![vec![]; 6];
        for round in 0..3u16 {
            for ch in 0..3u8 {
                for (k, len) in [(0u16, 9usize), (1, 2500)] {
                    let down = body(100 + round * 10 + k, ch, true, 0, len);
                    let up = body(200 + round * 10 + k, ch, false, 0, len + 3);
                    guard("send_message", || srv.send_message(new_id, ch, down))?;
                    guard("client send_message", || peer.send_message(ch, up))?;
                }
                let b1 = body(300 + round, ch, true, 0, 11);
                let b2 = body(310 + round, ch, true, 0, 1300);
                guard("broadcast_message", || srv.broadcast_message(ch, b1))?;
                guard("broadcast_message_except", || srv.broadcast_message_except(new_id + 1000, ch, b2))?;
            }
            for _ in 0..5 {
                guard("local tick", || {
                    peer.update(dt);
                    srv.update(dt);
                    let _ = srv.process_local_client(new_id, &mut peer);
                })?;
                steps += 3;
                for ch in 0..3u8 {
                    while let Some(m) = guard("receive_message", || srv.receive_message(new_id, ch))? {
                        got[ch as usize].push(m.to_vec());
                    }
                    while let Some(m) = guard("client receive_message", || peer.receive_message(ch))? {
                        got[3 + ch as usize].push(m.to_vec());
                    }
                }
            }
        }
        got
    } else {
        exchange(&mut srv, new_id, &mut peer, &mut steps)?
    };
    for (i, (g, r)) in got.iter().zip(reference.iter()).enumerate() {
        let (dirn, ch) = if i < 3 { ("client -> server", i) } else { ("server -> client", i - 3) };
        let mut gs = g.clone();
        let mut rs = r.clone();
        if ch != 1 {
            gs.sort();
            rs.sort();
        }
        if gs != rs {
            return Err(bad(
                "new-session-differs-from-a-fresh-one",
                format!("{} channel {}: the new session obtained {} messages (lengths {:?}), a session on a fresh server obtains {} (lengths {:?})", dirn, ch, g.len(), g.iter().map(|m| m.len()).collect::<Vec<_>>(), r.len(), r.iter().map(|m| m.len()).collect::<Vec<_>>()),
            ));
        }
    }
    Ok(steps)
}

pub fn reconnect_cases() -> Vec<(usize, bool, bool, bool)> {
    let mut v = vec![];
    for recipe in 0..RECONNECT_RECIPES.len() {
        for same in [true, false] {
            v.push((recipe, same, false, false));
        }
        v.push((recipe, true, true, false));
    }
    // the earlier session was a local client that left through disconnect_local_client
    for recipe in 0..RECONNECT_RECIPES.len() {
        v.push((recipe, true, false, true));
        v.push((recipe, true, true, true));
        v.push((recipe, false, false, true));
    }
    v
}

/// n clients on one server; who obtains what, at scale.
pub fn crowd_case(n: usize) -> Result<u64, Violation> {
    let bad = |sig: &str, msg: String| Violation::new(format!("C11/crowd/{}", sig), format!("{} clients: {}", n, msg));
    let id = |i: usize| 1000u64 + 3 * i as u64;
    let mut srv = RenetServer::new(config());
    let mut cl: Vec<RenetClient> = (0..n).map(|_| RenetClient::new(config())).collect();
    let dt = Duration::from_millis(DT);
    let mut steps = 0u64;
    // what client i obtained: (channel, body) list; what the server obtained per id
    let mut got_c: Vec<Vec<(u8, Vec<u8>)>> = vec![vec![]; n];
    let mut got_s: BTreeMap<u64, Vec<(u8, Vec<u8>)>> = BTreeMap::new();
    let excluded = n / 2;
    let target = n - 1;
    let kicked = n / 3;
    let dead = if n > 3 { Some(1usize) } else { None };
    let tag = |k: u8, len: usize| -> Vec<u8> {
        let mut v = vec![0xB0, k];
        while v.len() < len {
            v.push((v.len() as u8).wrapping_mul(5).wrapping_add(k));
        }
        v
    };
    let from = |i: usize| -> Vec<u8> {
        let mut v = vec![0xC1];
        v.extend_from_slice(&(i as u32).to_le_bytes());
        v
    };
    guard("crowd setup", || {
        for i in 0..n {
            srv.add_connection(id(i));
            cl[i].set_connected();
        }
        while srv.get_event().is_some() {}
    })?;
    let mut tick = |srv: &mut RenetServer, cl: &mut Vec<RenetClient>, got_c: &mut Vec<Vec<(u8, Vec<u8>)>>, got_s: &mut BTreeMap<u64, Vec<(u8, Vec<u8>)>>, dead_now: Option<usize>, steps: &mut u64| -> Result<(), Violation> {
        guard("crowd tick", || {
            srv.update(dt);
            for i in 0..n {
                cl[i].update(dt);
                let Ok(pk) = srv.get_packets_to_send(id(i)) else { continue };
                *steps += 1;
                if Some(i) == dead_now {
                    continue;
                }
                for p in pk {
                    cl[i].process_packet(&p);
                    *steps += 1;
                }
            }
            for i in 0..n {
                let pk = cl[i].get_packets_to_send();
                *steps += 1;
                if Some(i) == dead_now {
                    continue;
                }
                for p in pk {
                    let _ = srv.process_packet_from(&p, id(i));
                    *steps += 1;
                }
            }
            for i in 0..n {
                for ch in 0..3u8 {
                    while let Some(m) = cl[i].receive_message(ch) {
                        got_c[i].push((ch, m.to_vec()));
                    }
                    while let Some(m) = srv.receive_message(id(i), ch) {
                        got_s.entry(id(i)).or_default().push((ch, m.to_vec()));
                    }
                }
            }
        })
    };
    // round 1
    guard("crowd sends", || {
        srv.broadcast_message(1u8, tag(1, 40));
        srv.broadcast_message_except(id(excluded), 2u8, tag(2, 60));
        srv.send_message(id(target), 1u8, tag(3, 20));
        srv.broadcast_message(2u8, tag(4, 3000));
        for i in 0..n {
            cl[i].send_message(2u8, from(i));
        }
    })?;
    for _ in 0..6 {
        tick(&mut srv, &mut cl, &mut got_c, &mut got_s, None, &mut steps)?;
    }
    for i in 0..n {
        let mut want: Vec<(u8, Vec<u8>)> = vec![(1, tag(1, 40)), (2, tag(4, 3000))];
        if i != excluded {
            want.push((2, tag(2, 60)));
        }
        if i == target {
            want.push((1, tag(3, 20)));
        }
        let mut g = got_c[i].clone();
        g.sort();
        want.sort();
        if g != want {
            let describe = |v: &Vec<(u8, Vec<u8>)>| v.iter().map(|(c, b)| format!("ch{}:#{}({}B)", c, b.get(1).copied().unwrap_or(0), b.len())).collect::<Vec<_>>().join(" ");
            return Err(bad("recipients", format!("client {} (id {}) obtained [{}], expected [{}] (broadcast #1, broadcast_except({}) #2, unicast to {} #3, sliced broadcast #4)", i, id(i), describe(&g), describe(&want), id(excluded), id(target))));
        }
        let s = got_s.get(&id(i)).cloned().unwrap_or_default();
        if s != vec![(2u8, from(i))] {
            return Err(bad("attribution", format!("under id {} the server obtained {} message(s), expected exactly the one client {} sent", id(i), s.len(), i)));
        }
    }
    // round 2: one client kicked, one link dead; the rest must not notice
    for g in got_c.iter_mut() {
        g.clear();
    }
    guard("crowd round 2", || {
        srv.disconnect(id(kicked));
        srv.broadcast_message(1u8, tag(5, 40));
        srv.broadcast_message(2u8, tag(6, 2500));
    })?;
    for _ in 0..6 {
        tick(&mut srv, &mut cl, &mut got_c, &mut got_s, dead, &mut steps)?;
    }
    for i in 0..n {
        let mut g = got_c[i].clone();
        g.sort();
        let mut want: Vec<(u8, Vec<u8>)> = if i == kicked || Some(i) == dead { vec![] } else { vec![(1, tag(5, 40)), (2, tag(6, 2500))] };
        want.sort();
        if i == kicked {
            if !g.is_empty() {
                return Err(bad("disconnected-client-got-broadcast", format!("client {} was disconnected before the broadcast and obtained {} message(s)", i, g.len())));
            }
            continue;
        }
        if g != want {
            return Err(bad("recipients-round-2", format!("client {} obtained {} message(s) of the second round, expected {} (client {} kicked, link of client {:?} dead)", i, g.len(), want.len(), kicked, dead)));
        }
    }
    Ok(steps)
}

pub fn replay(j: &J) -> i32 {
    if j.get("kind").and_then(|k| k.as_str()) == Some("reconnect") {
        let cases = reconnect_cases();
        let i = j.get("case").and_then(|x| x.as_i()).unwrap_or(0) as usize;
        let Some(c) = cases.get(i) else { return 2 };
        println!("reconnect case: earlier session left '{}', same id {}, via local client {}, earlier session local {}", RECONNECT_RECIPES[c.0], c.1, c.2, c.3);
        return match reconnect_case(c.0, c.1, c.2, c.3) {
            Err(v) => {
                println!("RESULT: violation {} — {}", v.signature, v.message);
                1
            }
            Ok(_) => {
                println!("RESULT: no violation");
                0
            }
        };
    }
    if j.get("kind").and_then(|k| k.as_str()) == Some("crowd") {
        let n = j.get("clients").and_then(|x| x.as_i()).unwrap_or(256) as usize;
        println!("crowd case: {} clients", n);
        return match crowd_case(n) {
            Err(v) => {
                println!("RESULT: violation {} — {}", v.signature, v.message);
                1
            }
            Ok(_) => {
                println!("RESULT: no violation");
                0
            }
        };
    }
    if j.get("kind").and_then(|k| k.as_str()) == Some("schedule") {
        let tier = match j.get("tier").and_then(|t| t.as_str()) {
            Some("thorough") => Tier::Thorough,
            _ => Tier::Quick,
        };
        let sc = faulty_link_scenarios(tier);
        let idx = (j.get("scenario_index").and_then(|x| x.as_i()).unwrap_or(10) as usize).saturating_sub(10);
        let Some(s) = sc.get(idx) else { return 2 };
        let choices = crate::report::choices_of(j);
        return match explore::replay(s, &choices) {
            Err(e) => {
                eprintln!("MACHINERY ERROR: {}", e.0);
                2
            }
            Ok((log, v)) => {
                println!("replay of '{}' with choices {:?}", s.name, choices);
                for l in log {
                    println!("  {}", l);
                }
                match v {
                    Some(v) => {
                        println!("RESULT: violation {} — {}", v.signature, v.message);
                        1
                    }
                    None => {
                        println!("RESULT: no violation");
                        0
                    }
                }
            }
        };
    }
    let acts: Vec<usize> = j
        .get("actions")
        .and_then(|a| a.as_arr())
        .map(|a| a.iter().filter_map(|x| x.as_i()).map(|x| x as usize).collect())
        .unwrap_or_default();
    let idx = j.get("scenario_index").and_then(|x| x.as_i()).unwrap_or(0);
    let mut w = NWorld::new(if idx == 0 { 2 } else { 3 });
    for ai in acts {
        let al = w.actions();
        let Some(a) = al.get(ai) else {
            eprintln!("MACHINERY ERROR: divergence (action index {})", ai);
            return 2;
        };
        println!("  {:?}", a);
        if let Err(v) = w.step(a) {
            println!("RESULT: violation {} — {}", v.signature, v.message);
            return 1;
        }
    }
    println!("RESULT: no violation");
    0
}
