//! Handshake world (N1, M1): a real NetcodeServer driven by an attacker/honest-identity
//! alphabet of connection requests, responses (every cross-use of issued challenges and owned
//! keys), disconnects, payloads, clock moves and limit changes. Oracles for C05 and C10.

use crate::explore::{h128, Violation, World};
use crate::nc::{self, client_addr, make_token, new_server, server_addr, TokenSpec, PROTOCOL, SR};
use renetcode::verif::Packet;
use renetcode::{ConnectToken, NetcodeServer};
use std::collections::BTreeMap;
use std::net::SocketAddr;
use std::sync::Arc;
use std::time::Duration;

#[derive(Clone)]
pub struct Tok {
    pub name: &'static str,
    pub spec: TokenSpec,
    pub token: ConnectToken,
    /// opens under the server key and protocol id and lists a public address
    pub valid: bool,
    pub request: Vec<u8>,
}

pub fn request_datagram(t: &ConnectToken) -> Vec<u8> {
    let p = Packet::ConnectionRequest {
        version_info: t.version_info,
        protocol_id: t.protocol_id,
        expire_timestamp: t.expire_timestamp,
        xnonce: t.xnonce,
        data: t.private_data,
    };
    let mut buf = [0u8; 1400];
    let n = p.encode(&mut buf, t.protocol_id, None).expect("encode request");
    buf[..n].to_vec()
}

pub struct Fix {
    pub toks: Vec<Tok>,
    pub addrs: Vec<SocketAddr>,
    /// (token index, address index) pairs offered as request actions
    pub req_pairs: Vec<(usize, usize)>,
    /// corrupted copies of token 0's request datagram: (name, bytes)
    pub corrupt: Vec<(&'static str, Vec<u8>)>,
    /// (key of token index, address index) pairs offered for responses
    pub resp_pairs: Vec<(usize, usize)>,
    pub max_challenges: usize,
    pub clock_targets_ms: Vec<u64>,
    /// identities for the C10 alphabet: (token index, address index)
    pub identities: Vec<(usize, usize)>,
    pub c10_actions: bool,
    pub max_options: Vec<usize>,
    pub initial_max: usize,
    pub garbage_response: bool,
    /// which property's oracle clauses are evaluated: 5 or 10
    pub oracle: u8,
    /// offer NetcodeServer::disconnect(id) for these ids even outside the C10 alphabet
    pub extra_disconnects: Vec<u64>,
    /// identities (token index, address index) connected through honest handshakes before the search starts
    pub preconnected: Vec<(usize, usize)>,
}

#[derive(Clone, Debug, PartialEq, Eq, Hash)]
pub enum Act {
    Request(usize, usize),
    RequestCorrupt(usize, usize),
    /// response echoing issued challenge c, sealed with the keys of token k, from address a
    Response(usize, usize, usize),
    ResponseGarbage(usize, usize),
    ClockTo(u64),
    ClientDisconnect(usize),
    ServerDisconnect(u64),
    TimeoutTick,
    Payload(usize),
    SetMax(usize),
}

#[derive(Clone, Debug, PartialEq, Eq, Hash)]
pub struct Chal {
    pub token_sequence: u64,
    pub token_data: Vec<u8>,
    pub for_token: usize,
    pub for_client_id: u64,
}

#[derive(Clone, Debug, PartialEq, Eq, Hash)]
pub struct Sess {
    pub addr: SocketAddr,
    pub user_data_tag: u8,
    pub token: Option<usize>,
}

#[derive(Clone)]
pub struct HsWorld {
    pub fx: Arc<Fix>,
    pub server: NetcodeServer,
    pub now_ms: u64,
    pub chals: Vec<Chal>,
    /// requests the reference model considers acceptable and the server answered with a challenge
    pub accepted: Vec<(usize, usize)>,
    pub token_first_addr: BTreeMap<usize, usize>,
    /// sessions the server reported connected and not yet disconnected: client id -> session
    pub connected: BTreeMap<u64, Sess>,
    pub limit_lowered: bool,
    pub next_seq: u64,
    pub flags: u64,
}

pub fn standard_tokens(public: &[SocketAddr]) -> Vec<Tok> {
    let mk = |name: &'static str, spec: TokenSpec, valid: bool| {
        let token = make_token(&spec);
        let request = request_datagram(&token);
        Tok { name, spec, token, valid, request }
    };
    let mut v = vec![];
    v.push(mk("t1(id1)", TokenSpec::new(1, 11, public.to_vec()), true));
    v.push(mk("t2(id2)", TokenSpec::new(2, 22, public.to_vec()), true));
    v.push(mk("t2'(id2)", TokenSpec::new(2, 23, public.to_vec()), true));
    let mut x = TokenSpec::new(4, 44, public.to_vec());
    x.expire = 3;
    v.push(mk("tx(id4,expires@3s)", x, true));
    let mut fk = TokenSpec::new(5, 55, public.to_vec());
    fk.key = nc::FOREIGN_KEY;
    v.push(mk("t-foreign-key", fk, false));
    let mut fp = TokenSpec::new(6, 66, public.to_vec());
    fp.protocol = PROTOCOL + 1;
    v.push(mk("t-foreign-protocol", fp, false));
    v.push(mk("t-wrong-host", TokenSpec::new(7, 77, vec![server_addr(9)]), false));
    v.push(mk("t3(id3)", TokenSpec::new(3, 33, public.to_vec()), true));
    // sealed for another protocol id / another expiry, public fields rewritten to what the server expects
    {
        let mut sp = TokenSpec::new(8, 88, public.to_vec());
        sp.protocol = PROTOCOL + 1;
        let mut token = make_token(&sp);
        token.protocol_id = PROTOCOL;
        let request = request_datagram(&token);
        v.push(Tok { name: "t-sealed-for-other-protocol-public-field-ours", spec: sp, token, valid: false, request });
        let mut sp = TokenSpec::new(9, 99, public.to_vec());
        sp.expire = 2;
        let mut token = make_token(&sp);
        token.expire_timestamp = 30;
        let request = request_datagram(&token);
        v.push(Tok { name: "t-sealed-with-expiry-2-public-field-30", spec: sp, token, valid: false, request });
    }
    v
}

pub fn corruptions(req: &[u8]) -> Vec<(&'static str, Vec<u8>)> {
    let mut v = vec![];
    for (name, off, xor) in [
        ("version byte", 1usize, 0x01u8),
        ("protocol id byte", 14, 0x01),
        ("expiry +1", 22, 0x01),
        ("expiry high byte", 29, 0x40),
        ("xnonce byte", 30, 0x80),
        ("ciphertext first byte", 54, 0x01),
        ("ciphertext middle byte", 54 + 512, 0x10),
        ("ciphertext last byte", 54 + 1007, 0x80),
        ("mac byte", 54 + 1023, 0x01),
    ] {
        let mut d = req.to_vec();
        d[off] ^= xor;
        v.push((name, d));
    }
    v
}

impl HsWorld {
    pub fn new(fx: Fix) -> Self {
        let server = new_server(fx.initial_max, vec![server_addr(0)], Duration::ZERO);
        let pre = fx.preconnected.clone();
        let mut w = HsWorld {
            fx: Arc::new(fx),
            server,
            now_ms: 0,
            chals: vec![],
            accepted: vec![],
            token_first_addr: BTreeMap::new(),
            connected: BTreeMap::new(),
            limit_lowered: false,
            next_seq: 100,
            flags: 0,
        };
        // start from a non-initial state: these identities complete an honest handshake first
        for (t, ai) in pre {
            let _ = w.step(&Act::Request(t, ai));
            if let Some(c) = w.chals.iter().position(|c| c.for_token == t) {
                let _ = w.step(&Act::Response(c, t, ai));
            }
        }
        w
    }

    fn tag_of_user_data(&self, ud: &[u8; 256]) -> Option<usize> {
        self.fx.toks.iter().position(|t| nc::user_data(t.spec.tag) == *ud)
    }

    /// table invariants of C10, evaluated in every state
    fn check_tables(&self) -> Result<(), Violation> {
        if self.fx.oracle != 10 {
            return Ok(());
        }
        let ids = self.server.clients_id();
        let mut sorted = ids.clone();
        sorted.sort();
        sorted.dedup();
        if sorted.len() != ids.len() {
            return Err(Violation::new("C10/duplicate-client-id-in-table", format!("clients_id() = {:?}", ids)));
        }
        let snap = self.server.verif_snapshot();
        let addrs: Vec<SocketAddr> = snap.slots.iter().flatten().map(|c| c.addr).collect();
        let mut a2 = addrs.clone();
        a2.sort();
        a2.dedup();
        if a2.len() != addrs.len() {
            return Err(Violation::new("C10/duplicate-address-in-table", format!("connected addresses {:?}", addrs)));
        }
        if !self.limit_lowered && ids.len() > self.server.max_clients() {
            return Err(Violation::new("C10/more-clients-than-max_clients", format!("{} connected, limit {}", ids.len(), self.server.max_clients())));
        }
        if self.server.connected_clients() != ids.len() {
            return Err(Violation::new("C10/connected_clients-disagrees", format!("{} vs {:?}", self.server.connected_clients(), ids)));
        }
        {
            let slots = self.server.clients_slot();
            let mut u = slots.clone();
            u.sort();
            u.dedup();
            if u.len() != ids.len() || slots.len() != ids.len() {
                return Err(Violation::new("C10/connected_clients-disagrees", format!("clients_slot() = {:?} for clients_id() = {:?}", slots, ids)));
            }
        }
        // lookups by id refer to the session authenticated for that id
        let mon: Vec<u64> = self.connected.keys().copied().collect();
        if mon != sorted {
            return Err(Violation::new(
                "C10/table-disagrees-with-reported-events",
                format!("clients_id() = {:?} but the connect/disconnect events so far leave {:?} connected", sorted, mon),
            ));
        }
        for (id, s) in &self.connected {
            if self.server.client_addr(*id) != Some(s.addr) {
                return Err(Violation::new("C10/lookup-address-mismatch", format!("client_addr({}) = {:?}, authenticated session is at {}", id, self.server.client_addr(*id), s.addr)));
            }
            let ud = self.server.user_data(*id);
            if ud.map(|u| u[0]) != Some(s.user_data_tag) {
                return Err(Violation::new("C10/lookup-user-data-mismatch", format!("user_data({}) tag {:?}, session reported tag {}", id, ud.map(|u| u[0]), s.user_data_tag)));
            }
        }
        // ... and ids without an authenticated session resolve to nothing (every id a token of this world names, plus a stranger)
        let mut others: Vec<u64> = self.fx.toks.iter().map(|t| t.spec.client_id).collect();
        others.push(0xdead_beef);
        for id in others {
            if self.connected.contains_key(&id) {
                continue;
            }
            let hit = if self.server.client_addr(id).is_some() {
                Some("client_addr")
            } else if self.server.user_data(id).is_some() {
                Some("user_data")
            } else if self.server.is_client_connected(id) {
                Some("is_client_connected")
            } else if self.server.time_since_last_received_packet(id).is_some() {
                Some("time_since_last_received_packet")
            } else {
                None
            };
            if let Some(h) = hit {
                return Err(Violation::new("C10/lookup-finds-a-session-for-an-unconnected-id", format!("{}({}) answers although no session is reported connected for that id (connected: {:?})", h, id, mon)));
            }
        }
        Ok(())
    }

    fn on_result(&mut self, a: &Act, from: Option<usize>, r: &SR, existing_before: &renetcode::verif::ServerSnapshot) -> Result<(), Violation> {
        match r {
            SR::Connected { client_id, addr, user_data, .. } => {
                self.flags |= 1;
                // ---- C05 ----
                if self.fx.oracle == 5 {
                let Act::Response(c, _k, ai) = a else {
                    return Err(Violation::new("C05/connected-without-response", format!("{:?} produced ClientConnected", a)));
                };
                if Some(*addr) != from.map(|i| self.fx.addrs[i]) {
                    return Err(Violation::new("C05/connected-address-differs-from-source", format!("reported {} for a datagram from {:?}", addr, from)));
                }
                let chal = &self.chals[*c];
                let ok_req = self.accepted.iter().any(|(t, ra)| {
                    *ra == *ai && self.fx.toks[*t].spec.client_id == *client_id && nc::user_data(self.fx.toks[*t].spec.tag) == **user_data
                });
                if !ok_req {
                    let who = self.tag_of_user_data(user_data).map(|t| self.fx.toks[t].name).unwrap_or("?");
                    return Err(Violation::new(
                        "C05/connected-without-matching-valid-request",
                        format!(
                            "ClientConnected {{ client_id: {}, addr: {}, user_data of {} }}: no valid, unexpired, host-listed request from that address carried a token with this client id and this user data (accepted requests (token, addr): {:?})",
                            client_id,
                            addr,
                            who,
                            self.accepted.iter().map(|(t, a)| (self.fx.toks[*t].name, *a)).collect::<Vec<_>>()
                        ),
                    ));
                }
                if chal.for_client_id != *client_id {
                    return Err(Violation::new(
                        "C05/connected-with-challenge-of-another-client-id",
                        format!("client {} connected with a response echoing the challenge issued for client id {}", client_id, chal.for_client_id),
                    ));
                }
                }
                // ---- C10 ----
                // lookups by id must refer to the session that was authenticated for that id: the response
                // was sealed with the keys of token k, so id and user data must be those of token k
                if let (10, Act::Response(_, k, _)) = (self.fx.oracle, a) {
                    let tk = &self.fx.toks[*k];
                    if tk.spec.client_id != *client_id || nc::user_data(tk.spec.tag) != **user_data {
                        return Err(Violation::new(
                            "C10/session-data-not-of-the-authenticated-session",
                            format!(
                                "the response was sealed with the keys of token {} (id {}, user data tag {}), the server reports client id {} with user data tag {}",
                                tk.name, tk.spec.client_id, tk.spec.tag, client_id, user_data[0]
                            ),
                        ));
                    }
                }
                if self.fx.oracle == 10 && self.connected.contains_key(client_id) {
                    return Err(Violation::new("C10/connect-reported-for-connected-id", format!("ClientConnected for id {} which is already connected", client_id)));
                }
                if self.fx.oracle == 10 && self.connected.values().any(|s| s.addr == *addr) {
                    return Err(Violation::new("C10/connect-reported-for-connected-address", format!("ClientConnected from {} which already has a session", addr)));
                }
                self.connected.insert(*client_id, Sess { addr: *addr, user_data_tag: user_data[0], token: self.tag_of_user_data(user_data) });
            }
            SR::Disconnected { client_id, addr, .. } => {
                self.flags |= 2;
                match self.connected.remove(client_id) {
                    None => return Err(Violation::new("C10/disconnect-reported-for-unconnected-id", format!("ClientDisconnected for id {} ({:?})", client_id, a))),
                    Some(s) => {
                        if s.addr != *addr {
                            return Err(Violation::new("C10/disconnect-names-wrong-address", format!("id {}: session at {}, event says {}", client_id, s.addr, addr)));
                        }
                    }
                }
            }
            SR::Payload { client_id, .. } => {
                if let Act::Payload(i) = a {
                    let (t, _) = self.fx.identities[*i];
                    if self.fx.toks[t].spec.client_id != *client_id {
                        return Err(Violation::new("C10/payload-attributed-to-wrong-id", format!("payload of identity {} surfaced under id {}", i, client_id)));
                    }
                    self.flags |= 4;
                }
            }
            SR::Send { addr, bytes } => {
                if Some(*addr) != from.map(|i| self.fx.addrs[i]) {
                    return Err(Violation::new("C10/reply-to-other-address", format!("reply sent to {} for a datagram from {:?}", addr, from)));
                }
                // a refused handshake must not disturb existing sessions
                if let Act::Request(t, _) | Act::Response(_, t, _) = a {
                    let mut d = bytes.clone();
                    if let Some((_, Packet::ConnectionDenied)) = nc::open(&mut d, PROTOCOL, &self.fx.toks[*t].token.server_to_client_key) {
                        self.flags |= 8;
                        let after = self.server.verif_snapshot();
                        if after.slots != existing_before.slots {
                            return Err(Violation::new("C10/refused-handshake-disturbed-existing-sessions", format!("{:?} was denied but the connected table changed", a)));
                        }
                    }
                }
            }
            SR::None => {}
        }
        Ok(())
    }
}

impl World for HsWorld {
    type Action = Act;

    fn actions(&self) -> Vec<Act> {
        let fx = &self.fx;
        let mut v = vec![];
        for &(t, a) in &fx.req_pairs {
            v.push(Act::Request(t, a));
        }
        for c in 0..fx.corrupt.len() {
            v.push(Act::RequestCorrupt(c, 0));
        }
        for c in 0..self.chals.len() {
            for &(k, a) in &fx.resp_pairs {
                v.push(Act::Response(c, k, a));
            }
        }
        if fx.garbage_response {
            for &(k, a) in &fx.resp_pairs {
                v.push(Act::ResponseGarbage(k, a));
            }
        }
        for &t in &fx.clock_targets_ms {
            if t > self.now_ms {
                v.push(Act::ClockTo(t));
            }
        }
        for id in &fx.extra_disconnects {
            v.push(Act::ServerDisconnect(*id));
        }
        if fx.c10_actions {
            for i in 0..fx.identities.len() {
                v.push(Act::ClientDisconnect(i));
                v.push(Act::Payload(i));
            }
            for id in [1u64, 2, 3, 40] {
                if id != 40 || fx.toks.iter().any(|t| t.spec.client_id == 40) {
                    v.push(Act::ServerDisconnect(id));
                }
            }
            v.push(Act::TimeoutTick);
            for &m in &fx.max_options {
                if m != self.server.max_clients() {
                    v.push(Act::SetMax(m));
                }
            }
        }
        v
    }

    fn step(&mut self, a: &Act) -> Result<(), Violation> {
        let fx = self.fx.clone();
        let before = self.server.verif_snapshot();
        match a {
            Act::Request(t, ai) => {
                let tok = &fx.toks[*t];
                let r = nc::srv_process(&mut self.server, fx.addrs[*ai], &tok.request)?;
                // reference model of an acceptable request
                let now_s = self.now_ms / 1000;
                let id_conn = self.connected.contains_key(&tok.spec.client_id);
                let addr_conn = self.connected.values().any(|s| s.addr == fx.addrs[*ai]);
                let first_ok = self.token_first_addr.get(t).map(|x| x == ai).unwrap_or(true);
                let acceptable = tok.valid && now_s < tok.spec.expire && !id_conn && !addr_conn && first_ok;
                // a token counts as used from an address once the server has visibly acted on a request carrying it
                // (challenge or denial); a request that got no answer may as well have been lost on the way
                if tok.valid && now_s < tok.spec.expire && !id_conn && !addr_conn && !self.token_first_addr.contains_key(t) && r.reply().is_some() {
                    self.token_first_addr.insert(*t, *ai);
                }
                if let SR::Send { bytes, .. } = &r {
                    let mut d = bytes.clone();
                    if let Some((_, Packet::Challenge { token_sequence, token_data })) = nc::open(&mut d, PROTOCOL, &tok.token.server_to_client_key) {
                        if acceptable && !self.accepted.contains(&(*t, *ai)) {
                            self.accepted.push((*t, *ai));
                        }
                        let dup = self.chals.iter().any(|c| c.for_token == *t);
                        if self.chals.len() < fx.max_challenges && !dup {
                            self.chals.push(Chal { token_sequence, token_data: token_data.to_vec(), for_token: *t, for_client_id: tok.spec.client_id });
                        }
                    }
                }
                self.on_result(a, Some(*ai), &r, &before)?;
            }
            Act::RequestCorrupt(c, ai) => {
                let r = nc::srv_process(&mut self.server, fx.addrs[*ai], &fx.corrupt[*c].1)?;
                self.on_result(a, Some(*ai), &r, &before)?;
            }
            Act::Response(c, k, ai) => {
                let ch = &self.chals[*c];
                let mut td = [0u8; 300];
                td.copy_from_slice(&ch.token_data);
                // fixed sequence per (challenge, key): repeating the action is an exact replay
                let seq = 1000 + (*c as u64) * 16 + *k as u64;
                let d = nc::seal(&Packet::Response { token_sequence: ch.token_sequence, token_data: td }, PROTOCOL, seq, &fx.toks[*k].token.client_to_server_key);
                let r = nc::srv_process(&mut self.server, fx.addrs[*ai], &d)?;
                self.on_result(a, Some(*ai), &r, &before)?;
            }
            Act::ResponseGarbage(k, ai) => {
                let d = nc::seal(&Packet::Response { token_sequence: 1, token_data: [0x77; 300] }, PROTOCOL, 999, &fx.toks[*k].token.client_to_server_key);
                let r = nc::srv_process(&mut self.server, fx.addrs[*ai], &d)?;
                if let SR::Connected { .. } = r {
                    return Err(Violation::new("C05/connected-with-garbage-challenge", format!("{:?}", a)));
                }
                self.on_result(a, Some(*ai), &r, &before)?;
            }
            Act::ClockTo(t) => {
                let dt = t - self.now_ms;
                self.now_ms = *t;
                let s = &mut self.server;
                crate::link::guard("NetcodeServer::update", || s.update(Duration::from_millis(dt)))?;
            }
            Act::ClientDisconnect(i) => {
                let (t, ai) = fx.identities[*i];
                self.next_seq += 1;
                let d = nc::seal(&Packet::Disconnect, PROTOCOL, self.next_seq, &fx.toks[t].token.client_to_server_key);
                let r = nc::srv_process(&mut self.server, fx.addrs[ai], &d)?;
                self.on_result(a, Some(ai), &r, &before)?;
            }
            Act::Payload(i) => {
                let (t, ai) = fx.identities[*i];
                self.next_seq += 1;
                let d = nc::seal(&Packet::Payload(b"hello"), PROTOCOL, self.next_seq, &fx.toks[t].token.client_to_server_key);
                let r = nc::srv_process(&mut self.server, fx.addrs[ai], &d)?;
                self.on_result(a, Some(ai), &r, &before)?;
            }
            Act::ServerDisconnect(id) => {
                let s = &mut self.server;
                let r = crate::link::guard("NetcodeServer::disconnect", || nc::own(s.disconnect(*id)))?;
                self.on_result(a, None, &r, &before)?;
            }
            Act::TimeoutTick => {
                self.now_ms += 6000;
                let s = &mut self.server;
                crate::link::guard("NetcodeServer::update", || s.update(Duration::from_millis(6000)))?;
                for id in self.server.clients_id() {
                    let r = nc::srv_update_client(&mut self.server, id)?;
                    self.on_result(a, None, &r, &before)?;
                }
                self.flags |= 16;
            }
            Act::SetMax(m) => {
                if *m < self.server.max_clients() {
                    self.limit_lowered = true;
                }
                self.server.set_max_clients(*m);
            }
        }
        self.check_tables()
    }

    fn fingerprint(&self) -> u128 {
        let s = self.server.verif_snapshot();
        let slots: Vec<_> = s
            .slots
            .iter()
            .map(|c| c.as_ref().map(|c| (c.client_id, c.addr, c.user_data[0], c.last_packet_received_time, c.receive_key[0], c.replay_window_digest, c.timeout_seconds)))
            .collect();
        let pending: Vec<_> = s.pending.iter().map(|c| (c.client_id, c.addr, c.user_data[0], c.receive_key[0], c.expire_timestamp)).collect();
        h128(&(
            slots,
            pending,
            s.max_clients,
            self.now_ms,
            &self.chals.iter().map(|c| (c.for_token, c.for_client_id)).collect::<Vec<_>>(),
            &self.accepted,
            &self.token_first_addr,
            &self.connected,
            self.limit_lowered,
            self.next_seq,
            s.token_entries_digest,
        ))
    }

    fn flags(&self) -> u64 {
        self.flags
    }
}

pub fn addrs() -> Vec<SocketAddr> {
    vec![client_addr(1), client_addr(2), client_addr(3), client_addr(4)]
}

/// the attacker-driven configuration of C05
pub fn c05_fix() -> Fix {
    let public = vec![server_addr(0)];
    let toks = standard_tokens(&public);
    let corrupt = corruptions(&toks[0].request);
    // requests: every token from address 0 and 1 (the attacker can use any address)
    let mut req_pairs = vec![];
    for t in [0usize, 1, 2, 3, 4, 5, 6, 8, 9] {
        for a in 0..2 {
            req_pairs.push((t, a));
        }
    }
    // responses: keys of every token the attacker owns (the invalid ones too: foreign key, foreign protocol id,
    // wrong host list — if the server ever challenges one of those, the attacker can answer), from both addresses
    let mut resp_pairs = vec![];
    for k in [0usize, 1, 2, 3, 4, 5, 6, 8, 9] {
        for a in 0..2 {
            resp_pairs.push((k, a));
        }
    }
    Fix {
        toks,
        addrs: addrs(),
        req_pairs,
        corrupt,
        resp_pairs,
        max_challenges: 3,
        clock_targets_ms: vec![2000, 3000, 4000],
        identities: vec![],
        c10_actions: false,
        max_options: vec![],
        initial_max: 4,
        garbage_response: true,
        oracle: 5,
        extra_disconnects: vec![],
        preconnected: vec![],
    }
}

/// C05 on a one-slot server that is full at the start (t2 connected from address 1): tokens presented while
/// the server is full, then again from another address once the slot is free
pub fn c05_full_fix() -> Fix {
    let mut f = c05_fix();
    f.initial_max = 1;
    f.req_pairs = vec![(0, 0), (0, 1), (0, 2), (7, 0), (7, 2)];
    f.resp_pairs = vec![(0, 0), (0, 1), (0, 2), (7, 0), (7, 2)];
    f.corrupt = vec![];
    f.garbage_response = false;
    f.clock_targets_ms = vec![];
    f.extra_disconnects = vec![2];
    f.preconnected = vec![(1, 1)];
    f
}

/// C05 with sessions that end (time-out, kick, client disconnect) and start again: a token bound to the address of
/// its first use stays bound after the session it created is over
pub fn c05_lifecycle_fix() -> Fix {
    let mut f = c05_fix();
    let identities = vec![(0usize, 0usize), (0, 1), (1, 1), (1, 0)];
    f.req_pairs = identities.clone();
    f.resp_pairs = identities.clone();
    f.identities = identities;
    f.corrupt = vec![];
    f.garbage_response = false;
    f.clock_targets_ms = vec![];
    f.c10_actions = true;
    f.max_options = vec![];
    f.max_challenges = 4;
    f
}

/// the table-centred configuration of C10
pub fn c10_fix(initial_max: usize) -> Fix {
    let public = vec![server_addr(0)];
    let toks = standard_tokens(&public);
    // identities: (t1 @a0), (t2 @a1), (t2' @a2: a second half-open session for id 2), (t3 @a0: one address, several tokens)
    let identities = vec![(0usize, 0usize), (1, 1), (2, 2), (7, 0)];
    let req_pairs = identities.clone();
    let resp_pairs = identities.clone();
    Fix {
        toks,
        addrs: addrs(),
        req_pairs,
        corrupt: vec![],
        resp_pairs,
        max_challenges: 4,
        clock_targets_ms: vec![],
        identities,
        c10_actions: true,
        max_options: vec![1, 2, 3],
        initial_max,
        garbage_response: false,
        oracle: 10,
        extra_disconnects: vec![],
        preconnected: vec![],
    }
}

/// C10 from a non-initial state: three distinct clients already connected on a 3-slot server
pub fn c10_prebuilt_fix() -> Fix {
    let public = vec![server_addr(0)];
    let mut toks = standard_tokens(&public);
    let mk = |name: &'static str, spec: TokenSpec| {
        let token = make_token(&spec);
        let request = request_datagram(&token);
        Tok { name, spec, token, valid: true, request }
    };
    toks.push(mk("t4(id4)", TokenSpec::new(40, 40, public.to_vec())));
    let t4 = toks.len() - 1;
    // identities: (t1 @a0), (t2 @a1), (t4 @a3) connected at the start; (t3 @a2) free to join
    let identities = vec![(0usize, 0usize), (1, 1), (t4, 3), (7, 2)];
    Fix {
        toks,
        addrs: addrs(),
        req_pairs: identities.clone(),
        corrupt: vec![],
        resp_pairs: identities.clone(),
        max_challenges: 5,
        clock_targets_ms: vec![],
        identities,
        c10_actions: true,
        max_options: vec![1, 2, 3, 4],
        initial_max: 3,
        garbage_response: false,
        oracle: 10,
        extra_disconnects: vec![],
        preconnected: vec![(0, 0), (1, 1), (t4, 3)],
    }
}

pub fn describe(fx: &Fix, a: &Act) -> String {
    match a {
        Act::Request(t, ai) => format!("request with token {} from {}", fx.toks[*t].name, fx.addrs[*ai]),
        Act::RequestCorrupt(c, ai) => format!("request with token t1 corrupted in {} from {}", fx.corrupt[*c].0, fx.addrs[*ai]),
        Act::Response(c, k, ai) => format!("response echoing issued challenge #{} sealed with the keys of {} from {}", c, fx.toks[*k].name, fx.addrs[*ai]),
        Act::ResponseGarbage(k, ai) => format!("response with a garbage challenge sealed with the keys of {} from {}", fx.toks[*k].name, fx.addrs[*ai]),
        other => format!("{:?}", other),
    }
}
