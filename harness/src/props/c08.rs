//! C08 — A reliable message is released by the sender only after the peer really has it;
//! an endpoint never acknowledges a sequence number it did not receive.

use super::c02::fully_handed;
use super::{replay_link, run_link_scenarios, LinkScenario};
use crate::explore::Violation;
use crate::json::J;
use crate::link::{Chan, Drain, Kind, Link, LinkCfg, PktInfo, Probe, Send};
use crate::report::{Report, Tier};
use std::collections::BTreeSet;

pub struct ReleaseProbe {
    /// sequence numbers handed to endpoint e so far
    received: [BTreeSet<u64>; 2],
    releases_seen: u64,
}

impl ReleaseProbe {
    pub fn new() -> Self {
        ReleaseProbe {
            received: [BTreeSet::new(), BTreeSet::new()],
            releases_seen: 0,
        }
    }

    fn check_releases(&mut self, l: &Link, what: &str) -> Result<(), Violation> {
        for e in 0..2 {
            let Some(snap) = l.ends.snapshot(e) else { continue };
            for (ci, ch) in l.cfg.chans[e].iter().enumerate() {
                if ch.kind == Kind::Unreliable {
                    continue;
                }
                let Some(sc) = snap.send_reliable.iter().find(|c| c.channel_id == ch.id) else { continue };
                let id0 = l.cfg.msg_id0.unwrap_or(0);
                let mut unacked_bytes = 0usize;
                for u in &sc.unacked {
                    unacked_bytes += u.len;
                }
                // memory given back must correspond to released messages only
                let avail = l.ends.available_memory(e, ch.id);
                if l.ends.disconnect_reason(e).is_none() && avail != ch.max - unacked_bytes {
                    return Err(Violation::new(
                        "C08/available-memory-disagrees-with-unacked-set",
                        format!(
                            "endpoint {} channel {}: channel_available_memory = {} but max {} - unacknowledged bytes {} = {} ({})",
                            e,
                            ch.id,
                            avail,
                            ch.max,
                            unacked_bytes,
                            ch.max - unacked_bytes,
                            what
                        ),
                    ));
                }
                for (k, s) in l.submitted[e][ci].iter().enumerate() {
                    let id = id0 + k as u64;
                    if sc.unacked.iter().any(|u| u.message_id == id) {
                        continue;
                    }
                    if id >= sc.next_message_id {
                        continue; // the library refused the submission
                    }
                    self.releases_seen += 1;
                    if !fully_handed(l, e, ch.id, id, s.len()) {
                        return Err(Violation::new(
                            "C08/released-before-peer-has-it",
                            format!(
                                "endpoint {} channel {}: message #{} ({} B) left the unacknowledged set at tick {} ({}) although not every packet needed to rebuild it was ever handed to the peer",
                                e, ch.id, k, s.len(), l.tick, what
                            ),
                        ));
                    }
                }
                // per slice: a slice marked acked must have been handed over
                for u in &sc.unacked {
                    if !u.sliced {
                        continue;
                    }
                    for (idx, a) in u.acked.iter().enumerate() {
                        if *a {
                            let handed = l.emitted.iter().any(|p| {
                                p.dir == e
                                    && p.delivered > 0
                                    && matches!(&p.info, PktInfo::ReliableSlice { ch: c, id, idx: x, .. } if *c == ch.id && *id == u.message_id && *x == idx)
                            });
                            if !handed {
                                return Err(Violation::new(
                                    "C08/slice-acked-before-peer-has-it",
                                    format!(
                                        "endpoint {} channel {}: slice {} of message id {} is marked acknowledged at tick {} but was never handed to the peer",
                                        e, ch.id, idx, u.message_id, l.tick
                                    ),
                                ));
                            }
                        }
                    }
                }
            }
        }
        Ok(())
    }
}

impl Probe for ReleaseProbe {
    fn on_deliver(&mut self, l: &Link, dir: usize, pkt: usize) -> Result<(), Violation> {
        if l.emitted[pkt].delivered > 0 {
            self.received[1 - dir].insert(l.emitted[pkt].seq);
        }
        self.check_releases(l, "after processing a packet")
    }
    fn on_flush(&mut self, l: &Link, dir: usize, first: usize) -> Result<(), Violation> {
        for p in &l.emitted[first..] {
            if let PktInfo::Ack { ranges } = &p.info {
                for (s, e) in ranges {
                    let mut x = *s;
                    while x < *e {
                        if !self.received[dir].contains(&x) {
                            return Err(Violation::new(
                                "C08/acknowledged-unreceived-sequence",
                                format!(
                                    "endpoint {} emitted an ack packet (seq {}) covering sequence {} at tick {}, which was never handed to it (received: {:?})",
                                    dir, p.seq, x, l.tick, self.received[dir]
                                ),
                            ));
                        }
                        x += 1;
                        if x - *s > 100_000 {
                            break;
                        }
                    }
                }
            }
        }
        self.check_releases(l, "after get_packets_to_send")
    }
    fn on_update(&mut self, l: &Link, _end: usize) -> Result<(), Violation> {
        self.check_releases(l, "after update")
    }
    fn outcome(&self) -> u64 {
        self.releases_seen
    }
}

pub fn scenarios(tier: Tier) -> Vec<LinkScenario<fn() -> Box<dyn Probe>>> {
    let r = 300u64;
    let scripts: Vec<(&str, Vec<(u8, usize)>, bool)> = vec![
        ("ord 1+1201", vec![(0, 1), (0, 1201)], false),
        ("ord 2401", vec![(0, 2401)], false),
        ("unord 1+2401+1", vec![(1, 1), (1, 2401), (1, 1)], false),
        ("ord 1,1,1-per-tick", vec![(0, 1), (0, 1), (0, 1)], true),
        ("mixed ord 1201 + unord 1 + unrel 1", vec![(0, 1201), (1, 1), (2, 1)], false),
        ("ord 500+500+500 (two packets in one tick)", vec![(0, 500), (0, 500), (0, 500)], false),
    ];
    let timings: Vec<(&str, Vec<u64>)> = vec![("dt=R/3", vec![100]), ("dt=R", vec![300]), ("dt=irregular", vec![100, 150, 300, 450])];
    let mut out: Vec<LinkScenario<fn() -> Box<dyn Probe>>> = vec![];
    for (sname, msgs, per_tick) in &scripts {
        for (tname, dts) in &timings {
            for dir in 0..2usize {
                let quick_keep = matches!(
                    (*sname, *tname, dir),
                    ("ord 1+1201", "dt=R/3", 0)
                        | ("ord 2401", "dt=R", 1)
                        | ("unord 1+2401+1", "dt=R/3", 0)
                        | ("ord 1,1,1-per-tick", "dt=irregular", 1)
                        | ("mixed ord 1201 + unord 1 + unrel 1", "dt=R/3", 0)
                        | ("ord 500+500+500 (two packets in one tick)", "dt=R/3", 1)
                );
                if tier == Tier::Quick && !quick_keep {
                    continue;
                }
                let chans = || {
                    vec![
                        Chan::new(0, Kind::Ordered, 100_000, r),
                        Chan::new(1, Kind::Unordered, 100_000, r),
                        Chan::new(2, Kind::Unreliable, 100_000, 0),
                    ]
                };
                let mut cfg = LinkCfg::base(&format!("{} {} dir{}", sname, tname, dir), chans(), chans());
                cfg.dt_ms = dts.clone();
                cfg.horizon = 5;
                cfg.tail = (r.div_ceil(*dts.iter().min().unwrap()) + 3) as u32;
                cfg.drains = vec![Drain::End];
                cfg.script = msgs
                    .iter()
                    .enumerate()
                    .map(|(i, &(ch, len))| Send {
                        tick: if *per_tick { i as u32 } else { 0 },
                        dir,
                        ch,
                        len,
                    })
                    .collect();
                out.push(LinkScenario {
                    cfg,
                    probe: (|| Box::new(ReleaseProbe::new()) as Box<dyn Probe>) as fn() -> Box<dyn Probe>,
                });
            }
        }
    }
    // tick budget exceeded by a queue of mixed sizes: non-consecutive message ids in one packet
    for dir in 0..2usize {
        if tier == Tier::Quick && dir == 1 {
            continue;
        }
        let chans = || vec![Chan::new(0, Kind::Ordered, 100_000, r), Chan::new(1, Kind::Unordered, 100_000, r), Chan::new(2, Kind::Unreliable, 100_000, 0)];
        let mut cfg = LinkCfg::base(&format!("2000 B per tick, ord 900+1200+100 dir{}", dir), chans(), chans());
        cfg.bytes_per_tick = 2000;
        cfg.dt_ms = vec![100];
        cfg.horizon = 4;
        cfg.tail = 10;
        cfg.drains = vec![Drain::End];
        cfg.script = vec![Send { tick: 0, dir, ch: 0, len: 900 }, Send { tick: 0, dir, ch: 0, len: 1200 }, Send { tick: 0, dir, ch: 0, len: 100 }];
        out.push(LinkScenario { cfg, probe: (|| Box::new(ReleaseProbe::new()) as Box<dyn Probe>) as fn() -> Box<dyn Probe> });
    }
    out
}

/// link-outage scenarios (run with their own deviation bound)
pub fn outage_scenarios(tier: Tier) -> Vec<LinkScenario<fn() -> Box<dyn Probe>>> {
    let r = 300u64;
    let _ = r;
    let mut out: Vec<LinkScenario<fn() -> Box<dyn Probe>>> = vec![];
    // scale class: link outage of 3.25 s / 10 s beginning while sliced messages are partly delivered and partly acknowledged
    for (dir, n) in [(0usize, 13u32), (1, 13), (0, 40)] {
        if tier == Tier::Quick && n == 40 {
            continue;
        }
        let chans = || vec![Chan::new(0, Kind::Ordered, 100_000, r), Chan::new(1, Kind::Unordered, 100_000, r), Chan::new(2, Kind::Unreliable, 100_000, 0)];
        let mut cfg = LinkCfg::base(&format!("ord 3601 + unord 3601, outage of {} ms from tick 2, dir{}", n * 250, dir), chans(), chans());
        cfg.dt_ms = vec![250];
        cfg.horizon = 2;
        cfg.outage = Some((2, 2 + n));
        cfg.tail = n + 8;
        cfg.drains = vec![Drain::End];
        cfg.script = vec![Send { tick: 0, dir, ch: 0, len: 3601 }, Send { tick: 0, dir, ch: 1, len: 3601 }];
        out.push(LinkScenario { cfg, probe: (|| Box::new(ReleaseProbe::new()) as Box<dyn Probe>) as fn() -> Box<dyn Probe> });
    }
    out
}

pub fn run(tier: Tier) -> i32 {
    let mut rep = Report::new("C08", tier);
    rep.rule("M2: every schedule with <= d deviations on data AND ack packets (drop/dup/delay1/delay2/dup-late, batch reversal) over 5 ticks per scenario + tail; oracle after every library call: a message that left the sender's unacknowledged set (hook) / whose bytes are back in channel_available_memory had every packet needed to rebuild it handed to the peer's process_packet; every emitted ack packet only covers sequence numbers handed to that endpoint");
    rep.assume("release is observed through the read-only snapshot hook and cross-checked against the public channel_available_memory");
    let sc = scenarios(tier);
    run_link_scenarios(&mut rep, "m2", &sc, tier.pick(3, 4), tier.pick(120.0, 3000.0));
    if rep.machinery.is_none() {
        super::run_link_scenarios_from(&mut rep, "m2-outage", &outage_scenarios(tier), tier.pick(2, 3), tier.pick(120.0, 3000.0), 3000);
    }
    if rep.machinery.is_none() {
        super::ackworld::run_c08(&mut rep, tier);
    }
    // scale class: a message of more than 2^16 slices (slice indices beyond two bytes); three packets are lost once
    {
        let cases: Vec<(bool, usize)> = tier.pick(vec![(true, 66_000)], vec![(true, 65_537), (true, 66_000), (false, 66_000), (true, 131_100)]);
        let res = crate::explore::par_cases(cases.len(), |i| huge_message_case(cases[i].0, cases[i].1));
        for (i, r) in res.into_iter().enumerate() {
            if let Some(v) = r {
                rep.violation("huge-message", v, J::obj().set("kind", J::s("huge-message")).set("ordered", J::Bool(cases[i].0)).set("slices", J::i(cases[i].1 as u64)));
            }
        }
        rep.add_sweep("huge-message", cases.len() as u64, cases.len() as u64, 1, vec![format!("(ordered, slices) in {:?}: the packets carrying slices 0, 463 and 65535 are lost once; released only when the peer has every slice, delivered intact", cases)]);
    }
    if rep.machinery.is_none() {
        rep.rule("M1 (API soup): every interleaving up to depth D of send / update / flush / deliver / drop / duplicate / receive with <= 3 packets in flight per direction (ordered and unordered channel); release oracle after every call");
        super::soup::run_soup(&mut rep, tier, "soup-ordered", Kind::Ordered, super::soup::O_RELEASE, &["C08/"]);
        super::soup::run_soup(&mut rep, tier, "soup-unordered", Kind::Unordered, super::soup::O_RELEASE, &["C08/"]);
    }
    rep.finish()
}

/// One message of `n` slices; the packets carrying slices 0, 463 and 65535 are lost the first time.
pub fn huge_message_case(ordered: bool, n: usize) -> Option<Violation> {
    use crate::link::{decode, PktInfo};
    use renet::{ChannelConfig, ConnectionConfig, RenetClient, RenetServer, SendType};
    use std::time::Duration;
    let len = n * 1200 - 77;
    let budget = len + 4096;
    let chans = || {
        vec![ChannelConfig {
            channel_id: 0,
            max_memory_usage_bytes: budget,
            send_type: if ordered { SendType::ReliableOrdered { resend_time: Duration::from_millis(300) } } else { SendType::ReliableUnordered { resend_time: Duration::from_millis(300) } },
        }]
    };
    let cfg = || ConnectionConfig { available_bytes_per_tick: 2 * budget as u64, server_channels_config: chans(), client_channels_config: chans() };
    let byte = |i: usize| ((i / 1200) as u32).wrapping_mul(2_654_435_761).to_le_bytes()[1].wrapping_add((i % 1200) as u8);
    let lost_idx = [0usize, 463, 65_535];
    let r = crate::link::guard("huge message", || {
        let mut srv = RenetServer::new(cfg());
        let mut cl = RenetClient::new(cfg());
        srv.add_connection(1);
        cl.set_connected();
        let body: Vec<u8> = (0..len).map(byte).collect();
        srv.send_message(1, 0u8, body);
        let dt = Duration::from_millis(100);
        let mut got: Option<Vec<u8>> = None;
        let mut handed = vec![false; n];
        let mut dropped = vec![false; n];
        for tick in 0..10u32 {
            srv.update(dt);
            cl.update(dt);
            let pk = srv.get_packets_to_send(1).unwrap_or_default();
            for p in pk {
                if let (_, PktInfo::ReliableSlice { idx, .. }, _) = decode(&p) {
                    if lost_idx.contains(&idx) && !dropped[idx] {
                        dropped[idx] = true;
                        continue;
                    }
                    if idx < n {
                        handed[idx] = true;
                    }
                }
                cl.process_packet(&p);
            }
            for p in cl.get_packets_to_send() {
                let _ = srv.process_packet_from(&p, 1);
            }
            if let Some(m) = cl.receive_message(0u8) {
                got = Some(m.to_vec());
            }
            // release only after every slice was handed over
            if srv.channel_available_memory(1, 0u8) == budget && !handed.iter().all(|h| *h) {
                let missing = handed.iter().position(|h| !*h).unwrap();
                return Some(Violation::new(
                    "C08/huge-message/released-before-the-peer-has-every-slice",
                    format!("tick {}: the sender gave the {} byte message's memory back although slice {} (of {}) was never handed to the peer", tick, len, missing, n),
                ));
            }
        }
        if cl.is_disconnected() || !srv.is_connected(1) {
            return Some(Violation::new("C08/huge-message/disconnected", format!("{} slices: client {:?} server {:?}", n, cl.disconnect_reason(), srv.disconnect_reason(1))));
        }
        match got {
            None => Some(Violation::new(
                "C08/huge-message/lost-slices-never-retransmitted",
                format!("{} slices, slices {:?} lost once: after 10 ticks (resend time 300 ms) the message has not arrived; slices handed over: {}, sender memory back: {}", n, lost_idx, handed.iter().filter(|h| **h).count(), srv.channel_available_memory(1, 0u8) == budget),
            )),
            Some(m) => {
                if m.len() != len || m.iter().enumerate().any(|(i, b)| *b != byte(i)) {
                    return Some(Violation::new("C08/huge-message/content", format!("{} slices: obtained {} bytes, not identical to the {} submitted", n, m.len(), len)));
                }
                if srv.channel_available_memory(1, 0u8) != budget {
                    return Some(Violation::new("C08/huge-message/not-released", format!("{} slices delivered and acknowledged, sender memory not back", n)));
                }
                None
            }
        }
    });
    match r {
        Ok(v) => v,
        Err(v) => Some(v),
    }
}

pub fn replay(j: &J) -> i32 {
    if j.get("kind").and_then(|k| k.as_str()) == Some("huge-message") {
        let ordered = matches!(j.get("ordered"), Some(J::Bool(true)));
        let n = j.get("slices").and_then(|x| x.as_i()).unwrap_or(66_000) as usize;
        println!("huge message case: {} slices, ordered {}", n, ordered);
        return match huge_message_case(ordered, n) {
            Some(v) => {
                println!("RESULT: violation {} — {}", v.signature, v.message);
                1
            }
            None => {
                println!("RESULT: no violation");
                0
            }
        };
    }
    let tier = match j.get("tier").and_then(|t| t.as_str()) {
        Some("thorough") => Tier::Thorough,
        _ => Tier::Quick,
    };
    if j.get("kind").and_then(|k| k.as_str()) == Some("trace") {
        let part = j.get("part").and_then(|p| p.as_str()).unwrap_or("");
        if part.starts_with("soup-ordered") {
            return super::soup::replay_soup(j, Kind::Ordered, super::soup::O_RELEASE);
        }
        if part.starts_with("soup-unordered") {
            return super::soup::replay_soup(j, Kind::Unordered, super::soup::O_RELEASE);
        }
        return super::ackworld::replay(j);
    }
    if j.get("scenario_index").and_then(|x| x.as_i()).unwrap_or(0) >= 3000 {
        return super::replay_link_from(&outage_scenarios(tier), j, 3000);
    }
    replay_link(&scenarios(tier), j)
}
