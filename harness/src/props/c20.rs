//! C20 — UDP netcode transport keeps message and handshake layers in lock-step.
//! World T: real NetcodeServerTransport / NetcodeClientTransport / RenetServer / RenetClient over
//! real UDP sockets on 127.0.0.1, every datagram passing through a harness-owned relay socket
//! per client that applies the fault schedule. One thread, fixed step order, harness-owned time.

use crate::explore::{self, Ctx, ExploreCfg, RunOut, Scenario, Violation};
use crate::json::J;
use crate::link::guard;
use crate::report::{self, Report, Tier};
use renet::{ConnectionConfig, DefaultChannel, DisconnectReason, RenetClient, RenetServer, ServerEvent};
use renet_netcode::{ClientAuthentication, ConnectToken, NetcodeClientTransport, NetcodeServerTransport, ServerAuthentication, ServerConfig};
use std::collections::hash_map::DefaultHasher;
use std::collections::BTreeMap;
use std::hash::{Hash, Hasher};
use std::net::{SocketAddr, UdpSocket};
use std::time::Duration;

const PROTOCOL: u64 = 0xC20;
const KEY: [u8; 32] = [0x20; 32];
const DT_MS: u64 = 250;
const TIMEOUT_S: i32 = 2;
const LOCAL_ID: u64 = 77;

#[derive(Clone, Copy, Debug, PartialEq, Eq)]
pub enum End {
    None,
    /// client 0's application calls RenetClient::disconnect
    ClientRenetDisconnect,
    /// client 0's application calls NetcodeClientTransport::disconnect
    ClientTransportDisconnect,
    /// the server application calls RenetServer::disconnect(id of client 0)
    ServerRenetDisconnect,
    /// the server application calls NetcodeServerTransport::disconnect_all
    ServerDisconnectAll,
    /// client 1's process disappears (time-out)
    ClientSilent,
    /// both clients hold tokens for the same client id (two addresses): at most one session may exist
    DuplicateId,
    /// client 1 is configured with a channel the server does not have and sends on it: the server's message
    /// layer disconnects it while processing the datagram (ReceivedInvalidChannelId)
    ClientBadChannel,
    /// the server application calls RenetServer::disconnect(client 0) and, in the same tick, transport.disconnect_all
    ServerKickThenDisconnectAll,
    /// the server application broadcasts a message that exceeds the reliable channel's memory budget: the message layer
    /// disconnects every client (SendChannelError) inside broadcast_message
    ServerBroadcastOverBudget,
    /// the same through broadcast_message_except(client 1): only client 0 is disconnected
    ServerBroadcastExceptOverBudget,
    /// the same while client 0's process has just disappeared (nothing arrives from it any more): the message layer's
    /// decision alone must end the session, at once and not through the time-out
    ServerBroadcastExceptOverBudgetSilentPeer,
}

#[derive(Clone, Copy, Debug, PartialEq, Eq)]
pub enum UFate {
    Ok,
    Drop,
    Dup,
    Delay1,
    Delay2,
    Corrupt,
    /// flip a bit of the prefix byte (announced sequence length)
    CorruptPrefix,
    ReplayOld,
}

#[derive(Clone, Debug)]
pub struct UdpCfg {
    pub name: String,
    pub clients: usize,
    pub end: End,
    pub end_tick: u32,
    pub send_tick: u32,
    pub horizon: u32,
    pub fault_from: u32,
    pub tail: u32,
    pub fates: Vec<UFate>,
    /// a listen-server host: a local client created with RenetServer::new_local_client next to the transport
    pub local_host: bool,
    /// client 0's token lists an address where nobody answers before its relay's address
    pub dead_first_addr: bool,
    /// (tick, ms): that server update is given this duration (a long frame); datagrams kept arriving meanwhile
    pub server_hitch: Option<(u32, u64)>,
    /// (tick, n): a stranger's socket sends n empty datagrams to the server ahead of that tick's client datagrams
    pub empty_flood: Option<(u32, usize)>,
    /// client 0's token lists, before its relay's address, a second server (own challenge key, same host, other
    /// port) whose path holds every client datagram for this many ticks: its answers arrive after the fail-over
    pub decoy_delay: Option<u32>,
    /// ServerAuthentication::Unsecure / ClientAuthentication::Unsecure (the mode of the examples and demos)
    pub unsecure: bool,
}

struct Decoy {
    rs: RenetServer,
    st: NetcodeServerTransport,
    sock: UdpSocket,
    server: SocketAddr,
    client: SocketAddr,
    /// (bytes, due tick) towards the decoy server
    queue: Vec<(Vec<u8>, u32)>,
    forwarded_to_client: u32,
}

struct Relay {
    sock: UdpSocket,
    addr: SocketAddr,
    client: SocketAddr,
    server: SocketAddr,
    /// (bytes, to_server, due tick)
    queue: Vec<(Vec<u8>, bool, u32)>,
    history: [Vec<Vec<u8>>; 2],
    /// tick at which the relay last forwarded an untouched, first-time datagram from the client to the server
    last_authentic_c2s: Option<u32>,
    /// last tick in which the relay did anything but forward (per direction: [s2c, c2s])
    last_tamper: [Option<u32>; 2],
}

struct ClientSide {
    id: u64,
    rc: RenetClient,
    tr: NetcodeClientTransport,
    alive: bool,
    was_connected: bool,
    first_disconnect_tick: Option<u32>,
}

fn sock() -> Result<UdpSocket, Violation> {
    let s = UdpSocket::bind("127.0.0.1:0").map_err(|e| Violation::new("machinery/socket", e.to_string()))?;
    s.set_nonblocking(true).map_err(|e| Violation::new("machinery/socket", e.to_string()))?;
    Ok(s)
}

fn label(dir: u8, client: usize, ch: u8, k: u8, len: usize) -> Vec<u8> {
    let mut v = vec![0xC2, dir, client as u8, ch, k];
    while v.len() < len {
        v.push((v.len() as u8).wrapping_mul(3).wrapping_add(k).wrapping_add(ch));
    }
    v
}

pub struct UdpScenario {
    pub cfg: UdpCfg,
}

struct World<'c> {
    cfg: &'c UdpCfg,
    rs: RenetServer,
    st: NetcodeServerTransport,
    clients: Vec<ClientSide>,
    relays: Vec<Relay>,
    tick: u32,
    /// per client id: application-visible connection state according to server events
    srv_in: BTreeMap<u64, bool>,
    events: Vec<String>,
    /// submitted[(dir, client, ch)] -> payloads ; obtained likewise
    submitted: BTreeMap<(u8, usize, u8), Vec<Vec<u8>>>,
    obtained: BTreeMap<(u8, usize, u8), Vec<Vec<u8>>>,
    end_initiated_tick: Option<u32>,
    faults: u32,
    local: Option<RenetClient>,
    local_got: u32,
    /// bound, never read: the silent address of `dead_first_addr`
    dead: UdpSocket,
    stranger: UdpSocket,
    server_addr: SocketAddr,
    decoy: Option<Decoy>,
}

impl<'c> World<'c> {
    fn new(cfg: &'c UdpCfg) -> Result<Self, Violation> {
        let server_sock = sock()?;
        let server_addr = server_sock.local_addr().unwrap();
        let dead = sock()?;
        let stranger = sock()?;
        let mut relays = vec![];
        let mut client_socks = vec![];
        for _ in 0..cfg.clients {
            let r = sock()?;
            let c = sock()?;
            relays.push(Relay { addr: r.local_addr().unwrap(), client: c.local_addr().unwrap(), server: server_addr, sock: r, queue: vec![], history: [vec![], vec![]], last_authentic_c2s: None, last_tamper: [None, None] });
            client_socks.push(c);
        }
        let decoy = match cfg.decoy_delay {
            None => None,
            Some(_) => {
                let dsock = sock()?;
                let server = dsock.local_addr().unwrap();
                let rsock = sock()?;
                let st = NetcodeServerTransport::new(
                    ServerConfig {
                        current_time: Duration::ZERO,
                        max_clients: 4,
                        protocol_id: PROTOCOL,
                        public_addresses: vec![rsock.local_addr().unwrap()],
                        authentication: ServerAuthentication::Secure { private_key: KEY },
                    },
                    dsock,
                )
                .map_err(|e| Violation::new("machinery/socket", e.to_string()))?;
                Some(Decoy { rs: RenetServer::new(ConnectionConfig::default()), st, sock: rsock, server, client: client_socks[0].local_addr().unwrap(), queue: vec![], forwarded_to_client: 0 })
            }
        };
        let st = NetcodeServerTransport::new(
            ServerConfig {
                current_time: Duration::ZERO,
                max_clients: 4,
                protocol_id: PROTOCOL,
                public_addresses: relays.iter().map(|r| r.addr).collect(),
                authentication: if cfg.unsecure { ServerAuthentication::Unsecure } else { ServerAuthentication::Secure { private_key: KEY } },
            },
            server_sock,
        )
        .map_err(|e| Violation::new("machinery/socket", e.to_string()))?;
        let mut rs = RenetServer::new(ConnectionConfig::default());
        let local = if cfg.local_host {
            let c = rs.new_local_client(LOCAL_ID);
            while rs.get_event().is_some() {}
            Some(c)
        } else {
            None
        };
        let mut clients = vec![];
        for (i, s) in client_socks.into_iter().enumerate() {
            let id = if cfg.end == End::DuplicateId { 500 } else { 500 + i as u64 };
            let mut ud = [0u8; 256];
            ud[0] = i as u8;
            let addrs = if cfg.dead_first_addr && i == 0 {
                vec![dead.local_addr().unwrap(), relays[i].addr]
            } else if let (Some(d), 0) = (&decoy, i) {
                vec![d.sock.local_addr().unwrap(), relays[i].addr]
            } else {
                vec![relays[i].addr]
            };
            let token = ConnectToken::generate(Duration::ZERO, PROTOCOL, 60, id, TIMEOUT_S, addrs, Some(&ud), &KEY)
                .map_err(|e| Violation::new("machinery/token", e.to_string()))?;
            let auth = if cfg.unsecure {
                ClientAuthentication::Unsecure { protocol_id: PROTOCOL, client_id: id, server_addr: relays[i].addr, user_data: Some(ud) }
            } else {
                ClientAuthentication::Secure { connect_token: token }
            };
            let tr = NetcodeClientTransport::new(Duration::ZERO, auth, s)
                .map_err(|e| Violation::new("machinery/transport", e.to_string()))?;
            let mut cc = ConnectionConfig::default();
            if cfg.end == End::ClientBadChannel && i == 1 {
                cc.client_channels_config.push(renet::ChannelConfig {
                    channel_id: 7,
                    max_memory_usage_bytes: 10_000,
                    send_type: renet::SendType::ReliableOrdered { resend_time: Duration::from_millis(300) },
                });
            }
            clients.push(ClientSide { id, rc: RenetClient::new(cc), tr, alive: true, was_connected: false, first_disconnect_tick: None });
        }
        Ok(World {
            cfg,
            rs,
            st,
            clients,
            relays,
            tick: 0,
            srv_in: BTreeMap::new(),
            events: vec![],
            submitted: BTreeMap::new(),
            obtained: BTreeMap::new(),
            end_initiated_tick: None,
            faults: 0,
            local,
            local_got: 0,
            dead,
            stranger,
            server_addr,
            decoy,
        })
    }

    fn pump(&mut self, ctx: &mut Ctx, to_server: bool) -> Result<(), Violation> {
        let tick = self.tick;
        let open = tick >= self.cfg.fault_from && tick < self.cfg.horizon;
        for (ri, r) in self.relays.iter_mut().enumerate() {
            let mut buf = [0u8; 2048];
            loop {
                match r.sock.recv_from(&mut buf) {
                    Ok((n, src)) => {
                        let dir_to_server = src != r.server;
                        if dir_to_server != to_server {
                            // cannot happen with the fixed step order: treat as machinery error
                            return Err(Violation::new("machinery/relay-order", format!("relay {} got a datagram of the wrong direction at tick {}", ri, tick)));
                        }
                        let bytes = buf[..n].to_vec();
                        let fate = if open && self.cfg.fates.len() > 1 { self.cfg.fates[ctx.choose(self.cfg.fates.len())] } else { UFate::Ok };
                        let d = dir_to_server as usize;
                        if fate != UFate::Ok {
                            r.last_tamper[d] = Some(tick + 2);
                            self.faults += 1;
                            ctx.note(|| format!("t{} relay{} {}: {} B datagram fate {:?}", tick, ri, if to_server { "c->s" } else { "s->c" }, n, fate));
                        }
                        if to_server && !matches!(fate, UFate::Drop | UFate::Corrupt | UFate::CorruptPrefix) {
                            let due = match fate {
                                UFate::Delay1 => tick + 1,
                                UFate::Delay2 => tick + 2,
                                _ => tick,
                            };
                            r.last_authentic_c2s = Some(r.last_authentic_c2s.map(|t| t.max(due)).unwrap_or(due));
                        }
                        match fate {
                            UFate::Ok => r.queue.push((bytes.clone(), to_server, tick)),
                            UFate::Drop => {}
                            UFate::Dup => {
                                r.queue.push((bytes.clone(), to_server, tick));
                                r.queue.push((bytes.clone(), to_server, tick));
                            }
                            UFate::Delay1 => r.queue.push((bytes.clone(), to_server, tick + 1)),
                            UFate::Delay2 => r.queue.push((bytes.clone(), to_server, tick + 2)),
                            UFate::Corrupt => {
                                let mut c = bytes.clone();
                                let p = c.len() / 2;
                                c[p] ^= 0x40;
                                r.queue.push((c, to_server, tick));
                            }
                            UFate::CorruptPrefix => {
                                let mut c = bytes.clone();
                                c[0] ^= 0x40;
                                r.queue.push((c, to_server, tick));
                            }
                            UFate::ReplayOld => {
                                r.queue.push((bytes.clone(), to_server, tick));
                                if let Some(old) = r.history[d].first() {
                                    r.queue.push((old.clone(), to_server, tick));
                                }
                            }
                        }
                        r.history[d].push(bytes);
                    }
                    Err(e) if e.kind() == std::io::ErrorKind::WouldBlock => break,
                    Err(e) => return Err(Violation::new("machinery/relay-io", e.to_string())),
                }
            }
            // the on-path party may also replay the link's first client datagram (the connection request) on its own
            if to_server && open && self.cfg.fates.contains(&UFate::ReplayOld) && !r.history[1].is_empty() && ctx.choose(2) == 1 {
                let old = r.history[1][0].clone();
                ctx.note(|| format!("t{} relay{}: on-path replay of the link's first client datagram ({} B)", tick, ri, old.len()));
                r.queue.push((old, true, tick));
                r.last_tamper[1] = Some(tick);
                self.faults += 1;
            }
            let mut rest = vec![];
            for (bytes, ts, due) in r.queue.drain(..) {
                if ts == to_server && due <= tick {
                    let dst = if ts { r.server } else { r.client };
                    r.sock.send_to(&bytes, dst).map_err(|e| Violation::new("machinery/relay-io", e.to_string()))?;
                    ctx.transitions += 1;
                } else {
                    rest.push((bytes, ts, due));
                }
            }
            r.queue = rest;
        }
        Ok(())
    }

    /// the slow path to the second server: client datagrams are held `decoy_delay` ticks, answers pass at once
    fn pump_decoy(&mut self, ctx: &mut Ctx) -> Result<(), Violation> {
        let tick = self.tick;
        let Some(delay) = self.cfg.decoy_delay else { return Ok(()) };
        let Some(d) = self.decoy.as_mut() else { return Ok(()) };
        let mut buf = [0u8; 2048];
        loop {
            match d.sock.recv_from(&mut buf) {
                Ok((n, src)) => {
                    if src == d.server {
                        d.sock.send_to(&buf[..n], d.client).map_err(|e| Violation::new("machinery/relay-io", e.to_string()))?;
                        d.forwarded_to_client += 1;
                        ctx.note(|| format!("t{} slow path: {} B answer of the second server reaches client 0", tick, n));
                    } else {
                        d.queue.push((buf[..n].to_vec(), tick + delay));
                    }
                    ctx.transitions += 1;
                }
                Err(e) if e.kind() == std::io::ErrorKind::WouldBlock => break,
                Err(e) => return Err(Violation::new("machinery/relay-io", e.to_string())),
            }
        }
        let mut rest = vec![];
        for (bytes, due) in d.queue.drain(..) {
            if due <= tick {
                d.sock.send_to(&bytes, d.server).map_err(|e| Violation::new("machinery/relay-io", e.to_string()))?;
            } else {
                rest.push((bytes, due));
            }
        }
        d.queue = rest;
        Ok(())
    }

    fn decoy_phase(&mut self) -> Result<(), Violation> {
        let Some(d) = self.decoy.as_mut() else { return Ok(()) };
        let dt = Duration::from_millis(DT_MS);
        let (rs, st) = (&mut d.rs, &mut d.st);
        guard("second server update", || {
            rs.update(dt);
            let _ = st.update(dt, rs);
            while rs.get_event().is_some() {}
            st.send_packets(rs);
        })
    }

    fn obtain(&mut self, dir: u8, client: usize, ch: u8, m: Vec<u8>) -> Result<(), Violation> {
        let key = (dir, client, ch);
        let sub = self.submitted.get(&key).cloned().unwrap_or_default();
        if !sub.iter().any(|s| *s == m) {
            return Err(Violation::new(
                "C20/message-not-submitted-on-this-channel-and-connection",
                format!("tick {}: {} obtained {} bytes on channel {} of client {} that were not submitted there", self.tick, if dir == 0 { "server" } else { "client" }, m.len(), ch, client),
            ));
        }
        let got = self.obtained.entry(key).or_default();
        if got.iter().any(|g| *g == m) {
            return Err(Violation::new("C20/message-obtained-twice", format!("tick {}: channel {} of client {} direction {}", self.tick, ch, client, dir)));
        }
        got.push(m);
        // ordered channel: prefix of what was submitted
        if ch == u8::from(DefaultChannel::ReliableOrdered) {
            let got = &self.obtained[&key];
            if got[..] != sub[..got.len()] {
                return Err(Violation::new("C20/ordered-channel-out-of-order", format!("tick {}: client {} direction {}", self.tick, client, dir)));
            }
        }
        Ok(())
    }

    fn client_phase(&mut self, ctx: &mut Ctx) -> Result<(), Violation> {
        let tick = self.tick;
        let dt = Duration::from_millis(DT_MS);
        for i in 0..self.clients.len() {
            if !self.clients[i].alive {
                continue;
            }
            if self.cfg.end == End::ServerBroadcastExceptOverBudgetSilentPeer && i == 0 && tick >= self.cfg.end_tick {
                self.clients[i].alive = false;
                continue;
            }
            if self.cfg.end == End::ClientSilent && i == 1 && tick >= self.cfg.end_tick {
                self.clients[i].alive = false;
                if self.end_initiated_tick.is_none() {
                    self.end_initiated_tick = Some(tick);
                }
                continue;
            }
            let c = &mut self.clients[i];
            guard("client update", || {
                c.rc.update(dt);
                let _ = c.tr.update(dt, &mut c.rc);
            })?;
            ctx.transitions += 1;
            // lock-step on the client side
            let nc_reason = c.tr.disconnect_reason();
            if c.rc.is_connected() {
                c.was_connected = true;
            }
            if c.rc.is_disconnected() && c.first_disconnect_tick.is_none() {
                c.first_disconnect_tick = Some(tick);
                let r = c.rc.disconnect_reason();
                ctx.note(|| format!("t{} client{}: renet disconnected ({:?}), netcode reason {:?}", tick, i, r, nc_reason));
            }
            // application: receive
            let mut got: Vec<(u8, Vec<u8>)> = vec![];
            for ch in 0..3u8 {
                while let Some(m) = c.rc.receive_message(ch) {
                    got.push((ch, m.to_vec()));
                }
            }
            for (ch, m) in got {
                self.obtain(1, i, ch, m)?;
            }
            let c = &mut self.clients[i];
            // application: scripted sends and disconnects
            if tick == self.cfg.send_tick && c.rc.is_connected() && self.cfg.end != End::DuplicateId {
                for ch in 0..3u8 {
                    for (k, len) in [(0u8, 20usize), (1, 2500)] {
                        let m = label(0, i, ch, k, len);
                        self.submitted.entry((0, i, ch)).or_default().push(m.clone());
                        c.rc.send_message(ch, m);
                    }
                }
            }
            if i == 1 && tick == self.cfg.end_tick && self.cfg.end == End::ClientBadChannel && c.rc.is_connected() {
                c.rc.send_message(7u8, vec![1u8, 2, 3]);
                self.end_initiated_tick = Some(tick);
            }
            if i == 0 && tick == self.cfg.end_tick {
                match self.cfg.end {
                    End::ClientRenetDisconnect => {
                        c.rc.disconnect();
                        self.end_initiated_tick = Some(tick);
                    }
                    End::ClientTransportDisconnect => {
                        c.tr.disconnect();
                        self.end_initiated_tick = Some(tick);
                    }
                    _ => {}
                }
            }
            guard("client send_packets", || {
                let _ = c.tr.send_packets(&mut c.rc);
            })?;
        }
        Ok(())
    }

    fn server_phase(&mut self, ctx: &mut Ctx) -> Result<(), Violation> {
        let tick = self.tick;
        let dt = match self.cfg.server_hitch {
            Some((t, ms)) if t == tick => Duration::from_millis(ms),
            _ => Duration::from_millis(DT_MS),
        };
        let (rs, st) = (&mut self.rs, &mut self.st);
        guard("server update", || {
            rs.update(dt);
            let _ = st.update(dt, rs);
        })?;
        ctx.transitions += 1;
        // events: exactly-once, alternating, right ids
        while let Some(ev) = self.rs.get_event() {
            match ev {
                ServerEvent::ClientConnected { client_id } => {
                    ctx.note(|| format!("t{} server: ClientConnected {}", tick, client_id));
                    if !self.clients.iter().any(|c| c.id == client_id) {
                        return Err(Violation::new("C20/connect-event-for-unknown-id", format!("id {}", client_id)));
                    }
                    if self.srv_in.get(&client_id).copied().unwrap_or(false) {
                        return Err(Violation::new("C20/two-connect-events-without-disconnect", format!("tick {} id {}", tick, client_id)));
                    }
                    self.srv_in.insert(client_id, true);
                    self.events.push(format!("t{} +{}", tick, client_id));
                }
                ServerEvent::ClientDisconnected { client_id, reason } => {
                    ctx.note(|| format!("t{} server: ClientDisconnected {} ({:?})", tick, client_id, reason));
                    if !self.srv_in.get(&client_id).copied().unwrap_or(false) {
                        return Err(Violation::new("C20/disconnect-event-without-connect", format!("tick {} id {}", tick, client_id)));
                    }
                    self.srv_in.insert(client_id, false);
                    self.events.push(format!("t{} -{} {:?}", tick, client_id, reason));
                }
            }
        }
        // after an update the transport has carried out every disconnect the message layer decided
        let lingering: Vec<u64> = self.rs.disconnections_id().into_iter().filter(|id| *id != LOCAL_ID).collect();
        if !lingering.is_empty() {
            return Err(Violation::new(
                "C20/message-layer-disconnect-not-carried-out-by-update",
                format!("tick {}: after transport.update the message layer still holds disconnected connections {:?} (handshake layer sessions: {:?})", tick, lingering, self.clients.iter().map(|c| c.id).filter(|id| self.st.client_addr(*id).is_some()).collect::<Vec<_>>()),
            ));
        }
        // a disconnect initiated by a client reaches the server within a tick when the relay does not interfere
        if let Some(t0) = self.end_initiated_tick {
            let who = match self.cfg.end {
                End::ClientRenetDisconnect | End::ClientTransportDisconnect => Some(0usize),
                End::ClientBadChannel => Some(1usize),
                _ => None,
            };
            if let Some(i) = who {
                let clean_path = self.relays[i].last_tamper[1].map(|t| t + 1 < t0).unwrap_or(true);
                if clean_path && tick >= t0 + 2 && self.st.client_addr(self.clients[i].id).is_some() {
                    return Err(Violation::new(
                        format!("C20/disconnect-not-propagated-to-server/{:?}", self.cfg.end),
                        format!("tick {}: {:?} happened at tick {}, the relay did not touch that client's datagrams, yet the server still holds the session", tick, self.cfg.end, t0),
                    ));
                }
            }
        }
        // lock-step: message layer == handshake layer
        let mut renet_ids: Vec<u64> = self.rs.clients_id();
        renet_ids.extend(self.rs.disconnections_id());
        renet_ids.retain(|id| *id != LOCAL_ID);
        renet_ids.sort();
        let mut netcode_ids: Vec<u64> = self.clients.iter().map(|c| c.id).filter(|id| self.st.client_addr(*id).is_some()).collect();
        netcode_ids.sort();
        netcode_ids.dedup();
        if renet_ids != netcode_ids {
            return Err(Violation::new(
                "C20/layers-out-of-step",
                format!("tick {}: message layer holds connections {:?}, handshake layer holds {:?}", tick, renet_ids, netcode_ids),
            ));
        }
        let app_ids: Vec<u64> = self.srv_in.iter().filter(|(_, v)| **v).map(|(k, _)| *k).collect();
        if app_ids != netcode_ids {
            return Err(Violation::new(
                "C20/events-out-of-step-with-connections",
                format!("tick {}: connect/disconnect events leave {:?} connected, transports hold {:?}", tick, app_ids, netcode_ids),
            ));
        }
        if self.st.connected_clients() != netcode_ids.len() {
            return Err(Violation::new("C20/connected_clients-disagrees", format!("{} vs {:?}", self.st.connected_clients(), netcode_ids)));
        }
        // the transport's own lookups name the session that was authenticated for the id, and nothing for ids without one
        if self.cfg.end != End::DuplicateId {
            for (i, c) in self.clients.iter().enumerate() {
                let held = netcode_ids.contains(&c.id);
                let ud = self.st.user_data(c.id);
                let since = self.st.time_since_last_received_packet(c.id);
                if held {
                    if ud.map(|u| u[0]) != Some(i as u8) {
                        return Err(Violation::new(
                            "C20/transport-lookup-names-another-session",
                            format!("tick {}: transport.user_data({}) starts with {:?}, the token of that client sealed {}", tick, c.id, ud.map(|u| u[0]), i),
                        ));
                    }
                    match since {
                        Some(d) if d <= Duration::from_millis(TIMEOUT_S as u64 * 1000 + 2250 + DT_MS) => {}
                        other => {
                            return Err(Violation::new(
                                "C20/transport-lookup-names-another-session",
                                format!("tick {}: transport.time_since_last_received_packet({}) = {:?} for a live session (time-out {} s)", tick, c.id, other, TIMEOUT_S),
                            ));
                        }
                    }
                } else if ud.is_some() || since.is_some() {
                    return Err(Violation::new(
                        "C20/transport-lookup-names-another-session",
                        format!("tick {}: the transport answers user_data / time_since_last_received_packet for id {} which has no session", tick, c.id),
                    ));
                }
            }
        }
        // a session without authentic client traffic for longer than the time-out must be gone
        let timeout_ticks = (TIMEOUT_S as u64 * 1000 / DT_MS) as u32;
        for (i, c) in self.clients.iter().enumerate() {
            if self.cfg.end == End::DuplicateId {
                break; // two links share one id: the per-link bookkeeping does not identify the session's owner
            }
            if self.st.client_addr(c.id).is_some() {
                if let Some(last) = self.relays[i].last_authentic_c2s {
                    if tick > last + timeout_ticks + 1 {
                        return Err(Violation::new(
                            "C20/session-outlives-timeout-without-authentic-traffic",
                            format!(
                                "tick {}: the server still holds client {}'s session although the last untouched, first-time datagram from that client was forwarded at tick {} (time-out {} ticks): replayed or corrupted datagrams keep it alive",
                                tick, i, last, timeout_ticks
                            ),
                        ));
                    }
                }
            }
        }
        // application: receive
        for i in 0..self.clients.len() {
            let id = self.clients[i].id;
            let mut got: Vec<(u8, Vec<u8>)> = vec![];
            for ch in 0..3u8 {
                while let Some(m) = self.rs.receive_message(id, ch) {
                    got.push((ch, m.to_vec()));
                }
            }
            for (ch, m) in got {
                self.obtain(0, i, ch, m)?;
            }
        }
        // application: scripted sends and disconnects
        if tick == self.cfg.send_tick && self.cfg.end != End::DuplicateId {
            for i in 0..self.clients.len() {
                let id = self.clients[i].id;
                if self.rs.is_connected(id) {
                    for ch in 0..3u8 {
                        for (k, len) in [(0u8, 30usize), (1, 2600)] {
                            let m = label(1, i, ch, k, len);
                            self.submitted.entry((1, i, ch)).or_default().push(m.clone());
                            self.rs.send_message(id, ch, m);
                        }
                    }
                }
            }
        }
        if tick == self.cfg.end_tick {
            match self.cfg.end {
                End::ServerRenetDisconnect => {
                    let id = self.clients[0].id;
                    self.rs.disconnect(id);
                    self.end_initiated_tick = Some(tick);
                }
                End::ServerDisconnectAll => {
                    let (rs, st) = (&mut self.rs, &mut self.st);
                    guard("disconnect_all", || st.disconnect_all(rs))?;
                    self.end_initiated_tick = Some(tick);
                    if self.st.connected_clients() != 0 {
                        return Err(Violation::new(
                            "C20/disconnect_all-leaves-handshake-layer-sessions",
                            format!("tick {}: transport.disconnect_all returned but {} netcode session(s) are still alive", tick, self.st.connected_clients()),
                        ));
                    }
                }
                End::ServerBroadcastOverBudget | End::ServerBroadcastExceptOverBudget | End::ServerBroadcastExceptOverBudgetSilentPeer => {
                    // one shared buffer for all sessions of the process (cloning Bytes is a reference count)
                    static BIG: std::sync::OnceLock<bytes::Bytes> = std::sync::OnceLock::new();
                    let big = BIG.get_or_init(|| bytes::Bytes::from(vec![0x5Au8; 5 * 1024 * 1024 + 1])).clone();
                    let rs = &mut self.rs;
                    let except = self.clients[1].id;
                    let all = self.cfg.end == End::ServerBroadcastOverBudget;
                    guard("broadcast over budget", || {
                        if all {
                            rs.broadcast_message(DefaultChannel::ReliableOrdered, big)
                        } else {
                            rs.broadcast_message_except(except, DefaultChannel::ReliableOrdered, big)
                        }
                    })?;
                    self.end_initiated_tick = Some(tick);
                }
                End::ServerKickThenDisconnectAll => {
                    let id = self.clients[0].id;
                    self.rs.disconnect(id);
                    let (rs, st) = (&mut self.rs, &mut self.st);
                    guard("disconnect_all", || st.disconnect_all(rs))?;
                    self.end_initiated_tick = Some(tick);
                    if self.st.connected_clients() != 0 {
                        return Err(Violation::new(
                            "C20/disconnect_all-leaves-handshake-layer-sessions",
                            format!("tick {}: transport.disconnect_all returned but {} netcode session(s) are still alive", tick, self.st.connected_clients()),
                        ));
                    }
                }
                _ => {}
            }
        }
        let (rs, st) = (&mut self.rs, &mut self.st);
        guard("server send_packets", || st.send_packets(rs))?;
        // the listen-server host: a local client exchanging a message with the server every tick
        if let Some(lc) = self.local.as_mut() {
            let rs = &mut self.rs;
            let mut got = 0u32;
            guard("local client", || {
                lc.send_message(DefaultChannel::ReliableOrdered, vec![0x10u8; 8]);
                rs.send_message(LOCAL_ID, DefaultChannel::ReliableOrdered, vec![0x11u8; 8]);
                let _ = rs.process_local_client(LOCAL_ID, lc);
                while rs.receive_message(LOCAL_ID, DefaultChannel::ReliableOrdered).is_some() {
                    got += 1;
                }
                while lc.receive_message(DefaultChannel::ReliableOrdered).is_some() {
                    got += 1;
                }
            })?;
            self.local_got += got;
        }
        Ok(())
    }

    fn check_end(&self) -> Result<(), Violation> {
        let cfg = self.cfg;
        if cfg.end == End::DuplicateId {
            // only the lock-step oracles apply: which of the two handshakes wins is not specified
            return Ok(());
        }
        let affected: Vec<usize> = match cfg.end {
            End::None => vec![],
            End::ClientRenetDisconnect | End::ClientTransportDisconnect | End::ServerRenetDisconnect | End::ServerBroadcastExceptOverBudget | End::ServerBroadcastExceptOverBudgetSilentPeer => vec![0],
            End::ServerDisconnectAll | End::ServerKickThenDisconnectAll | End::ServerBroadcastOverBudget => (0..self.clients.len()).collect(),
            End::ClientSilent | End::ClientBadChannel => vec![1],
            End::DuplicateId => vec![],
        };
        for (i, c) in self.clients.iter().enumerate() {
            let server_has = self.st.client_addr(c.id).is_some() || self.rs.is_connected(c.id);
            if affected.contains(&i) {
                // a disconnect decided by either layer or either side ends the session on both sides
                if server_has {
                    return Err(Violation::new(
                        format!("C20/session-survives-on-server/{:?}", cfg.end),
                        format!("client {}: {:?} at tick {} but the server still holds the session at the end", i, cfg.end, cfg.end_tick),
                    ));
                }
                if c.alive && !c.rc.is_disconnected() {
                    return Err(Violation::new(
                        format!("C20/session-survives-on-client/{:?}", cfg.end),
                        format!("client {}: {:?} at tick {} but the client's message layer is still {} at the end", i, cfg.end, cfg.end_tick, if c.rc.is_connected() { "connected" } else { "connecting" }),
                    ));
                }
                if c.alive && c.tr.disconnect_reason().is_none() {
                    return Err(Violation::new(format!("C20/netcode-client-not-disconnected/{:?}", cfg.end), format!("client {}", i)));
                }
            } else {
                // interference never disconnects an otherwise healthy session
                if !(c.rc.is_connected() && self.rs.is_connected(c.id)) {
                    return Err(Violation::new(
                        "C20/healthy-session-disconnected",
                        format!(
                            "client {} was not part of any disconnect; at the end client layer: connected={} reason {:?} / netcode {:?}; server: connected={} ",
                            i,
                            c.rc.is_connected(),
                            c.rc.disconnect_reason(),
                            c.tr.disconnect_reason(),
                            self.rs.is_connected(c.id)
                        ),
                    ));
                }
                // channel guarantees end to end: reliable messages all arrived
                for dir in 0..2u8 {
                    for ch in [u8::from(DefaultChannel::ReliableOrdered), u8::from(DefaultChannel::ReliableUnordered)] {
                        let sub = self.submitted.get(&(dir, i, ch)).map(|v| v.len()).unwrap_or(0);
                        let got = self.obtained.get(&(dir, i, ch)).map(|v| v.len()).unwrap_or(0);
                        if sub != got {
                            return Err(Violation::new(
                                "C20/reliable-message-lost-end-to-end",
                                format!("client {} direction {} channel {}: {} of {} reliable messages obtained after the fault-free tail", i, dir, ch, got, sub),
                            ));
                        }
                    }
                }
            }
            // client side lock-step
            if c.alive {
                let nc = c.tr.disconnect_reason();
                if nc.is_some() && !c.rc.is_disconnected() {
                    return Err(Violation::new("C20/client-layers-out-of-step", format!("client {}: netcode disconnected ({:?}) but message layer is not", i, nc)));
                }
                if c.rc.is_connected() && nc.is_some() {
                    return Err(Violation::new("C20/client-layers-out-of-step", format!("client {}: message layer connected, netcode {:?}", i, nc)));
                }
            }
        }
        Ok(())
    }
}

impl Scenario for UdpScenario {
    fn name(&self) -> String {
        self.cfg.name.clone()
    }

    fn run(&self, ctx: &mut Ctx) -> RunOut {
        let mut w = match World::new(&self.cfg) {
            Ok(w) => w,
            Err(v) => {
                ctx.divergence = Some(v.message.clone());
                return RunOut { violation: Some(v), outcome: 0 };
            }
        };
        let r = (|| -> Result<(), Violation> {
            for tick in 0..self.cfg.horizon + self.cfg.tail {
                w.tick = tick;
                w.client_phase(ctx)?;
                if let Some((t, n)) = self.cfg.empty_flood {
                    if t == tick {
                        for _ in 0..n {
                            w.stranger.send_to(&[], w.server_addr).map_err(|e| Violation::new("machinery/relay-io", e.to_string()))?;
                        }
                        let _ = &w.dead;
                    }
                }
                w.pump(ctx, true)?;
                w.pump_decoy(ctx)?;
                w.server_phase(ctx)?;
                w.decoy_phase()?;
                // the second server's late answers reach the client ahead of this tick's answers of the first
                w.pump_decoy(ctx)?;
                w.pump(ctx, false)?;
                let mut h = DefaultHasher::new();
                let mut evs = w.events.clone();
                evs.sort();
                (tick, &evs, w.obtained.values().map(|v| v.len()).collect::<Vec<_>>()).hash(&mut h);
                for c in &w.clients {
                    (c.rc.is_connected(), c.rc.is_disconnected(), format!("{:?}", c.tr.disconnect_reason())).hash(&mut h);
                }
                ctx.state(h.finish());
            }
            w.check_end()
        })();
        let mut h = DefaultHasher::new();
        let mut evs = w.events.clone();
        evs.sort();
        evs.hash(&mut h);
        for (k, v) in &w.obtained {
            (k, v.len()).hash(&mut h);
        }
        for c in &w.clients {
            (c.first_disconnect_tick, format!("{:?}", c.rc.disconnect_reason()), format!("{:?}", c.tr.disconnect_reason())).hash(&mut h);
        }
        if w.events.iter().any(|e| e.contains('-')) {
            ctx.flags |= 1;
        }
        if w.faults > 0 {
            ctx.flags |= 2;
        }
        if w.obtained.values().any(|v| v.iter().any(|m| m.len() > 1200)) {
            ctx.flags |= 4;
        }
        let violation = match r {
            Err(v) if v.signature.starts_with("machinery/") => {
                ctx.divergence = Some(format!("{}: {}", v.signature, v.message));
                None
            }
            Err(v) => Some(v),
            Ok(()) => None,
        };
        RunOut { violation, outcome: h.finish() }
    }
}

pub fn scenarios(tier: Tier) -> Vec<UdpScenario> {
    let mut v = vec![];
    let all = vec![UFate::Ok, UFate::Drop, UFate::Dup, UFate::Delay1, UFate::Delay2, UFate::Corrupt, UFate::CorruptPrefix, UFate::ReplayOld];
    for (name, end) in [
        ("no disconnect", End::None),
        ("client 0 RenetClient::disconnect", End::ClientRenetDisconnect),
        ("client 0 transport.disconnect", End::ClientTransportDisconnect),
        ("RenetServer::disconnect(client 0)", End::ServerRenetDisconnect),
        ("transport.disconnect_all", End::ServerDisconnectAll),
        ("client 1 goes silent", End::ClientSilent),
        ("both clients present tokens for the same client id", End::DuplicateId),
        ("client 1 sends on a channel the server lacks", End::ClientBadChannel),
        ("RenetServer::disconnect(client 0) then transport.disconnect_all in one tick", End::ServerKickThenDisconnectAll),
        ("broadcast_message over the channel budget", End::ServerBroadcastOverBudget),
        ("broadcast_message_except(client 1) over the channel budget", End::ServerBroadcastExceptOverBudget),
        ("client 0 vanishes and broadcast_message_except(client 1) goes over the channel budget", End::ServerBroadcastExceptOverBudgetSilentPeer),
    ] {
        v.push(UdpScenario {
            cfg: UdpCfg {
                name: format!("2 clients, messages at tick 4, {} at tick 7", name),
                clients: 2,
                end,
                end_tick: 7,
                send_tick: 4,
                horizon: if end == End::ClientSilent { 16 } else { tier.pick(9, 10) },
                fault_from: 0,
                // time-out 2 s = 8 ticks, plus resend and teardown
                tail: 14,
                fates: all.clone(),
                local_host: !matches!(end, End::ServerDisconnectAll | End::ServerKickThenDisconnectAll | End::ServerBroadcastOverBudget | End::ServerBroadcastExceptOverBudget | End::ServerBroadcastExceptOverBudgetSilentPeer),
                dead_first_addr: false,
                server_hitch: None,
                empty_flood: None,
                decoy_delay: None,
                unsecure: false,
            },
        });
    }
    // application disconnects while the handshake is still in progress (ticks 1..3)
    for t in 1..=3u32 {
        for (name, end) in [("RenetClient::disconnect", End::ClientRenetDisconnect), ("transport.disconnect", End::ClientTransportDisconnect)] {
            v.push(UdpScenario {
                cfg: UdpCfg {
                    name: format!("2 clients, client 0 {} at tick {} (handshake in progress)", name, t),
                    clients: 2,
                    end,
                    end_tick: t,
                    send_tick: 5,
                    horizon: 6,
                    fault_from: 0,
                    tail: 14,
                    fates: all.clone(),
                    local_host: false,
                    dead_first_addr: false,
                    server_hitch: None,
                    empty_flood: None,
                decoy_delay: None,
                unsecure: false,
                },
            });
        }
    }
    // scale classes: things that take a whole time-out period or many datagrams to show
    let base = |name: &str| UdpCfg {
        name: name.to_string(),
        clients: 2,
        end: End::None,
        end_tick: 99,
        send_tick: 4,
        horizon: 8,
        fault_from: 0,
        tail: 14,
        fates: all.clone(),
        local_host: false,
        dead_first_addr: false,
        server_hitch: None,
        empty_flood: None,
        decoy_delay: None,
        unsecure: false,
    };
    {
        // time-out 2 s = 8 ticks of silence from the first address, then the relay's address answers
        let mut c = base("2 clients, client 0's token lists a silent address first (fail-over after 2 s), messages at tick 15");
        c.dead_first_addr = true;
        c.send_tick = 15;
        c.fault_from = 10;
        c.horizon = 17;
        v.push(UdpScenario { cfg: c });
    }
    {
        let mut c = base("2 clients, unsecure authentication on both sides, messages at tick 4");
        c.unsecure = true;
        v.push(UdpScenario { cfg: c });
    }
    for delay in [8u32, 9, 11] {
        // the client gives up on the first address at tick 8 (2 s); whatever that server answers afterwards is stale
        let mut c = base(&format!("2 clients, client 0's token lists a second server on the same host first whose path is {} ticks slow, messages at tick 15", delay));
        c.decoy_delay = Some(delay);
        c.send_tick = 15;
        c.fault_from = 12;
        c.horizon = 17;
        c.tail = 16;
        v.push(UdpScenario { cfg: c });
    }
    {
        let mut c = base("2 clients, messages at tick 4, one server update of 2250 ms (longer than the time-out) at tick 12 while client datagrams kept arriving");
        c.server_hitch = Some((12, 2250));
        v.push(UdpScenario { cfg: c });
    }
    {
        let mut c = base("2 clients, messages at tick 4, a stranger sends 12 empty datagrams to the server at tick 6");
        c.empty_flood = Some((6, 12));
        c.tail = 20;
        v.push(UdpScenario { cfg: c });
    }
    v
}

const FLAGS: [&str; 3] = ["runs_with_disconnect_event", "runs_with_relay_fault", "runs_with_sliced_message_delivered"];

pub fn run(tier: Tier) -> i32 {
    let mut rep = Report::new("C20", tier);
    rep.rule("M2 over world T: real NetcodeServerTransport / NetcodeClientTransport / RenetServer / RenetClient on UDP sockets on 127.0.0.1, every datagram relayed by a harness-owned socket per client that applies the schedule: every schedule with <= d deviations per datagram (drop, duplicate, delay 1/2 ticks, corrupt one byte, replay the link's first datagram) in both directions over the first 9-10 ticks of a session (2 clients connect, small + sliced messages on all three channels both ways at tick 4, then one of: nothing / RenetClient::disconnect / client transport.disconnect / RenetServer::disconnect / transport.disconnect_all / a client going silent at tick 7), then a fault-free tail; oracle after every server update: ids held by the message layer = ids held by the handshake layer = ids left connected by the event stream, events strictly alternate per id; at the end: a disconnect decided anywhere ended the session on both sides, untouched sessions are still connected on both sides with every reliable message delivered exactly once in order, client layers agree");
    rep.assume("Linux loopback delivers a datagram to the destination socket before send_to returns (the determinism gate re-runs the first 64 schedules of every scenario and compares observation logs; any socket error is a machinery error); ephemeral ports and random token keys never enter an observation");
    let sc = scenarios(tier);
    let d = tier.pick(1, 2);
    for (i, s) in sc.iter().enumerate() {
        let cfg = ExploreCfg { max_dev: d, wall_cap_s: tier.pick(120.0, 1500.0), ..Default::default() };
        match explore::explore_schedules(s, i, &cfg, FLAGS.len()) {
            Ok(r) => rep.add_explore(&format!("udp/{}", s.cfg.name), &r, &FLAGS),
            Err(e) => {
                rep.machinery = Some(e.0);
                break;
            }
        }
    }
    rep.finish()
}

pub fn replay(j: &J) -> i32 {
    let tier = match j.get("tier").and_then(|t| t.as_str()) {
        Some("thorough") => Tier::Thorough,
        _ => Tier::Quick,
    };
    let sc = scenarios(tier);
    let idx = j.get("scenario_index").and_then(|x| x.as_i()).unwrap_or(0) as usize;
    let Some(s) = sc.get(idx) else { return 2 };
    let choices = report::choices_of(j);
    match explore::replay(s, &choices) {
        Err(e) => {
            eprintln!("MACHINERY ERROR: {}", e.0);
            2
        }
        Ok((log, v)) => {
            println!("replay of '{}' with choices {:?}", s.cfg.name, choices);
            for l in log {
                println!("  {}", l);
            }
            match v {
                Some(v) => {
                    println!("RESULT: violation {} — {}", v.signature, v.message);
                    1
                }
                None => {
                    println!("RESULT: no violation");
                    0
                }
            }
        }
    }
}

#[allow(dead_code)]
fn unused(_: DisconnectReason) {}
