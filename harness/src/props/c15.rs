//! C15 — Retransmission: not before resend_time, promptly after it, never once acknowledged.

use super::{replay_link, run_link_scenarios, LinkScenario};
use crate::explore::Violation;
use crate::json::J;
use crate::link::{Chan, Drain, Fate, Kind, Link, LinkCfg, PktInfo, Probe, Send};
use crate::report::{Report, Tier};
use std::collections::BTreeMap;
use std::time::Duration;

/// item = (direction, channel, message id, slice index or usize::MAX for a small message)
type Item = (usize, u8, u64, usize);

pub struct TimingProbe {
    /// last transmission time (sender clock, ms) per item
    last_tx: BTreeMap<Item, u64>,
    /// time (sender clock, ms) at which an ack for a packet carrying the item was processed
    acked_at: BTreeMap<Item, u64>,
    /// items for which an acknowledgement of a carrying packet of ANY age was processed: the peer has them, so the
    /// obligation to retransmit has lapsed (whether such a late acknowledgement is honoured is left open)
    acked_late: std::collections::BTreeSet<Item>,
    retransmissions: u64,
}

impl TimingProbe {
    pub fn new() -> Self {
        TimingProbe {
            last_tx: BTreeMap::new(),
            acked_at: BTreeMap::new(),
            acked_late: Default::default(),
            retransmissions: 0,
        }
    }
}

fn items_of(dir: usize, info: &PktInfo) -> Vec<Item> {
    match info {
        PktInfo::SmallReliable { ch, msgs } => msgs.iter().map(|(id, _)| (dir, *ch, *id, usize::MAX)).collect(),
        PktInfo::ReliableSlice { ch, id, idx, .. } => vec![(dir, *ch, *id, *idx)],
        _ => vec![],
    }
}

impl Probe for TimingProbe {
    fn on_flush(&mut self, l: &Link, dir: usize, first: usize) -> Result<(), Violation> {
        let now = l.now_ms[dir];
        for p in &l.emitted[first..] {
            for it in items_of(dir, &p.info) {
                let r = l.cfg.chan(dir, it.1).resend_ms;
                if let Some(t) = self.acked_at.get(&it) {
                    return Err(Violation::new(
                        "C15/transmitted-again-after-acknowledgement",
                        format!(
                            "endpoint {} channel {} message id {} {}: transmitted at {} ms although an acknowledgement for a packet carrying it (sent < 3 s before) was processed at {} ms",
                            dir,
                            it.1,
                            it.2,
                            if it.3 == usize::MAX { "(small)".to_string() } else { format!("slice {}", it.3) },
                            now,
                            t
                        ),
                    ));
                }
                if let Some(prev) = self.last_tx.get(&it) {
                    self.retransmissions += 1;
                    if now - prev < r {
                        return Err(Violation::new(
                            "C15/retransmitted-before-resend-time",
                            format!(
                                "endpoint {} channel {} message id {} {}: transmitted at {} ms and again at {} ms, resend_time is {} ms",
                                dir,
                                it.1,
                                it.2,
                                if it.3 == usize::MAX { "(small)".to_string() } else { format!("slice {}", it.3) },
                                prev,
                                now,
                                r
                            ),
                        ));
                    }
                }
                self.last_tx.insert(it, now);
            }
        }
        // promptness: every unacknowledged item whose resend_time has elapsed (or that was never sent) must be part of
        // this flush — unless the tick budget could not take it: the budget only shrinks during a flush, so if what is
        // left at the end still holds a whole slice (the most any single item needs), the item had room when its channel
        // was served
        if l.ends.disconnect_reason(dir).is_some() {
            return Ok(());
        }
        let used: u64 = l.emitted[first..]
            .iter()
            .map(|p| match &p.info {
                PktInfo::SmallReliable { msgs, .. } => msgs.iter().map(|(_, n)| *n as u64).sum::<u64>(),
                PktInfo::SmallUnreliable { lens, .. } => lens.iter().map(|n| *n as u64).sum::<u64>(),
                PktInfo::ReliableSlice { len, .. } | PktInfo::UnreliableSlice { len, .. } => *len as u64,
                _ => 0,
            })
            .sum();
        if l.cfg.bytes_per_tick.saturating_sub(used) < 1200 {
            return Ok(());
        }
        // (a) by the harness's own bookkeeping: an item that was transmitted and for which no acknowledgement
        // of a carrying packet was processed is unacknowledged, whatever the library's tables say
        for (it, prev) in self.last_tx.iter() {
            if it.0 != dir || self.acked_at.contains_key(it) || self.acked_late.contains(it) || *prev == now {
                continue;
            }
            let r = l.cfg.chan(dir, it.1).resend_ms;
            if now - prev >= r {
                return Err(Violation::new(
                    "C15/not-retransmitted-when-due",
                    format!(
                        "endpoint {} channel {} message id {} {}: last transmitted at {} ms, no acknowledgement of a packet carrying it was ever processed, now {} ms, resend_time {} ms, budget ample — not in this flush",
                        dir,
                        it.1,
                        it.2,
                        if it.3 == usize::MAX { "(small)".to_string() } else { format!("slice {}", it.3) },
                        prev,
                        now,
                        r
                    ),
                ));
            }
        }
        let Some(snap) = l.ends.snapshot(dir) else { return Ok(()) };
        let nowd = snap.current_time;
        for c in &snap.send_reliable {
            let r = Duration::from_millis(l.cfg.chan(dir, c.channel_id).resend_ms);
            for m in &c.unacked {
                for (i, ls) in m.last_sent.iter().enumerate() {
                    if m.sliced && m.acked[i] {
                        continue;
                    }
                    let it: Item = (dir, c.channel_id, m.message_id, if m.sliced { i } else { usize::MAX });
                    // trust the packets, not the bookkeeping: was it in this flush?
                    let sent_now = self.last_tx.get(&it) == Some(&now)
                        && l.emitted[first..].iter().any(|p| items_of(dir, &p.info).contains(&it));
                    if sent_now {
                        continue;
                    }
                    let due = match self.last_tx.get(&it) {
                        None => true,
                        Some(prev) => now - prev >= r.as_millis() as u64,
                    };
                    if due {
                        return Err(Violation::new(
                            "C15/not-retransmitted-when-due",
                            format!(
                                "endpoint {} channel {} message id {} {}: unacknowledged, last transmitted at {:?} ms (bookkeeping says {:?}), now {} ms ({:?}), resend_time {:?}, budget ample — not in this flush",
                                dir,
                                c.channel_id,
                                m.message_id,
                                if m.sliced { format!("slice {}", i) } else { "(small)".to_string() },
                                self.last_tx.get(&it),
                                ls,
                                now,
                                nowd,
                                r
                            ),
                        ));
                    }
                }
            }
        }
        Ok(())
    }

    fn on_deliver(&mut self, l: &Link, dir: usize, pkt: usize) -> Result<(), Violation> {
        // an ack packet from `dir` was processed by endpoint e = 1 - dir
        let e = 1 - dir;
        if l.emitted[pkt].delivered == 0 {
            return Ok(());
        }
        if let PktInfo::Ack { ranges } = &l.emitted[pkt].info {
            let now = l.now_ms[e];
            for q in l.emitted.iter().filter(|q| q.dir == e) {
                if ranges.iter().any(|(s, en)| q.seq >= *s && q.seq < *en) {
                    for it in items_of(e, &q.info) {
                        if now - q.at_ms < 3000 {
                            self.acked_at.entry(it).or_insert(now);
                        } else {
                            self.acked_late.insert(it);
                        }
                    }
                }
            }
        }
        Ok(())
    }

    fn outcome(&self) -> u64 {
        self.retransmissions
    }
}

fn words(alphabet: &[u64], max_len: usize) -> Vec<Vec<u64>> {
    let mut out: Vec<Vec<u64>> = vec![vec![]];
    let mut level: Vec<Vec<u64>> = vec![vec![]];
    for _ in 0..max_len {
        let mut next = vec![];
        for w in &level {
            for a in alphabet {
                let mut x = w.clone();
                x.push(*a);
                next.push(x);
            }
        }
        out.extend(next.iter().cloned());
        level = next;
    }
    out
}

pub fn scenarios(tier: Tier) -> Vec<LinkScenario<fn() -> Box<dyn Probe>>> {
    let r = 300u64;
    let alphabet = [r / 3, r / 2, r, 3 * r / 2];
    let ws = words(&alphabet, tier.pick(2, 4));
    let scripts: Vec<(&str, Vec<usize>)> = vec![("1", vec![1]), ("1+1", vec![1, 1]), ("2401", vec![2401]), ("1+2401", vec![1, 2401]), ("500+500+500", vec![500, 500, 500])];
    let mut out: Vec<LinkScenario<fn() -> Box<dyn Probe>>> = vec![];
    let chans = || vec![Chan::new(0, Kind::Ordered, 100_000, r), Chan::new(1, Kind::Unordered, 100_000, 2 * r)];
    for (wi, w) in ws.iter().enumerate() {
        for (si, (sname, lens)) in scripts.iter().enumerate() {
            let dir = (wi + si) % 2;
            let ch = ((wi / 2 + si) % 2) as u8;
            let mut cfg = LinkCfg::base(&format!("ticks {:?}+{}.. script {} ch{} dir{}", w, r / 3, sname, ch, dir), chans(), chans());
            let mut dts = w.clone();
            // after the word: regular short ticks for the rest of the run
            let total = 16usize;
            while dts.len() < total {
                dts.push(r / 3);
            }
            cfg.dt_ms = dts;
            cfg.horizon = 5;
            cfg.tail = (total - 5) as u32;
            cfg.drains = vec![Drain::End];
            cfg.fates = vec![Fate::Ok, Fate::Drop, Fate::Dup, Fate::Delay1, Fate::Delay2];
            cfg.script = lens.iter().map(|&len| Send::at(0, dir, ch, len)).collect();
            out.push(LinkScenario {
                cfg,
                probe: (|| Box::new(TimingProbe::new()) as Box<dyn Probe>) as fn() -> Box<dyn Probe>,
            });
        }
    }
    // lossy baseline: the last slice of a 3-slice message is lost every time during the horizon, so partially
    // acknowledged messages with retransmitted (twice acknowledged) slices appear within one or two deviations
    for dir in 0..2usize {
        for (tname, dts) in [("dt=R/3", vec![r / 3]), ("dt=R/2", vec![r / 2]), ("dt=R", vec![r])] {
            let mut cfg = LinkCfg::base(&format!("lossy: slice 2 of 2401 always lost, {} dir{}", tname, dir), chans(), chans());
            let mut d = dts.clone();
            while d.len() < 24 {
                d.push(dts[0]);
            }
            cfg.dt_ms = d;
            cfg.horizon = 8;
            cfg.tail = 16;
            cfg.base_drop_slice_idx = Some(2);
            cfg.drains = vec![Drain::End];
            cfg.fates = vec![Fate::Ok, Fate::Drop, Fate::Dup, Fate::Delay1, Fate::Delay2];
            cfg.script = vec![Send::at(0, dir, 0, 2401)];
            out.push(LinkScenario {
                cfg,
                probe: (|| Box::new(TimingProbe::new()) as Box<dyn Probe>) as fn() -> Box<dyn Probe>,
            });
        }
    }
    // uptime classes: the same timing rules on connections that have been up for 7 and 100 days
    for (uname, up) in [("7 days", 7u64 * 86_400_000), ("100 days", 100 * 86_400_000)] {
        for dir in 0..2usize {
            for (tname, dts) in [("dt=10ms", vec![10u64]), ("dt=R/3", vec![r / 3])] {
                let mut cfg = LinkCfg::base(&format!("uptime {}: script 1+2401, {} dir{}", uname, tname, dir), chans(), chans());
                let mut d = dts.clone();
                while d.len() < 70 {
                    d.push(dts[0]);
                }
                cfg.dt_ms = d;
                cfg.initial_uptime_ms = up;
                cfg.horizon = 3;
                cfg.tail = if dts[0] == 10 { 65 } else { 12 };
                cfg.drains = vec![Drain::End];
                cfg.fates = vec![Fate::Ok, Fate::Drop];
                cfg.script = vec![Send::at(0, dir, 0, 1), Send::at(0, dir, 0, 2401)];
                out.push(LinkScenario {
                    cfg,
                    probe: (|| Box::new(TimingProbe::new()) as Box<dyn Probe>) as fn() -> Box<dyn Probe>,
                });
            }
        }
    }
    // slow links: acknowledgements come back 2.2 - 2.9 s after the packet they acknowledge left (less than 3 s), for
    // messages submitted at every phase of the second: the first ack that arrives ends the retransmissions
    for lat in [11u32, 12, 14] {
        for dir in 0..2usize {
            if lat != 11 && dir == 1 {
                continue;
            }
            let mut cfg = LinkCfg::base(&format!("link latency {} ticks each way (ack after {} ms), one message per tick for a second, dir{}", lat, (2 * lat + if lat == 14 { 1 } else { 0 }) * 100, dir), chans(), chans());
            cfg.dt_ms = vec![100];
            cfg.base_delay_ticks = lat;
            cfg.horizon = 0;
            cfg.tail = 80;
            cfg.drains = vec![Drain::End];
            cfg.fates = vec![Fate::Ok];
            cfg.script = (0..10u32).map(|t| Send::at(t, dir, (t % 2) as u8, 1 + t as usize)).collect();
            out.push(LinkScenario {
                cfg,
                probe: (|| Box::new(TimingProbe::new()) as Box<dyn Probe>) as fn() -> Box<dyn Probe>,
            });
        }
    }
    // long silence: the sent-packet horizon (3 s) expires before the delayed ack arrives
    for dir in 0..2usize {
        let mut cfg = LinkCfg::base(&format!("3.1s silence script 1+2401 dir{}", dir), chans(), chans());
        cfg.dt_ms = vec![100, 3100, 100, 100, 3000, 100, 100, 100, 100, 100, 100, 100];
        cfg.horizon = 4;
        cfg.tail = 8;
        cfg.drains = vec![Drain::End];
        cfg.fates = vec![Fate::Ok, Fate::Drop, Fate::Dup, Fate::Delay1, Fate::Delay2, Fate::Delay4];
        cfg.script = vec![Send::at(0, dir, 0, 1), Send::at(0, dir, 0, 2401)];
        out.push(LinkScenario {
            cfg,
            probe: (|| Box::new(TimingProbe::new()) as Box<dyn Probe>) as fn() -> Box<dyn Probe>,
        });
    }
    // messages submitted in different ticks, so that a retransmission of an older message shares a packet with a newer
    // one while the message in between is not yet due (message ids in one packet are not consecutive)
    for dir in 0..2usize {
        let mut cfg = LinkCfg::base(&format!("one message at ticks 0, 1 and 3, dt=R/3 dir{}", dir), chans(), chans());
        cfg.dt_ms = vec![r / 3];
        cfg.horizon = 5;
        cfg.tail = 11;
        cfg.drains = vec![Drain::End];
        cfg.fates = vec![Fate::Ok, Fate::Drop, Fate::Dup, Fate::Delay1, Fate::Delay2];
        cfg.script = vec![Send::at(0, dir, 0, 1), Send::at(1, dir, 0, 2), Send::at(3, dir, 0, 3)];
        out.push(LinkScenario {
            cfg,
            probe: (|| Box::new(TimingProbe::new()) as Box<dyn Probe>) as fn() -> Box<dyn Probe>,
        });
    }
    // a tick budget of one or two slices for a three-slice message whose acknowledgements are lost for four ticks: the
    // slices leave in different ticks and fall due in different ticks
    for (budget, dir) in [(2400u64, 0usize), (2400, 1), (1200, 0), (3600, 1)] {
        let mut cfg = LinkCfg::base(&format!("{} B per tick, message 2401+1, acks lost in ticks 0-3, dir{}", budget, dir), chans(), chans());
        cfg.bytes_per_tick = budget;
        cfg.dt_ms = vec![r / 3];
        cfg.horizon = 4;
        cfg.tail = 14;
        cfg.dir_outage = Some((1 - dir, 0, 4));
        cfg.faults_dir = [dir == 0, dir == 1];
        cfg.drains = vec![Drain::End];
        cfg.fates = vec![Fate::Ok, Fate::Drop, Fate::Dup, Fate::Delay1, Fate::Delay2];
        cfg.script = vec![Send::at(0, dir, 0, 2401), Send::at(0, dir, 0, 1)];
        out.push(LinkScenario {
            cfg,
            probe: (|| Box::new(TimingProbe::new()) as Box<dyn Probe>) as fn() -> Box<dyn Probe>,
        });
    }
    // link outage of 3.4 s at tick lengths that are not a divisor of the resend time: while nothing is acknowledged,
    // retransmissions stay at least a resend time apart also across the moment (3 s) at which the sent-packet
    // records of the first transmissions are written off as lost
    for dt in [16u64, 70, 110, 250] {
        for dir in 0..2usize {
            if dir == 1 && dt != 16 {
                continue;
            }
            let n = (3400u64.div_ceil(dt)) as u32;
            let mut cfg = LinkCfg::base(&format!("outage of {} ticks of {} ms from tick 1, script 1+2401 dir{}", n, dt, dir), chans(), chans());
            cfg.dt_ms = vec![dt];
            cfg.horizon = 1;
            cfg.outage = Some((1, 1 + n));
            cfg.tail = n + (700 / dt) as u32 + 4;
            cfg.drains = vec![Drain::End];
            cfg.fates = vec![Fate::Ok, Fate::Drop, Fate::Dup, Fate::Delay1, Fate::Delay2];
            cfg.script = vec![Send::at(0, dir, 0, 1), Send::at(0, dir, 0, 2401), Send::at(0, dir, 1, 1)];
            out.push(LinkScenario {
                cfg,
                probe: (|| Box::new(TimingProbe::new()) as Box<dyn Probe>) as fn() -> Box<dyn Probe>,
            });
        }
    }
    out
}

pub fn run(tier: Tier) -> i32 {
    let mut rep = Report::new("C15", tier);
    rep.rule("M2: every tick-length word over {R/3, R/2, R, 3R/2} up to length 2 (quick) / 4 (thorough) followed by regular R/3 ticks, x scripts {1; 1+1; 2401; 1+2401} on an ordered (resend R) or unordered (resend 2R) channel, plus 3.1 s silences; every schedule with <= d deviations on data and ack packets (drop/dup/delay1/delay2[/delay4]); oracle on the decoded packets and the harness's own log of processed acks: consecutive transmissions of a message or slice >= resend_time apart; every unacknowledged item is in the first flush at which resend_time has elapsed (budget ample); nothing is transmitted again after an ack for a packet that carried it (sent < 3 s earlier) was processed");
    rep.assume("transmission times are read from the packets each get_packets_to_send returns, on the sender's harness-owned clock");
    let sc = scenarios(tier);
    run_link_scenarios(&mut rep, "m2", &sc, tier.pick(2, 2), tier.pick(120.0, 1500.0));
    rep.finish()
}

pub fn replay(j: &J) -> i32 {
    let tier = match j.get("tier").and_then(|t| t.as_str()) {
        Some("thorough") => Tier::Thorough,
        _ => Tier::Quick,
    };
    replay_link(&scenarios(tier), j)
}
