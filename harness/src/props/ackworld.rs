//! Small-scope world for the receiver's acknowledgement range list (C08 b/c, C13 b, C16):
//! a real RenetClient receives packets whose sequence numbers are chosen by the explorer, is
//! flushed at arbitrary moments, and receives the peer's acknowledgements of its own ack
//! packets ("acks of acks") at arbitrary moments. Reference model: a plain set.

use crate::explore::{self, h128, DfsCfg, Violation, World};
use crate::json::J;
use crate::link::{decode, guard, hash_conn, PktInfo};
use crate::report::{Report, Tier};
use renet::verif::Packet;
use renet::{ConnectionConfig, RenetClient};
use std::collections::BTreeSet;

#[derive(Clone, Debug, PartialEq, Eq, Hash)]
pub enum Act {
    /// a data packet with this sequence number arrives
    Arrive(u64),
    /// get_packets_to_send
    Flush,
    /// the peer acknowledges the ack packet we emitted with this sequence number
    AckOf(u64),
    /// the same, but the peer's ack packet is itself a late packet: it carries the given sequence number of the
    /// universe (it may fall below, between or next to the pending ranges)
    AckOfAs(u64, u64),
}

#[derive(Clone)]
pub struct AckWorld {
    pub ep: RenetClient,
    pub universe: Vec<u64>,
    pub arrived: Vec<bool>,
    pub allow_rearrival: bool,
    pub received: BTreeSet<u64>,
    /// lower bound of the recorded set: an ack of an ack packet trims everything up to the largest sequence that
    /// packet acknowledged (the original's policy; nothing sensible trims more)
    pub model_pending: BTreeSet<u64>,
    /// upper bound of the recorded set: an ack of an ack packet trims exactly the sequences that packet carried
    pub model_upper: BTreeSet<u64>,
    /// the 64-range limit may have dropped ranges (then only the upper bound is compared)
    pub cap_hit: bool,
    /// (sequence of the ack packet we emitted, largest sequence it acknowledged, the ranges it carried)
    pub outstanding: Vec<(u64, u64, Vec<(u64, u64)>)>,
    pub next_peer_seq: u64,
    /// offer AckOfAs actions
    pub ack_packets_from_universe: bool,
    pub max_outstanding: usize,
    pub flags: u64,
    /// which oracle clauses are evaluated (each property enables its own)
    pub oracles: u8,
}

pub const O_SUBSET: u8 = 1;
pub const O_EQUAL: u8 = 2;
pub const O_SIZE: u8 = 4;

pub fn encode(p: &Packet) -> Vec<u8> {
    let mut buf = [0u8; 1600];
    let mut o = octets::OctetsMut::with_slice(&mut buf);
    let n = p.to_bytes(&mut o).expect("encode");
    buf[..n].to_vec()
}

pub fn ranges_of(set: &BTreeSet<u64>) -> Vec<(u64, u64)> {
    let mut out: Vec<(u64, u64)> = vec![];
    for &s in set {
        match out.last_mut() {
            Some(r) if r.1 == s => r.1 = s + 1,
            _ => out.push((s, s + 1)),
        }
    }
    out
}

/// the recorded set keeps at most the newest 64 ranges
fn cap_model(set: &mut BTreeSet<u64>) {
    let r = ranges_of(set);
    if r.len() > 64 {
        let cut = r[r.len() - 64].0;
        set.retain(|s| *s >= cut);
    }
}

impl AckWorld {
    pub fn with_oracles(universe: Vec<u64>, oracles: u8) -> Self {
        let mut w = Self::new(universe);
        w.oracles = oracles;
        w
    }

    pub fn new(universe: Vec<u64>) -> Self {
        let mut ep = RenetClient::new(ConnectionConfig::default());
        ep.set_connected();
        AckWorld {
            ep,
            arrived: vec![false; universe.len()],
            universe,
            allow_rearrival: false,
            received: BTreeSet::new(),
            model_pending: BTreeSet::new(),
            model_upper: BTreeSet::new(),
            cap_hit: false,
            outstanding: vec![],
            next_peer_seq: 1 << 20,
            ack_packets_from_universe: false,
            max_outstanding: 2,
            flags: 0,
            oracles: O_SUBSET | O_EQUAL | O_SIZE,
        }
    }

    fn arrive(&mut self, seq: u64) -> Result<(), Violation> {
        let bytes = encode(&Packet::SmallUnreliable {
            sequence: seq,
            channel_id: 0,
            messages: vec![],
        });
        let ep = &mut self.ep;
        guard("process_packet", || ep.process_packet(&bytes))?;
        self.received.insert(seq);
        self.model_pending.insert(seq);
        cap_model(&mut self.model_pending);
        self.model_upper.insert(seq);
        if ranges_of(&self.model_upper).len() > 64 {
            self.cap_hit = true;
        }
        self.check_state()
    }

    /// invariant evaluated in every state: flush a clone and compare with the reference set
    fn check_state(&self) -> Result<(), Violation> {
        if let Some(r) = self.ep.disconnect_reason() {
            return Err(Violation::new(
                format!("ACK/disconnected/{}", super::c01::reason_class(&r)),
                format!("endpoint disconnected with {:?} while only receiving well-formed packets", r),
            ));
        }
        let snap = self.ep.verif_snapshot();
        let pa = &snap.pending_acks;
        for w in pa.windows(2) {
            if self.oracles & O_EQUAL != 0 && !(w[0].start < w[0].end && w[0].end < w[1].start) {
                return Err(Violation::new(
                    "ACK/range-list-not-sorted-disjoint-nonadjacent",
                    format!("pending ranges {:?}", pa),
                ));
            }
        }
        let mut c = self.ep.clone();
        let mut pk = guard("get_packets_to_send", || c.get_packets_to_send())?;
        // how often an ack packet is emitted is not part of any statement (an implementation may pace them):
        // look at the first one that comes out within a few flushes
        for _ in 0..3 {
            if !pk.is_empty() || self.model_upper.is_empty() || c.disconnect_reason().is_some() {
                break;
            }
            pk = guard("get_packets_to_send", || c.get_packets_to_send())?;
        }
        if let (Some(r), true) = (c.disconnect_reason(), self.oracles & O_SIZE != 0) {
            return Err(Violation::new(
                format!("ACK/flush-disconnects/{}", super::c01::reason_class(&r)),
                format!("get_packets_to_send disconnected the endpoint with {:?}; pending ranges: {}", r, pa.len()),
            ));
        }
        if c.disconnect_reason().is_some() {
            return Ok(());
        }
        if self.model_upper.is_empty() {
            if !pk.is_empty() && self.oracles & O_EQUAL != 0 {
                return Err(Violation::new("ACK/ack-for-empty-set", format!("{} packets emitted with nothing to acknowledge", pk.len())));
            }
            return Ok(());
        }
        if pk.is_empty() {
            return Ok(());
        }
        if pk.len() != 1 {
            if self.oracles & O_EQUAL != 0 {
                return Err(Violation::new("ACK/expected-one-ack-packet", format!("{} packets emitted", pk.len())));
            }
            return Ok(());
        }
        if pk[0].len() > 1300 && self.oracles & O_SIZE != 0 {
            return Err(Violation::new(
                "ACK/ack-packet-over-1300",
                format!("ack packet of {} bytes for {} pending ranges", pk[0].len(), pa.len()),
            ));
        }
        let (_, info, _) = decode(&pk[0]);
        let PktInfo::Ack { ranges } = info else {
            if self.oracles & O_EQUAL != 0 {
                return Err(Violation::new("ACK/not-an-ack-packet", format!("{:?}", info)));
            }
            return Ok(());
        };
        for (s, e) in &ranges {
            for x in *s..*e {
                if self.oracles & O_SUBSET != 0 && !self.received.contains(&x) {
                    return Err(Violation::new(
                        "ACK/acknowledged-unreceived-sequence",
                        format!("ack packet covers {} which never arrived; ranges {:?}; received {:?}", x, ranges, self.received),
                    ));
                }
            }
        }
        // the packet denotes exactly what the endpoint has recorded (its newest 64 ranges) ...
        let recorded: Vec<(u64, u64)> = pa.iter().map(|r| (r.start, r.end)).collect();
        let want: Vec<(u64, u64)> = recorded[recorded.len().saturating_sub(64)..].to_vec();
        if self.oracles & O_EQUAL != 0 && ranges != want {
            return Err(Violation::new(
                "ACK/ack-packet-differs-from-recorded-set",
                format!(
                    "ack packet denotes {} ranges {:?}..., the endpoint has recorded {} ranges, the newest 64 of which are {:?}...",
                    ranges.len(),
                    &ranges[..ranges.len().min(6)],
                    recorded.len(),
                    &want[..want.len().min(6)]
                ),
            ));
        }
        // ... and the record itself lies between two reference sets: everything that arrived minus exactly what confirmed
        // ack packets carried (upper), and minus everything up to the largest sequence a confirmed ack packet carried (lower)
        if self.oracles & O_EQUAL != 0 {
            let mut rec = BTreeSet::new();
            for (s, e) in &recorded {
                for x in *s..*e {
                    rec.insert(x);
                }
            }
            if let Some(x) = rec.iter().find(|x| !self.model_upper.contains(x)) {
                return Err(Violation::new(
                    "ACK/ack-packet-differs-from-recorded-set",
                    format!("the recorded set holds {} which never arrived or was confirmed as acknowledged; recorded {:?}..., reference (upper) {:?}...", x, &recorded[..recorded.len().min(6)], &ranges_of(&self.model_upper)[..ranges_of(&self.model_upper).len().min(6)]),
                ));
            }
            if !self.cap_hit {
                if let Some(x) = self.model_pending.iter().find(|x| !rec.contains(x)) {
                    return Err(Violation::new(
                        "ACK/ack-packet-differs-from-recorded-set",
                        format!("sequence {} arrived, lies above everything a confirmed ack packet carried, and is missing from the recorded set {:?}...", x, &recorded[..recorded.len().min(6)]),
                    ));
                }
            }
        }
        Ok(())
    }
}

impl World for AckWorld {
    type Action = Act;

    fn actions(&self) -> Vec<Act> {
        let mut v = vec![];
        for (i, &s) in self.universe.iter().enumerate() {
            if !self.arrived[i] || self.allow_rearrival {
                v.push(Act::Arrive(s));
            }
        }
        if !self.model_upper.is_empty() && self.outstanding.len() < self.max_outstanding {
            v.push(Act::Flush);
        }
        for (q, _, _) in &self.outstanding {
            v.push(Act::AckOf(*q));
            if self.ack_packets_from_universe {
                for (i, &s) in self.universe.iter().enumerate() {
                    if !self.arrived[i] {
                        v.push(Act::AckOfAs(*q, s));
                    }
                }
            }
        }
        v
    }

    fn step(&mut self, a: &Act) -> Result<(), Violation> {
        match a {
            Act::Arrive(s) => {
                if let Some(i) = self.universe.iter().position(|x| x == s) {
                    if self.arrived[i] {
                        self.flags |= 4;
                    }
                    self.arrived[i] = true;
                }
                self.arrive(*s)
            }
            Act::Flush => {
                let ep = &mut self.ep;
                let pk = guard("get_packets_to_send", || ep.get_packets_to_send())?;
                for p in pk {
                    let (seq, info, _) = decode(&p);
                    if let PktInfo::Ack { ranges } = info {
                        let largest = ranges.last().map(|r| r.1 - 1).unwrap_or(0);
                        self.outstanding.push((seq, largest, ranges.clone()));
                    }
                }
                self.flags |= 1;
                self.check_state()
            }
            Act::AckOf(_) | Act::AckOfAs(_, _) => {
                let (q, as_seq) = match a {
                    Act::AckOf(q) => (q, None),
                    Act::AckOfAs(q, s) => (q, Some(*s)),
                    _ => unreachable!(),
                };
                let Some(pos) = self.outstanding.iter().position(|(s, _, _)| s == q) else { return Ok(()) };
                let (_, largest, carried) = self.outstanding.remove(pos);
                let seq = match as_seq {
                    Some(s) => {
                        if let Some(i) = self.universe.iter().position(|x| *x == s) {
                            self.arrived[i] = true;
                        }
                        s
                    }
                    None => {
                        let s = self.next_peer_seq;
                        self.next_peer_seq += 2; // peer ack packets are never adjacent to each other
                        s
                    }
                };
                let bytes = encode(&Packet::Ack {
                    sequence: seq,
                    ack_ranges: vec![*q..*q + 1],
                });
                let ep = &mut self.ep;
                guard("process_packet", || ep.process_packet(&bytes))?;
                self.received.insert(seq);
                self.model_pending.insert(seq);
                cap_model(&mut self.model_pending);
                self.model_pending.retain(|s| *s > largest);
                self.model_upper.insert(seq);
                self.model_upper.retain(|s| !carried.iter().any(|(a, b)| *s >= *a && *s < *b));
                if ranges_of(&self.model_upper).len() > 64 {
                    self.cap_hit = true;
                }
                self.flags |= 2;
                self.check_state()
            }
        }
    }

    fn fingerprint(&self) -> u128 {
        let snap = self.ep.verif_snapshot();
        let mut h = std::collections::hash_map::DefaultHasher::new();
        hash_conn(&snap, &mut h);
        use std::hash::Hasher;
        h128(&(h.finish(), &self.arrived, &self.model_pending, &self.model_upper, self.cap_hit, &self.outstanding, self.next_peer_seq))
    }

    fn flags(&self) -> u64 {
        self.flags
    }
}

/// initial states for the "start from non-initial states" part: n disjoint single-element
/// ranges with the given spacing, built through the public path in the given arrival order
pub fn prebuilt(n: usize, base: u64, spacing: u64, order: &str, candidates: Vec<u64>, oracles: u8) -> Result<AckWorld, Violation> {
    let mut w = AckWorld::with_oracles(candidates, oracles);
    let mut seqs: Vec<u64> = (0..n as u64).map(|i| base + i * spacing).collect();
    match order {
        "ascending" => {}
        "descending" => seqs.reverse(),
        "middle-out" => {
            let mut out = vec![];
            let mid = seqs.len() / 2;
            for i in 0..seqs.len() {
                let j = if i % 2 == 0 { mid + i / 2 } else { mid - 1 - i / 2 };
                if j < seqs.len() {
                    out.push(seqs[j]);
                }
            }
            seqs = out;
        }
        // every second one first (ascending), then the ones in between: each later arrival opens a new range
        // strictly inside a gap of the pending list
        "evens-then-odds" | "evens-then-odds-descending" => {
            let mut out: Vec<u64> = seqs.iter().copied().step_by(2).collect();
            let mut odds: Vec<u64> = seqs.iter().copied().skip(1).step_by(2).collect();
            if order == "evens-then-odds-descending" {
                odds.reverse();
            }
            out.extend(odds);
            seqs = out;
        }
        _ => unreachable!(),
    }
    for s in seqs {
        w.arrive(s)?;
    }
    Ok(w)
}

pub struct Part {
    pub name: String,
    pub world: Result<AckWorld, Violation>,
    pub depth: u32,
}

pub fn parts(tier: Tier, oracles: u8) -> Vec<Part> {
    let mut v = vec![];
    // (b) every ordered subset of {0..n-1} with flushes and acks of acks in between
    let n = tier.pick(5u64, 7u64);
    let mut w = AckWorld::with_oracles((0..n).collect(), oracles);
    w.max_outstanding = 2;
    v.push(Part {
        name: format!("ordered-subsets-of-0..{}", n),
        world: Ok(w),
        depth: tier.pick(9, 12),
    });
    // (b') the peer's ack packets are themselves late packets with sequence numbers of the universe
    {
        let n = tier.pick(6u64, 7u64);
        let mut w = AckWorld::with_oracles((0..n).collect(), oracles);
        w.max_outstanding = 1;
        w.ack_packets_from_universe = true;
        v.push(Part {
            name: format!("ordered-subsets-of-0..{}-with-late-ack-packets", n),
            world: Ok(w),
            depth: tier.pick(7, 9),
        });
    }
    // (c) non-initial states with 63/64/65 ranges, further arrivals by position class
    for &n in &[63usize, 64, 65] {
        for order in ["ascending", "descending", "middle-out"] {
            if tier == Tier::Quick && order == "middle-out" {
                continue;
            }
            let base = 1000u64;
            let sp = 4u64;
            let last = base + (n as u64 - 1) * sp;
            let cands = vec![
                50,
                base - 1,
                base + 1,
                base + 2,
                base + 3,
                base + sp,
                base + 20 * sp + 1,
                last + 1,
                last + 10,
            ];
            let mut w = prebuilt(n, base, sp, order, cands, oracles);
            if let Ok(w) = &mut w {
                w.max_outstanding = 1;
            }
            v.push(Part {
                name: format!("{}-ranges-{}", n, order),
                world: w,
                depth: tier.pick(3, 4),
            });
        }
    }
    v
}

fn run_parts(rep: &mut Report, tier: Tier, oracles: u8, keep: &dyn Fn(&str) -> Option<String>) {
    for (i, p) in parts(tier, oracles).into_iter().enumerate() {
        let name = format!("ack/{}", p.name);
        let remap = |v: Violation| -> Option<Violation> {
            keep(&v.signature).map(|sig| Violation::new(sig, v.message.clone()))
        };
        match p.world {
            Err(v) => {
                // the violation already happens while building the non-initial state
                if let Some(v) = remap(v) {
                    rep.violation(
                        &name,
                        v,
                        J::obj().set("kind", J::s("trace")).set("scenario_index", J::i(i as u64)).set("actions", J::Arr(vec![])),
                    );
                }
                rep.add_sweep(&name, 1, 1, 1, vec![format!("building {}", p.name)]);
            }
            Ok(w) => {
                let cfg = DfsCfg {
                    depth: p.depth,
                    threads: explore::threads(),
                    wall_cap_s: tier.pick(60.0, 900.0),
                    max_signatures: 8,
                };
                let mut r = explore::dfs(&w, &cfg);
                rep.vac("ack_flushes_explored", (r.flags_seen & 1 != 0) as u64);
                rep.vac("acks_of_acks_explored", (r.flags_seen & 2 != 0) as u64);
                let found = std::mem::take(&mut r.found);
                r.found = found
                    .into_iter()
                    .filter_map(|f| {
                        remap(f.violation).map(|v| explore::DfsFound { trace: f.trace, violation: v })
                    })
                    .collect();
                rep.add_dfs(&name, i, p.depth, &r);
            }
        }
    }
}

pub fn run_c08(rep: &mut Report, tier: Tier) {
    rep.rule("M1 (ack world): every interleaving of arrivals (every ordered subset of {0..n-1}), flushes and acks-of-acks up to depth D on a real endpoint, plus depth-3/4 continuations from prebuilt states with 63/64/65 disjoint ranges (ascending/descending/middle-out construction); oracle: each ack packet only covers sequences that arrived");
    run_parts(rep, tier, O_SUBSET, &|sig| {
        if sig == "ACK/acknowledged-unreceived-sequence" {
            Some("C08/acknowledged-unreceived-sequence".to_string())
        } else if sig.starts_with("panic/") {
            Some(format!("C08/{}", sig))
        } else {
            None
        }
    });
}

pub fn run_c16(rep: &mut Report, tier: Tier) {
    rep.rule("M1 (ack world): same exploration as C08; oracle: the decoded ack packet equals the reference set (everything that arrived, minus what acks of acks trimmed, newest 64 ranges), range list sorted/disjoint/non-adjacent");
    run_parts(rep, tier, O_EQUAL, &|sig| {
        if sig == "ACK/ack-packet-differs-from-recorded-set"
            || sig == "ACK/range-list-not-sorted-disjoint-nonadjacent"
            || sig == "ACK/not-an-ack-packet"
            || sig == "ACK/expected-one-ack-packet"
            || sig == "ACK/ack-for-empty-set"
        {
            Some(format!("C16/{}", &sig[4..]))
        } else {
            None
        }
    });
}

pub fn run_c13(rep: &mut Report, tier: Tier) {
    rep.rule("M1 (ack world): same exploration; oracle: the ack packet is <= 1300 bytes and flushing never ends in PacketSerialization");
    run_parts(rep, tier, O_SIZE, &|sig| {
        if sig == "ACK/ack-packet-over-1300" || sig.starts_with("ACK/flush-disconnects") || sig.starts_with("ACK/disconnected") {
            Some(format!("C13/{}", &sig[4..]))
        } else {
            None
        }
    });
}

pub fn replay(j: &J) -> i32 {
    let tier = match j.get("tier").and_then(|t| t.as_str()) {
        Some("thorough") => Tier::Thorough,
        _ => Tier::Quick,
    };
    let idx = j.get("scenario_index").and_then(|x| x.as_i()).unwrap_or(0) as usize;
    let oracles = match j.get("property").and_then(|p| p.as_str()) {
        Some("C08") => O_SUBSET,
        Some("C16") => O_EQUAL,
        Some("C13") => O_SIZE,
        _ => O_SUBSET | O_EQUAL | O_SIZE,
    };
    let Some(p) = parts(tier, oracles).into_iter().nth(idx) else {
        eprintln!("bad scenario index");
        return 2;
    };
    println!("ack world part '{}'", p.name);
    let mut w = match p.world {
        Ok(w) => w,
        Err(v) => {
            println!("RESULT: violation while building the state: {} — {}", v.signature, v.message);
            return 1;
        }
    };
    let acts: Vec<usize> = j
        .get("actions")
        .and_then(|a| a.as_arr())
        .map(|a| a.iter().filter_map(|x| x.as_i()).map(|x| x as usize).collect())
        .unwrap_or_default();
    for ai in acts {
        let al = w.actions();
        let Some(a) = al.get(ai) else {
            eprintln!("MACHINERY ERROR: action index {} out of range (divergence)", ai);
            return 2;
        };
        println!("  {:?}", a);
        if let Err(v) = w.step(a) {
            println!("RESULT: violation {} — {}", v.signature, v.message);
            return 1;
        }
        println!("     pending ranges now: {:?}", w.ep.verif_snapshot().pending_acks);
    }
    println!("RESULT: no violation");
    0
}
