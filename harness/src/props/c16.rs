//! C16 — Wire formats round-trip (renet packets, netcode packets, tokens); acks = the set.

use super::ackworld;
use crate::explore::{self, h64, Violation};
use crate::json::J;
use crate::report::{Report, Tier};
use bytes::Bytes;
use renet::verif::{Packet, Slice};
use renetcode::verif::{ChallengeToken, Packet as NPacket, VerifPrivateToken};
use renetcode::ConnectToken;
use std::net::{IpAddr, Ipv4Addr, Ipv6Addr, SocketAddr};

const CLASSES: [u64; 8] = [0, 63, 64, 16_383, 16_384, (1 << 30) - 1, 1 << 30, (1 << 62) - 1];

fn msg(len: usize, salt: usize) -> Bytes {
    (0..len).map(|i| (i * 7 + salt * 13 + 1) as u8).collect::<Vec<u8>>().into()
}

pub fn enc(p: &Packet) -> Result<Vec<u8>, String> {
    let mut buf = vec![0u8; 70_000];
    let mut o = octets::OctetsMut::with_slice(&mut buf);
    match p.to_bytes(&mut o) {
        Ok(n) => Ok(buf[..n].to_vec()),
        Err(e) => Err(format!("{:?}", e)),
    }
}

pub fn dec(b: &[u8]) -> Result<Packet, String> {
    let mut o = octets::Octets::with_slice(b);
    Packet::from_bytes(&mut o).map_err(|e| format!("{:?}", e))
}

/// "any value the library can build": what the library's own send paths can produce
fn library_can_build(p: &Packet) -> bool {
    match p {
        Packet::ReliableSlice { slice, .. } | Packet::UnreliableSlice { slice, .. } => {
            slice.slice_index < slice.num_slices && !slice.payload.is_empty() && slice.payload.len() <= 1200
        }
        Packet::Ack { ack_ranges, .. } => !ack_ranges.is_empty() && ack_ranges.len() <= 64 && ack_ranges.iter().all(|r| r.start < r.end) && ack_ranges.windows(2).all(|w| w[0].end < w[1].start),
        _ => true,
    }
}

/// value -> bytes -> value
fn roundtrip_value(p: &Packet) -> Option<Violation> {
    let kind = kind_of(p);
    let bytes = match crate::link::guard("to_bytes", || enc(p)) {
        Err(v) => return Some(Violation::new(format!("C16/encode-panics/{}", kind), v.message)),
        Ok(Err(e)) => return Some(Violation::new(format!("C16/encode-fails/{}", kind), format!("{:?} does not serialize: {}", short(p), e))),
        Ok(Ok(b)) => b,
    };
    match crate::link::guard("from_bytes", || dec(&bytes)) {
        Err(v) => Some(Violation::new(format!("C16/decode-panics/{}", kind), v.message)),
        // a value no honest sender ever builds (slice index beyond the slice count, empty or over-long slice
        // payload) may be refused by the decoder; if it is accepted it must still round-trip
        Ok(Err(_)) if !library_can_build(p) => None,
        Ok(Err(e)) => Some(Violation::new(
            format!("C16/own-encoding-does-not-decode/{}", kind),
            format!("{} serialized to {} bytes that fail to decode: {}", short(p), bytes.len(), e),
        )),
        Ok(Ok(q)) => {
            if &q != p {
                Some(Violation::new(
                    format!("C16/value-roundtrip-differs/{}", kind),
                    format!("{} decodes back as {}", short(p), short(&q)),
                ))
            } else {
                None
            }
        }
    }
}

/// bytes -> value -> bytes -> value
fn roundtrip_bytes(b: &[u8]) -> (bool, Option<Violation>) {
    let p = match crate::link::guard("from_bytes", || dec(b)) {
        Err(v) => return (false, Some(Violation::new("C16/decode-panics/mutated", v.message))),
        Ok(Err(_)) => return (false, None),
        Ok(Ok(p)) => p,
    };
    let kind = kind_of(&p);
    let b2 = match crate::link::guard("to_bytes", || enc(&p)) {
        Err(v) => return (true, Some(Violation::new(format!("C16/encode-panics/{}", kind), format!("decoded from {:02x?}: {}", &b[..b.len().min(24)], v.message)))),
        Ok(Err(e)) => {
            return (
                true,
                Some(Violation::new(
                    format!("C16/decoded-value-does-not-reencode/{}", kind),
                    format!("bytes {:02x?}.. decode to {} which does not serialize: {}", &b[..b.len().min(24)], short(&p), e),
                )),
            )
        }
        Ok(Ok(x)) => x,
    };
    match crate::link::guard("from_bytes", || dec(&b2)) {
        Err(v) => (true, Some(Violation::new("C16/decode-panics/reencoded", v.message))),
        Ok(Err(e)) => (
            true,
            Some(Violation::new(
                format!("C16/reencoded-bytes-do-not-decode/{}", kind),
                format!("{} re-encodes to bytes that fail to decode: {}", short(&p), e),
            )),
        ),
        Ok(Ok(q)) => {
            if q != p {
                (
                    true,
                    Some(Violation::new(
                        format!("C16/reencode-roundtrip-differs/{}", kind),
                        format!("{} re-encodes and decodes as {}", short(&p), short(&q)),
                    )),
                )
            } else {
                (true, None)
            }
        }
    }
}

fn kind_of(p: &Packet) -> &'static str {
    match p {
        Packet::SmallReliable { .. } => "SmallReliable",
        Packet::SmallUnreliable { .. } => "SmallUnreliable",
        Packet::ReliableSlice { .. } => "ReliableSlice",
        Packet::UnreliableSlice { .. } => "UnreliableSlice",
        Packet::Ack { .. } => "Ack",
    }
}

fn short(p: &Packet) -> String {
    match p {
        Packet::SmallReliable { sequence, channel_id, messages } => format!(
            "SmallReliable{{seq {}, ch {}, msgs {:?}}}",
            sequence,
            channel_id,
            messages.iter().map(|(i, m)| (*i, m.len())).collect::<Vec<_>>()
        ),
        Packet::SmallUnreliable { sequence, channel_id, messages } => format!(
            "SmallUnreliable{{seq {}, ch {}, lens {:?}}}",
            sequence,
            channel_id,
            messages.iter().map(|m| m.len()).collect::<Vec<_>>()
        ),
        Packet::ReliableSlice { sequence, channel_id, slice } | Packet::UnreliableSlice { sequence, channel_id, slice } => format!(
            "{}{{seq {}, ch {}, id {}, idx {}, n {}, len {}}}",
            kind_of(p),
            sequence,
            channel_id,
            slice.message_id,
            slice.slice_index,
            slice.num_slices,
            slice.payload.len()
        ),
        Packet::Ack { sequence, ack_ranges } => format!("Ack{{seq {}, {} ranges {:?}..}}", sequence, ack_ranges.len(), &ack_ranges[..ack_ranges.len().min(5)]),
    }
}

pub fn renet_values(tier: Tier) -> Vec<Packet> {
    let mut out = vec![];
    let lens = [0usize, 1, 63, 64, 1200];
    let mut lists: Vec<Vec<usize>> = vec![vec![]];
    for &a in &lens {
        lists.push(vec![a]);
        for &b in &lens {
            lists.push(vec![a, b]);
            for &c in &lens {
                lists.push(vec![a, b, c]);
            }
        }
    }
    // message-count classes (the count field of small packets): 255 / 256 / 257 / 300 / 600 tiny messages, the most a
    // sender can put into one packet
    for &count in &[255usize, 256, 257, 300, 600] {
        for channel_id in [0u8, 255] {
            if count <= 300 {
                out.push(Packet::SmallReliable { sequence: 5, channel_id, messages: (0..count).map(|i| (i as u64, msg(0, i))).collect() });
                out.push(Packet::SmallUnreliable { sequence: 5, channel_id, messages: (0..count).map(|i| msg(1, i)).collect() });
            }
            out.push(Packet::SmallUnreliable { sequence: 1 << 30, channel_id, messages: (0..count).map(|i| msg(0, i)).collect() });
        }
    }
    let seqs: Vec<u64> = tier.pick(vec![0, 64, 16_384, (1 << 62) - 1], CLASSES.to_vec());
    for &sequence in &seqs {
        for channel_id in [0u8, 1, 255] {
            for (li, l) in lists.iter().enumerate() {
                for shift in 0..tier.pick(2, 8) {
                    out.push(Packet::SmallReliable {
                        sequence,
                        channel_id,
                        messages: l.iter().enumerate().map(|(i, &n)| (CLASSES[(i + shift + li) % 8], msg(n, i))).collect(),
                    });
                }
                out.push(Packet::SmallUnreliable {
                    sequence,
                    channel_id,
                    messages: l.iter().enumerate().map(|(i, &n)| msg(n, i)).collect(),
                });
            }
            for &message_id in &CLASSES {
                for num_slices in [1usize, 63, 64, 16_383, 16_384, 1_000_000] {
                    let mut sis: Vec<u64> = CLASSES.to_vec();
                    sis.extend([0u64, num_slices as u64 / 2, num_slices as u64 - 1, num_slices as u64 - 1 - (num_slices as u64 > 1) as u64]);
                    sis.sort();
                    sis.dedup();
                    for &si in &sis {
                        for plen in [1usize, 1199, 1200] {
                            let slice = Slice {
                                message_id,
                                slice_index: si as usize,
                                num_slices,
                                payload: msg(plen, 3),
                            };
                            if tier == Tier::Quick && (plen == 1199 || channel_id == 1) {
                                continue;
                            }
                            out.push(Packet::ReliableSlice { sequence, channel_id, slice: slice.clone() });
                            out.push(Packet::UnreliableSlice { sequence, channel_id, slice });
                        }
                    }
                }
            }
        }
    }
    // ack range lists: every non-empty subset of {0..11} is a sorted non-adjacent range list
    for bits in 1u32..(1 << 12) {
        let mut ranges: Vec<std::ops::Range<u64>> = vec![];
        for i in 0..12u64 {
            if bits & (1 << i) != 0 {
                match ranges.last_mut() {
                    Some(r) if r.end == i => r.end = i + 1,
                    _ => ranges.push(i..i + 1),
                }
            }
        }
        for base in [0u64, 1 << 14, 1 << 30, (1 << 62) - 40] {
            if tier == Tier::Quick && base == 1 << 14 {
                continue;
            }
            out.push(Packet::Ack {
                sequence: CLASSES[(bits % 8) as usize],
                ack_ranges: ranges.iter().map(|r| r.start + base..r.end + base).collect(),
            });
        }
    }
    if tier == Tier::Thorough {
        for bits in 1u32..(1 << 16) {
            let mut ranges: Vec<std::ops::Range<u64>> = vec![];
            for i in 0..16u64 {
                if bits & (1 << i) != 0 {
                    match ranges.last_mut() {
                        Some(r) if r.end == i => r.end = i + 1,
                        _ => ranges.push(i..i + 1),
                    }
                }
            }
            out.push(Packet::Ack { sequence: (bits as u64) << 3, ack_ranges: ranges.iter().map(|r| r.start + 60..r.end + 60).collect() });
        }
    }
    for n in [63u64, 64] {
        for sp in [2u64, 3, 64, 16_384, 1 << 30, 1 << 55] {
            for width in [1u64, 2] {
                if width >= sp {
                    continue;
                }
                out.push(Packet::Ack {
                    sequence: 5,
                    ack_ranges: (0..n).map(|i| 7 + i * sp..7 + i * sp + width).collect(),
                });
            }
        }
    }
    out
}

pub fn renet_exemplars() -> Vec<Vec<u8>> {
    let mut v = vec![];
    let ex = vec![
        Packet::SmallReliable {
            sequence: 70,
            channel_id: 1,
            messages: vec![(3, msg(5, 0)), (16_400, msg(0, 1)), (4, msg(70, 2))],
        },
        Packet::SmallReliable { sequence: 0, channel_id: 0, messages: vec![] },
        Packet::SmallUnreliable {
            sequence: 16_384,
            channel_id: 0,
            messages: vec![msg(3, 0), msg(64, 1), msg(0, 2)],
        },
        Packet::ReliableSlice {
            sequence: 9,
            channel_id: 2,
            slice: Slice { message_id: 65, slice_index: 1, num_slices: 3, payload: msg(40, 1) },
        },
        Packet::UnreliableSlice {
            sequence: 1 << 31,
            channel_id: 0,
            slice: Slice { message_id: 2, slice_index: 70, num_slices: 71, payload: msg(17, 1) },
        },
        Packet::Ack { sequence: 3, ack_ranges: vec![4..5] },
        Packet::Ack { sequence: 100, ack_ranges: vec![1..3, 5..6, 70..140, 20_000..20_001] },
        Packet::Ack { sequence: 1, ack_ranges: vec![0..1, 2..3, 4..5, 6..7, 8..9] },
    ];
    for p in ex {
        v.push(enc(&p).unwrap());
    }
    v
}

const SUBST: [u8; 9] = [0x00, 0x01, 0x3F, 0x40, 0x7F, 0x80, 0xBF, 0xC0, 0xFF];

/// mutated byte strings of an exemplar: every single-byte substitution and every truncation
pub fn mutations(ex: &[u8]) -> Vec<Vec<u8>> {
    let mut out = vec![];
    for i in 0..ex.len() {
        for s in SUBST {
            if ex[i] != s {
                let mut m = ex.to_vec();
                m[i] = s;
                out.push(m);
            }
        }
    }
    for n in 0..ex.len() {
        out.push(ex[..n].to_vec());
    }
    // one appended byte as well
    let mut m = ex.to_vec();
    m.push(0);
    out.push(m);
    out
}

// ------------------------------------------------------------------------------------------
// netcode packets and tokens
// ------------------------------------------------------------------------------------------

pub fn netcode_sequences() -> Vec<u64> {
    let mut v = vec![0u64, 1];
    for k in 1..8 {
        v.push((1u64 << (8 * k)) - 1);
        v.push(1u64 << (8 * k));
    }
    v.push(u64::MAX - 1);
    v.push(u64::MAX);
    v
}

fn nc_roundtrip(kind: usize, seq: u64, key: &[u8; 32], protocol: u64, plen: usize) -> Option<Violation> {
    let payload: Vec<u8> = (0..plen).map(|i| (i * 3 + 1) as u8).collect();
    let mut tok = [0u8; 300];
    for (i, b) in tok.iter_mut().enumerate() {
        *b = (i * 5 + 7) as u8;
    }
    let mut req = [0u8; 1024];
    for (i, b) in req.iter_mut().enumerate() {
        *b = (i * 11 + 3) as u8;
    }
    let p: NPacket = match kind {
        0 => NPacket::ConnectionRequest {
            version_info: *b"NETCODE 1.02\0",
            protocol_id: protocol,
            expire_timestamp: seq,
            xnonce: [9; 24],
            data: req,
        },
        1 => NPacket::ConnectionDenied,
        2 => NPacket::Challenge { token_sequence: seq ^ 0x55, token_data: tok },
        3 => NPacket::Response { token_sequence: seq.wrapping_add(3), token_data: tok },
        4 => NPacket::KeepAlive { client_index: seq as u32, max_clients: (seq >> 7) as u32 },
        5 => NPacket::Payload(&payload),
        _ => NPacket::Disconnect,
    };
    let names = ["ConnectionRequest", "ConnectionDenied", "Challenge", "Response", "KeepAlive", "Payload", "Disconnect"];
    let name = names[kind];
    let mut buf = [0u8; 1400];
    let n = match crate::link::guard("Packet::encode", || p.encode(&mut buf, protocol, Some((seq, key)))) {
        Err(v) => return Some(Violation::new(format!("C16/netcode-encode-panics/{}", name), format!("seq {}: {}", seq, v.message))),
        Ok(Err(e)) => return Some(Violation::new(format!("C16/netcode-encode-fails/{}", name), format!("seq {} payload {}: {}", seq, plen, e))),
        Ok(Ok(n)) => n,
    };
    if n > 1400 {
        return Some(Violation::new("C16/netcode-datagram-over-1400", format!("{} bytes", n)));
    }
    let mut wire = buf[..n].to_vec();
    let r = crate::link::guard("Packet::decode", || {
        NPacket::decode(&mut wire, protocol, Some(key), None).map(|(s, q)| {
            let same = q == p;
            (s, same, format!("{:?}", q.packet_type()))
        })
    });
    match r {
        Err(v) => Some(Violation::new(format!("C16/netcode-decode-panics/{}", name), format!("seq {}: {}", seq, v.message))),
        Ok(Err(e)) => Some(Violation::new(
            format!("C16/netcode-own-encoding-does-not-decode/{}", name),
            format!("{} with sequence {} ({} B payload) encoded to {} bytes that fail to decode: {}", name, seq, plen, n, e),
        )),
        Ok(Ok((s, same, ty))) => {
            let want_seq = if kind == 0 { 0 } else { seq };
            if !same || s != want_seq {
                Some(Violation::new(
                    format!("C16/netcode-roundtrip-differs/{}", name),
                    format!("{} sequence {} decodes as {} sequence {} (equal value: {})", name, seq, ty, s, same),
                ))
            } else {
                None
            }
        }
    }
}

fn addr(i: usize, v6: bool) -> SocketAddr {
    if v6 {
        SocketAddr::new(IpAddr::V6(Ipv6Addr::new(0x2001, 0xdb8, i as u16, 0, 0xffff, 0, 0x8000, (i * 257) as u16)), 40_000 + i as u16)
    } else {
        SocketAddr::new(IpAddr::V4(Ipv4Addr::new(10, (i * 7) as u8, 255, i as u8)), 256 * (i as u16 + 1) + 1)
    }
}

/// address lists: every v4/v6 shape for <= 4 addresses, all-v4 / all-v6 / alternating for 5..32
pub fn address_shapes() -> Vec<Vec<SocketAddr>> {
    let mut out = vec![];
    for n in 1..=4usize {
        for bits in 0..(1u32 << n) {
            out.push((0..n).map(|i| addr(i, bits & (1 << i) != 0)).collect());
        }
    }
    // special address forms: one token per form, and all of them in one token
    let special: Vec<SocketAddr> = vec![
        SocketAddr::new(IpAddr::V6(Ipv4Addr::new(127, 0, 0, 1).to_ipv6_mapped()), 5000),
        SocketAddr::new(IpAddr::V6(Ipv4Addr::new(10, 1, 2, 3).to_ipv6_mapped()), 1),
        SocketAddr::new(IpAddr::V6(Ipv4Addr::new(192, 168, 0, 7).to_ipv6_compatible()), 65_535),
        SocketAddr::new(IpAddr::V6(Ipv6Addr::LOCALHOST), 5000),
        SocketAddr::new(IpAddr::V6(Ipv6Addr::UNSPECIFIED), 7),
        SocketAddr::new(IpAddr::V6(Ipv6Addr::new(0xffff, 0xffff, 0xffff, 0xffff, 0xffff, 0xffff, 0xffff, 0xffff)), 0),
        SocketAddr::new(IpAddr::V6(Ipv6Addr::new(0xfe80, 0, 0, 0, 0x0102, 0x0304, 0x0506, 0x0708)), 256),
        SocketAddr::new(IpAddr::V6(Ipv6Addr::new(0x0001, 0x0203, 0x0405, 0x0607, 0x0809, 0x0a0b, 0x0c0d, 0x0e0f)), 0x0102),
        SocketAddr::new(IpAddr::V4(Ipv4Addr::UNSPECIFIED), 0),
        SocketAddr::new(IpAddr::V4(Ipv4Addr::BROADCAST), 65_535),
        SocketAddr::new(IpAddr::V4(Ipv4Addr::LOCALHOST), 0x0100),
        SocketAddr::new(IpAddr::V4(Ipv4Addr::new(1, 2, 3, 4)), 0x0102),
    ];
    for a in &special {
        out.push(vec![*a]);
    }
    out.push(special.clone());
    for n in 5..=32usize {
        out.push((0..n).map(|i| addr(i, false)).collect());
        out.push((0..n).map(|i| addr(i, true)).collect());
        out.push((0..n).map(|i| addr(i, i % 2 == 0)).collect());
    }
    out
}

fn token_with(addrs: &[SocketAddr], salt: u8) -> ConnectToken {
    let mut server_addresses = [None; 32];
    for (i, a) in addrs.iter().enumerate() {
        server_addresses[i] = Some(*a);
    }
    let mut private_data = [0u8; 1024];
    for (i, b) in private_data.iter_mut().enumerate() {
        *b = (i as u8).wrapping_mul(3).wrapping_add(salt);
    }
    ConnectToken {
        client_id: 0x0102_0304_0506_0708u64.wrapping_mul(salt as u64 + 1),
        version_info: *b"NETCODE 1.02\0",
        protocol_id: u64::MAX - salt as u64,
        create_timestamp: salt as u64,
        expire_timestamp: 1u64 << (salt % 60),
        xnonce: [salt; 24],
        server_addresses,
        client_to_server_key: [salt.wrapping_add(1); 32],
        server_to_client_key: [salt.wrapping_add(2); 32],
        private_data,
        timeout_seconds: [-1, 0, 1, 15, i32::MAX, i32::MIN][(salt % 6) as usize],
    }
}

/// a reader that hands out at most `chunk` bytes per read call (a socket, a pipe, a chunked body)
struct Chunked<'a> {
    data: &'a [u8],
    chunk: usize,
}

impl<'a> std::io::Read for Chunked<'a> {
    fn read(&mut self, buf: &mut [u8]) -> std::io::Result<usize> {
        let n = buf.len().min(self.chunk).min(self.data.len());
        buf[..n].copy_from_slice(&self.data[..n]);
        self.data = &self.data[n..];
        Ok(n)
    }
}

fn token_roundtrip(t: &ConnectToken) -> Option<Violation> {
    let mut bytes = vec![];
    if let Err(e) = t.write(&mut bytes) {
        return Some(Violation::new("C16/token-write-fails", format!("{}", e)));
    }
    // the same serialization read back through readers that deliver 1, 7 or 1000 bytes per call
    for chunk in [1usize, 7, 1000] {
        let r = crate::link::guard("ConnectToken::read", || ConnectToken::read(&mut Chunked { data: &bytes, chunk }));
        match r {
            Err(v) => return Some(Violation::new("C16/token-read-panics", v.message)),
            Ok(Err(e)) => return Some(Violation::new("C16/token-does-not-read-from-a-chunked-reader", format!("reader delivering {} bytes per call: {}", chunk, e))),
            Ok(Ok(q)) => {
                if &q != t {
                    return Some(Violation::new("C16/token-roundtrip-differs-through-a-chunked-reader", format!("reader delivering {} bytes per call", chunk)));
                }
            }
        }
    }
    match crate::link::guard("ConnectToken::read", || ConnectToken::read(&mut &bytes[..])) {
        Err(v) => Some(Violation::new("C16/token-read-panics", v.message)),
        Ok(Err(e)) => Some(Violation::new("C16/token-own-encoding-does-not-read", format!("{}", e))),
        Ok(Ok(q)) => {
            if &q != t {
                Some(Violation::new(
                    "C16/token-roundtrip-differs",
                    format!("token with addresses {:?} reads back with {:?}", t.server_addresses.iter().flatten().collect::<Vec<_>>(), q.server_addresses.iter().flatten().collect::<Vec<_>>()),
                ))
            } else {
                None
            }
        }
    }
}

fn token_bytes_roundtrip(b: &[u8]) -> (bool, Option<Violation>) {
    let t = match crate::link::guard("ConnectToken::read", || ConnectToken::read(&mut &b[..])) {
        Err(v) => return (false, Some(Violation::new("C16/token-read-panics", v.message))),
        Ok(Err(_)) => return (false, None),
        Ok(Ok(t)) => t,
    };
    let mut b2 = vec![];
    if let Err(e) = t.write(&mut b2) {
        return (true, Some(Violation::new("C16/token-decoded-value-does-not-write", format!("{}", e))));
    }
    match crate::link::guard("ConnectToken::read", || ConnectToken::read(&mut &b2[..])) {
        Err(v) => (true, Some(Violation::new("C16/token-read-panics", v.message))),
        Ok(Err(e)) => (true, Some(Violation::new("C16/token-rewritten-bytes-do-not-read", format!("{}", e)))),
        Ok(Ok(q)) => {
            if q != t {
                let a: Vec<String> = t.server_addresses.iter().map(|x| x.map(|a| a.to_string()).unwrap_or("-".into())).take(6).collect();
                let c: Vec<String> = q.server_addresses.iter().map(|x| x.map(|a| a.to_string()).unwrap_or("-".into())).take(6).collect();
                (
                    true,
                    Some(Violation::new(
                        "C16/token-reencode-roundtrip-differs",
                        format!("a byte string that reads as a token with address slots {:?}.. is written and read back as {:?}..", a, c),
                    )),
                )
            } else {
                (true, None)
            }
        }
    }
}

fn private_roundtrip(addrs: &[SocketAddr], salt: u8) -> Option<Violation> {
    let mut server_addresses = [None; 32];
    for (i, a) in addrs.iter().enumerate() {
        server_addresses[i] = Some(*a);
    }
    let mut user_data = [0u8; 256];
    for (i, b) in user_data.iter_mut().enumerate() {
        *b = (i as u8) ^ salt;
    }
    let t = VerifPrivateToken {
        client_id: u64::MAX / (salt as u64 + 1),
        timeout_seconds: salt as i32 - 3,
        server_addresses,
        client_to_server_key: [salt; 32],
        server_to_client_key: [!salt; 32],
        user_data,
    };
    let key = [salt.wrapping_mul(7); 32];
    let xnonce = [salt.wrapping_add(9); 24];
    let (protocol, expire) = (salt as u64 * 1_000_003, u64::MAX - salt as u64);
    let sealed = match t.seal(protocol, expire, &xnonce, &key) {
        Ok(s) => s,
        Err(e) => return Some(Violation::new("C16/private-token-seal-fails", format!("{}", e))),
    };
    match VerifPrivateToken::open(&sealed, protocol, expire, &xnonce, &key) {
        Err(e) => return Some(Violation::new("C16/private-token-own-seal-does-not-open", format!("{}", e))),
        Ok(q) if q != t => return Some(Violation::new("C16/private-token-roundtrip-differs", format!("{} addresses", addrs.len()))),
        Ok(_) => {}
    }
    let plain = t.write_plain();
    match VerifPrivateToken::read_plain(&plain) {
        Err(e) => Some(Violation::new("C16/private-token-plain-does-not-read", format!("{}", e))),
        Ok(q) if q != t => Some(Violation::new("C16/private-token-plain-roundtrip-differs", format!("{} addresses", addrs.len()))),
        Ok(_) => None,
    }
}

pub fn run(tier: Tier) -> i32 {
    let mut rep = Report::new("C16", tier);
    // the thorough bounds of this property take seconds: the quick tier runs them too
    crate::report::note_tier(tier);
    let tier = { let _ = tier; Tier::Thorough };
    rep.rule("sweeps: (1) renet packet values: product of sequence / message id / slice index / slice count classes across the varint width boundaries {0,63,64,16383,16384,2^30-1,2^30,2^62-1}, channel ids {0,1,255}, every list of 0..3 messages with lengths {0,1,63,64,1200}, slice payloads {1,1199,1200}, every subset of {0..11} as an ack range list at 3-4 bases, 63/64-range lists: decode(encode(v)) == v; (2) every single-byte substitution by {00,01,3F,40,7F,80,BF,C0,FF}, every truncation and a one-byte extension of exemplar encodings: whatever decodes must re-encode and decode to the same value; (3) netcode packets: 7 kinds x 18 sequence values covering the 0..8-byte classes x 2 keys x payload lengths {0,1,1299,1300}; challenge tokens; (4) connect tokens with 1..32 v4/v6 addresses through write/read and seal/open, and byte mutations of serialized tokens; (5) ack world: the ack packet equals the recorded set");
    rep.assume("socket addresses are IP + port (flow info / scope id are not part of the netcode address format)");

    // (1)
    let vals = renet_values(tier);
    let r = explore::sweep(vals.len(), |i| {
        let v = roundtrip_value(&vals[i]);
        (h64(&(kind_of(&vals[i]), i % 97, v.is_some())), v)
    });
    rep.add_sweep("renet-values", r.cases, r.distinct_outcomes, 5, vec![short(&vals[0]), short(&vals[vals.len() / 2]), short(&vals[vals.len() - 1])]);
    for (i, v) in r.found {
        rep.violation("renet-values", v, J::obj().set("kind", J::s("renet-value")).set("case_index", J::i(i as u64)).set("value", J::s(short(&vals[i]))));
    }

    // (2)
    let mut muts: Vec<Vec<u8>> = vec![];
    for ex in renet_exemplars() {
        muts.extend(mutations(&ex));
    }
    let decoded = std::sync::atomic::AtomicU64::new(0);
    let r = explore::sweep(muts.len(), |i| {
        let (ok, v) = roundtrip_bytes(&muts[i]);
        if ok {
            decoded.fetch_add(1, std::sync::atomic::Ordering::Relaxed);
        }
        (h64(&(&muts[i], ok)), v)
    });
    rep.vac("mutated_renet_byte_strings_that_still_decode", decoded.load(std::sync::atomic::Ordering::Relaxed));
    rep.add_sweep("renet-byte-mutations", r.cases, r.distinct_outcomes, 8, vec![format!("{:02x?}", &muts[0][..muts[0].len().min(16)])]);
    for (i, v) in r.found {
        rep.violation(
            "renet-byte-mutations",
            v,
            J::obj().set("kind", J::s("renet-bytes")).set("hex", J::s(muts[i].iter().map(|b| format!("{:02x}", b)).collect::<String>())),
        );
    }

    // (3)
    let seqs = netcode_sequences();
    let keys = [[7u8; 32], [0xE3u8; 32]];
    let mut nc_cases: Vec<(usize, u64, usize, u64, usize)> = vec![];
    for kind in 0..7 {
        for &s in &seqs {
            for k in 0..2 {
                for protocol in [0u64, u64::MAX - 5] {
                    let plens: &[usize] = if kind == 5 { &[0, 1, 1299, 1300] } else { &[0] };
                    for &pl in plens {
                        nc_cases.push((kind, s, k, protocol, pl));
                    }
                }
            }
        }
    }
    let r = explore::sweep(nc_cases.len(), |i| {
        let (kind, s, k, protocol, pl) = nc_cases[i];
        let v = nc_roundtrip(kind, s, &keys[k], protocol, pl);
        (h64(&(kind, s, pl, v.is_some())), v)
    });
    rep.add_sweep("netcode-packets", r.cases, r.distinct_outcomes, 7, vec![format!("{:?}", nc_cases[0]), format!("{:?}", nc_cases[nc_cases.len() - 1])]);
    for (i, v) in r.found {
        rep.violation("netcode-packets", v, J::obj().set("kind", J::s("netcode-packet")).set("case", J::s(format!("{:?}", nc_cases[i]))));
    }
    // challenge tokens
    let mut ch_cases = 0u64;
    for &s in &seqs {
        for k in 0..2 {
            ch_cases += 1;
            let mut ud = [0u8; 256];
            ud[0] = k as u8;
            ud[255] = 9;
            let id = s ^ 0xABCD;
            let res = NPacket::generate_challenge(id, &ud, s, &keys[k]);
            let v = match res {
                Err(e) => Some(Violation::new("C16/challenge-generate-fails", format!("{}", e))),
                Ok(NPacket::Challenge { token_sequence, token_data }) => match ChallengeToken::decode(token_data, token_sequence, &keys[k]) {
                    Err(e) => Some(Violation::new("C16/challenge-own-token-does-not-open", format!("{}", e))),
                    Ok(t) if t != ChallengeToken::new(id, &ud) || token_sequence != s => Some(Violation::new("C16/challenge-roundtrip-differs", format!("sequence {}", s))),
                    Ok(_) => None,
                },
                Ok(_) => Some(Violation::new("C16/challenge-generate-wrong-kind", String::new())),
            };
            if let Some(v) = v {
                rep.violation("challenge-tokens", v, J::obj().set("kind", J::s("challenge")).set("sequence", J::s(format!("{}", s))));
            }
        }
    }
    rep.add_sweep("challenge-tokens", ch_cases, ch_cases, 1, vec!["generate_challenge -> ChallengeToken::decode".into()]);

    // (4)
    let shapes = address_shapes();
    let r = explore::sweep(shapes.len() * 6, |i| {
        let sh = &shapes[i / 6];
        let salt = (i % 6) as u8 * 41 + 1;
        let v = token_roundtrip(&token_with(sh, salt)).or_else(|| private_roundtrip(sh, salt));
        (h64(&(sh.len(), sh.iter().map(|a| a.is_ipv6()).collect::<Vec<_>>(), salt)), v)
    });
    rep.add_sweep("tokens", r.cases, r.distinct_outcomes, shapes.len() as u64, vec![format!("{:?}", shapes[5]), format!("{} addresses alternating", shapes[shapes.len() - 1].len())]);
    for (i, v) in r.found {
        rep.violation("tokens", v, J::obj().set("kind", J::s("token-shape")).set("case_index", J::i(i as u64)));
    }
    // (4b) tokens built by the library's own generator, also from address lists that repeat an address
    {
        let a = |i: usize| addr(i, i % 2 == 1);
        let mut lists: Vec<Vec<SocketAddr>> = shapes.iter().step_by(3).cloned().collect();
        lists.extend([vec![a(0), a(0)], vec![a(0), a(0), a(1)], vec![a(0), a(1), a(0)], vec![a(0), a(1), a(1), a(2)], vec![a(1), a(0), a(1), a(0), a(2)], vec![a(3); 32], (0..32).map(|i| a(i / 2)).collect()]);
        let r = explore::sweep(lists.len() * 3, |i| {
            let l = &lists[i / 3];
            // (the generator adds the lifetime to the current time: 1000 s + (u64::MAX - 1000) is the largest it can represent)
            let (expire, timeout) = [(30u64, 15i32), (u64::MAX - 1000, -1), (1, 1)][i % 3];
            let key = [7u8; 32];
            let t = crate::link::guard("ConnectToken::generate", || ConnectToken::generate(std::time::Duration::from_secs(1000), 0x1122_3344_5566_7788, expire, 42 + i as u64, timeout, l.clone(), None, &key));
            let v = match t {
                // the argument domain of the generator is not the subject of any statement: only tokens it returns are judged
                Err(_) => None,
                Ok(Err(_)) => None,
                Ok(Ok(t)) => token_roundtrip(&t).map(|v| Violation::new(v.signature, format!("token generated for the address list {:?}: {}", l, v.message))),
            };
            (h64(&(l.len(), i % 3)), v)
        });
        rep.add_sweep("generated-tokens", r.cases, r.distinct_outcomes, lists.len() as u64, vec![format!("ConnectToken::generate over {} address lists (incl. repeated addresses) x 3 (expiry, time-out) settings: write/read round trip", lists.len())]);
        for (i, v) in r.found {
            rep.violation("generated-tokens", v, J::obj().set("kind", J::s("generated-token")).set("case_index", J::i(i as u64)));
        }
    }
    let mut tmuts: Vec<Vec<u8>> = vec![];
    for sh in [&shapes[0], &shapes[9], &shapes[29]] {
        let mut b = vec![];
        token_with(sh, 77).write(&mut b).unwrap();
        // substitutions over the structured part only (the 1024 sealed bytes and the keys are opaque blobs)
        for i in (0..b.len()).filter(|i| *i < 69 || (*i >= 1093 && *i < b.len() - 60)) {
            for s in [0x00u8, 0x01, 0x02, 0x03, 0x20, 0x21, 0xFF] {
                if b[i] != s {
                    let mut m = b.clone();
                    m[i] = s;
                    tmuts.push(m);
                }
            }
        }
        for n in (0..b.len()).step_by(tier.pick(7, 1)) {
            tmuts.push(b[..n].to_vec());
        }
    }
    // hand-assembled tokens: every slot pattern over {IPv4, IPv6, type-0 "none"} for 1..3 announced slots
    {
        let mut base = vec![];
        token_with(&shapes[0], 77).write(&mut base).unwrap();
        let head = base[..1097].to_vec();
        for n in 1..=3u32 {
            for pat in 0..3u32.pow(n) {
                let mut b = head.clone();
                b.extend_from_slice(&n.to_le_bytes());
                let mut x = pat;
                for i in 0..n {
                    match x % 3 {
                        0 => {
                            b.push(1);
                            b.extend_from_slice(&[10, 0, i as u8, 1]);
                            b.extend_from_slice(&(5000u16 + i as u16).to_le_bytes());
                        }
                        1 => {
                            b.push(2);
                            b.extend_from_slice(&[0x20, 1, 0xd, 0xb8, 0, 0, 0, 0, 0, 0, 0, 0, 0, 0, 0, i as u8]);
                            b.extend_from_slice(&(6000u16 + i as u16).to_le_bytes());
                        }
                        _ => b.push(0),
                    }
                    x /= 3;
                }
                b.extend_from_slice(&[0x11; 32]);
                b.extend_from_slice(&[0x22; 32]);
                tmuts.push(b);
            }
        }
    }
    let tdecoded = std::sync::atomic::AtomicU64::new(0);
    let r = explore::sweep(tmuts.len(), |i| {
        let (ok, v) = token_bytes_roundtrip(&tmuts[i]);
        if ok {
            tdecoded.fetch_add(1, std::sync::atomic::Ordering::Relaxed);
        }
        (h64(&(&tmuts[i], ok)), v)
    });
    rep.vac("mutated_token_byte_strings_that_still_read", tdecoded.load(std::sync::atomic::Ordering::Relaxed));
    rep.add_sweep("token-byte-mutations", r.cases, r.distinct_outcomes, 3, vec![format!("{} mutated serialized tokens", tmuts.len())]);
    for (i, v) in r.found {
        rep.violation(
            "token-byte-mutations",
            v,
            J::obj().set("kind", J::s("token-bytes")).set("hex", J::s(tmuts[i].iter().map(|b| format!("{:02x}", b)).collect::<String>())),
        );
    }

    // (5)
    ackworld::run_c16(&mut rep, tier);
    rep.finish()
}

fn unhex(s: &str) -> Vec<u8> {
    (0..s.len() / 2).filter_map(|i| u8::from_str_radix(&s[2 * i..2 * i + 2], 16).ok()).collect()
}

pub fn replay(j: &J) -> i32 {
    let tier = match j.get("tier").and_then(|t| t.as_str()) {
        Some("thorough") => Tier::Thorough,
        _ => Tier::Quick,
    };
    crate::report::note_tier(tier);
    let tier = { let _ = tier; Tier::Thorough };
    let v = match j.get("kind").and_then(|k| k.as_str()) {
        Some("trace") => return ackworld::replay(j),
        Some("renet-value") => {
            let vals = renet_values(tier);
            let i = j.get("case_index").and_then(|x| x.as_i()).unwrap_or(0) as usize;
            let Some(p) = vals.get(i) else { return 2 };
            println!("value {}", short(p));
            roundtrip_value(p)
        }
        Some("renet-bytes") => {
            let b = unhex(j.get("hex").and_then(|h| h.as_str()).unwrap_or(""));
            println!("bytes {:02x?}", b);
            roundtrip_bytes(&b).1
        }
        Some("token-bytes") => {
            let b = unhex(j.get("hex").and_then(|h| h.as_str()).unwrap_or(""));
            println!("{} token bytes", b.len());
            token_bytes_roundtrip(&b).1
        }
        Some("token-shape") => {
            let shapes = address_shapes();
            let i = j.get("case_index").and_then(|x| x.as_i()).unwrap_or(0) as usize;
            let sh = &shapes[(i / 6).min(shapes.len() - 1)];
            let salt = (i % 6) as u8 * 41 + 1;
            token_roundtrip(&token_with(sh, salt)).or_else(|| private_roundtrip(sh, salt))
        }
        _ => {
            eprintln!("replay of this case kind: re-run ./check C16 (cases are enumerated deterministically)");
            return 2;
        }
    };
    match v {
        Some(v) => {
            println!("RESULT: violation {} — {}", v.signature, v.message);
            1
        }
        None => {
            println!("RESULT: no violation");
            0
        }
    }
}
