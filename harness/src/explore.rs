//! The two exploration engines.
//!
//! M2 (`explore_schedules`): deviation-bounded enumeration of decision sequences (iterative
//! context bounding). A scenario is a deterministic function of a choice sequence; choice 0 is
//! the default answer at every decision point, any other answer is one deviation. The engine
//! executes the default run, then for every decision point of every executed run spawns every
//! alternative whose total deviation count stays within the bound. Executions are stateless
//! re-executions of the real code from the initial state (prefix replay), so every explored
//! schedule *is* a run of the implementation.
//!
//! M1 (`dfs`): explicit-state depth-first search with de-duplication over a finite action
//! alphabet, on cloned real objects, up to a depth bound.

use std::collections::hash_map::DefaultHasher;
use std::collections::{BTreeMap, HashMap, HashSet};
use std::hash::{Hash, Hasher};
use std::sync::atomic::{AtomicBool, AtomicU64, AtomicUsize, Ordering};
use std::sync::{Arc, Condvar, Mutex};
use std::time::Instant;

#[derive(Debug, Clone)]
pub struct Violation {
    /// oracle clause + failing site class; identifies a finding
    pub signature: String,
    pub message: String,
}

impl Violation {
    pub fn new(signature: impl Into<String>, message: impl Into<String>) -> Self {
        Violation {
            signature: signature.into(),
            message: message.into(),
        }
    }
}

/// Decision context handed to a scenario run.
pub struct Ctx<'a> {
    prefix: &'a [u16],
    pub choices: Vec<u16>,
    pub arity: Vec<u16>,
    /// when set, the scenario appends a human readable step log (replays)
    pub verbose: bool,
    pub log: Vec<String>,
    /// fingerprints of intermediate states (for the `states` count)
    pub states: Vec<u64>,
    pub transitions: u64,
    /// bit set of mechanisms this run exercised (vacuity guard), scenario-defined
    pub flags: u64,
    pub divergence: Option<String>,
}

impl<'a> Ctx<'a> {
    pub fn new(prefix: &'a [u16], verbose: bool) -> Self {
        Ctx {
            prefix,
            choices: Vec::with_capacity(64),
            arity: Vec::with_capacity(64),
            verbose,
            log: Vec::new(),
            states: Vec::new(),
            transitions: 0,
            flags: 0,
            divergence: None,
        }
    }

    /// A decision point with `n` possible answers; 0 is the default answer.
    pub fn choose(&mut self, n: usize) -> usize {
        debug_assert!(n >= 1 && n < u16::MAX as usize);
        let i = self.choices.len();
        let c = if i < self.prefix.len() {
            let c = self.prefix[i] as usize;
            if c >= n {
                // a stored prefix that does not fit the execution: hard machinery error
                self.divergence = Some(format!("choice {} at point {} out of range (arity {})", c, i, n));
                0
            } else {
                c
            }
        } else {
            0
        };
        self.choices.push(c as u16);
        self.arity.push(n as u16);
        c
    }

    pub fn note(&mut self, f: impl FnOnce() -> String) {
        if self.verbose {
            let s = f();
            self.log.push(s);
        }
    }

    pub fn state(&mut self, fp: u64) {
        self.states.push(fp);
    }
}

pub struct RunOut {
    pub violation: Option<Violation>,
    /// hash of everything the run observed (determinism gate, distinct outcome count)
    pub outcome: u64,
}

pub trait Scenario: Sync {
    fn name(&self) -> String;
    fn run(&self, ctx: &mut Ctx) -> RunOut;
}

#[derive(Debug, Clone)]
pub struct FoundViolation {
    pub scenario: String,
    pub scenario_index: usize,
    pub choices: Vec<u16>,
    pub deviations: u32,
    pub violation: Violation,
}

#[derive(Default, Debug, Clone)]
pub struct Stats {
    pub executions: u64,
    pub executions_with_deviation: u64,
    pub transitions: u64,
    pub states: u64,
    pub distinct_outcomes: u64,
    pub max_points: u64,
    pub flag_counts: Vec<u64>,
    pub scenarios: u64,
    pub completed_bound: u32,
    pub capped: bool,
    pub samples: Vec<String>,
    pub determinism_checked: u64,
}

impl Stats {
    pub fn merge(&mut self, o: &Stats) {
        self.executions += o.executions;
        self.executions_with_deviation += o.executions_with_deviation;
        self.transitions += o.transitions;
        self.states += o.states;
        self.distinct_outcomes += o.distinct_outcomes;
        self.max_points = self.max_points.max(o.max_points);
        if self.flag_counts.len() < o.flag_counts.len() {
            self.flag_counts.resize(o.flag_counts.len(), 0);
        }
        for (i, c) in o.flag_counts.iter().enumerate() {
            self.flag_counts[i] += c;
        }
        self.scenarios += o.scenarios;
        self.capped |= o.capped;
        self.determinism_checked += o.determinism_checked;
        for s in &o.samples {
            if self.samples.len() < 12 {
                self.samples.push(s.clone());
            }
        }
    }
}

const SHARDS: usize = 64;

pub struct ShardedSet {
    shards: Vec<Mutex<HashSet<u64>>>,
}

impl ShardedSet {
    pub fn new() -> Self {
        ShardedSet {
            shards: (0..SHARDS).map(|_| Mutex::new(HashSet::new())).collect(),
        }
    }
    pub fn insert_all(&self, v: &[u64]) {
        for &x in v {
            self.shards[(x as usize) % SHARDS].lock().unwrap().insert(x);
        }
    }
    pub fn insert(&self, x: u64) -> bool {
        self.shards[(x as usize) % SHARDS].lock().unwrap().insert(x)
    }
    pub fn len(&self) -> u64 {
        self.shards.iter().map(|s| s.lock().unwrap().len() as u64).sum()
    }
}

pub struct MachineryError(pub String);

pub struct ExploreCfg {
    pub max_dev: u32,
    pub threads: usize,
    /// stop after this many wall seconds (evidence then says capped)
    pub wall_cap_s: f64,
    /// keep exploring after a violation was found (to collect distinct signatures)
    pub max_signatures: usize,
}

impl Default for ExploreCfg {
    fn default() -> Self {
        ExploreCfg {
            max_dev: 2,
            threads: threads(),
            wall_cap_s: 3600.0,
            max_signatures: 8,
        }
    }
}

pub fn threads() -> usize {
    std::env::var("VERIF_THREADS")
        .ok()
        .and_then(|s| s.parse().ok())
        .unwrap_or_else(|| std::thread::available_parallelism().map(|n| n.get()).unwrap_or(4))
}

struct Work {
    prefix: Vec<u16>,
    devs: u32,
}

struct Shared<'a, S: Scenario> {
    scenario: &'a S,
    scenario_index: usize,
    cfg: &'a ExploreCfg,
    queue: Mutex<Vec<Work>>,
    cv: Condvar,
    busy: AtomicUsize,
    stop: AtomicBool,
    start: Instant,
    executions: AtomicU64,
    executions_dev: AtomicU64,
    transitions: AtomicU64,
    max_points: AtomicU64,
    flag_counts: Vec<AtomicU64>,
    states: ShardedSet,
    outcomes: ShardedSet,
    found: Mutex<BTreeMap<String, FoundViolation>>,
    machinery: Mutex<Option<String>>,
    capped: AtomicBool,
    samples: Mutex<Vec<String>>,
    det_checked: AtomicU64,
}

fn hash_run(ctx: &Ctx, out: &RunOut) -> u64 {
    let mut h = DefaultHasher::new();
    ctx.choices.hash(&mut h);
    ctx.arity.hash(&mut h);
    ctx.states.hash(&mut h);
    out.outcome.hash(&mut h);
    out.violation.as_ref().map(|v| v.signature.clone()).hash(&mut h);
    h.finish()
}

impl<'a, S: Scenario> Shared<'a, S> {
    /// executes one schedule; returns (choices, arity) for branching
    fn execute(&self, prefix: &[u16], devs: u32) -> Option<(Vec<u16>, Vec<u16>)> {
        let mut ctx = Ctx::new(prefix, false);
        let out = self.scenario.run(&mut ctx);
        // A run that does not follow its stored prefix means the scenario is not a function of the schedule
        // (nondeterminism the harness does not own). That is a machinery error unless some execution
        // witnesses a violation: a violation observed in a real execution stands on its own. So: note the
        // divergence, skip this subtree, and decide at the end.
        if let Some(d) = &ctx.divergence {
            let mut m = self.machinery.lock().unwrap();
            if m.is_none() {
                *m = Some(format!("divergence while replaying prefix {:?}: {}", trim_choices(prefix), d));
            }
            if let Some(v) = out.violation {
                self.found.lock().unwrap().entry(v.signature.clone()).or_insert(FoundViolation {
                    scenario: self.scenario.name(),
                    scenario_index: self.scenario_index,
                    choices: trim_choices(&ctx.choices),
                    deviations: devs,
                    violation: v,
                });
            }
            return None;
        }
        if ctx.choices.len() < prefix.len() {
            let mut m = self.machinery.lock().unwrap();
            if m.is_none() {
                *m = Some(format!("divergence: run consumed {} choices, prefix has {} ({:?})", ctx.choices.len(), prefix.len(), trim_choices(prefix)));
            }
            if let Some(v) = out.violation {
                self.found.lock().unwrap().entry(v.signature.clone()).or_insert(FoundViolation {
                    scenario: self.scenario.name(),
                    scenario_index: self.scenario_index,
                    choices: trim_choices(&ctx.choices),
                    deviations: devs,
                    violation: v,
                });
            }
            return None;
        }
        let n = self.executions.fetch_add(1, Ordering::Relaxed);
        if devs > 0 {
            self.executions_dev.fetch_add(1, Ordering::Relaxed);
        }
        // determinism gate: the first 64 schedules of every scenario are executed twice
        if n < 64 {
            let mut ctx2 = Ctx::new(prefix, false);
            let out2 = self.scenario.run(&mut ctx2);
            if hash_run(&ctx, &out) != hash_run(&ctx2, &out2) {
                // A violation witnessed in a real execution is a violation whatever the other execution of the
                // same schedule observed (e.g. a defect whose effect depends on a hash map's iteration order
                // inside the library). Without a violation the divergence is a machinery error.
                let witnessed = out.violation.clone().or(out2.violation.clone());
                match witnessed {
                    Some(mut v) => {
                        v.message = format!(
                            "{} [note: re-executing this schedule gave a different observation log; a source of nondeterminism inside the library influences the outcome, so a replay may need several attempts]",
                            v.message
                        );
                        let mut found = self.found.lock().unwrap();
                        found.entry(v.signature.clone()).or_insert(FoundViolation {
                            scenario: self.scenario.name(),
                            scenario_index: self.scenario_index,
                            choices: trim_choices(&ctx.choices),
                            deviations: devs,
                            violation: v,
                        });
                        return Some((ctx.choices, ctx.arity));
                    }
                    None => {
                        *self.machinery.lock().unwrap() = Some(format!(
                            "nondeterminism: schedule {:?} of scenario {} gave two different observation logs",
                            prefix,
                            self.scenario.name()
                        ));
                        self.stop.store(true, Ordering::SeqCst);
                        return None;
                    }
                }
            }
            self.det_checked.fetch_add(1, Ordering::Relaxed);
        }
        self.transitions.fetch_add(ctx.transitions, Ordering::Relaxed);
        self.max_points.fetch_max(ctx.choices.len() as u64, Ordering::Relaxed);
        for (i, c) in self.flag_counts.iter().enumerate() {
            if ctx.flags & (1u64 << i) != 0 {
                c.fetch_add(1, Ordering::Relaxed);
            }
        }
        self.states.insert_all(&ctx.states);
        self.outcomes.insert(out.outcome);
        if n < 3 || (devs > 0 && n % 9973 == 0) {
            let mut s = self.samples.lock().unwrap();
            if s.len() < 6 {
                s.push(format!(
                    "{} choices={:?}",
                    self.scenario.name(),
                    trim_choices(&ctx.choices)
                ));
            }
        }
        if let Some(v) = out.violation {
            let mut found = self.found.lock().unwrap();
            let better = match found.get(&v.signature) {
                None => true,
                Some(old) => (devs, trim_choices(&ctx.choices).len()) < (old.deviations, old.choices.len()),
            };
            if better {
                found.insert(
                    v.signature.clone(),
                    FoundViolation {
                        scenario: self.scenario.name(),
                        scenario_index: self.scenario_index,
                        choices: trim_choices(&ctx.choices),
                        deviations: devs,
                        violation: v,
                    },
                );
            }
            if found.len() >= self.cfg.max_signatures {
                self.stop.store(true, Ordering::SeqCst);
            }
        }
        Some((ctx.choices, ctx.arity))
    }

    fn explore_local(&self, prefix: Vec<u16>, devs: u32) {
        if self.stop.load(Ordering::Relaxed) {
            return;
        }
        if self.start.elapsed().as_secs_f64() > self.cfg.wall_cap_s {
            self.capped.store(true, Ordering::SeqCst);
            self.stop.store(true, Ordering::SeqCst);
            return;
        }
        let Some((choices, arity)) = self.execute(&prefix, devs) else { return };
        if devs >= self.cfg.max_dev {
            return;
        }
        for i in prefix.len()..choices.len() {
            for alt in 1..arity[i] {
                let mut p = Vec::with_capacity(i + 1);
                p.extend_from_slice(&choices[..i]);
                p.push(alt);
                self.explore_local(p, devs + 1);
            }
        }
    }

    fn worker(&self) {
        loop {
            let work = {
                let mut q = self.queue.lock().unwrap();
                loop {
                    if self.stop.load(Ordering::Relaxed) {
                        q.clear();
                    }
                    if let Some(w) = q.pop() {
                        self.busy.fetch_add(1, Ordering::SeqCst);
                        break Some(w);
                    }
                    if self.busy.load(Ordering::SeqCst) == 0 {
                        self.cv.notify_all();
                        break None;
                    }
                    q = self.cv.wait(q).unwrap();
                }
            };
            let Some(w) = work else { return };
            // split the first levels over the shared queue, explore deeper levels locally
            let split_levels = if self.cfg.max_dev <= 2 { 1 } else { 2 };
            let split = w.devs < self.cfg.max_dev && w.devs < split_levels;
            if split {
                if let Some((choices, arity)) = self.execute(&w.prefix, w.devs) {
                    let mut children = Vec::new();
                    for i in w.prefix.len()..choices.len() {
                        for alt in 1..arity[i] {
                            let mut p = Vec::with_capacity(i + 1);
                            p.extend_from_slice(&choices[..i]);
                            p.push(alt);
                            children.push(Work { prefix: p, devs: w.devs + 1 });
                        }
                    }
                    let mut q = self.queue.lock().unwrap();
                    q.extend(children);
                    self.cv.notify_all();
                }
            } else {
                self.explore_local(w.prefix, w.devs);
            }
            let _q = self.queue.lock().unwrap();
            self.busy.fetch_sub(1, Ordering::SeqCst);
            self.cv.notify_all();
        }
    }
}

pub fn trim_choices(c: &[u16]) -> Vec<u16> {
    let mut n = c.len();
    while n > 0 && c[n - 1] == 0 {
        n -= 1;
    }
    c[..n].to_vec()
}

pub struct ExploreResult {
    pub stats: Stats,
    pub found: Vec<FoundViolation>,
}

/// Exhaustively explores every schedule of `scenario` with at most `cfg.max_dev` deviations.
pub fn explore_schedules<S: Scenario>(
    scenario: &S,
    scenario_index: usize,
    cfg: &ExploreCfg,
    nflags: usize,
) -> Result<ExploreResult, MachineryError> {
    let shared = Shared {
        scenario,
        scenario_index,
        cfg,
        queue: Mutex::new(vec![Work { prefix: vec![], devs: 0 }]),
        cv: Condvar::new(),
        busy: AtomicUsize::new(0),
        stop: AtomicBool::new(false),
        start: Instant::now(),
        executions: AtomicU64::new(0),
        executions_dev: AtomicU64::new(0),
        transitions: AtomicU64::new(0),
        max_points: AtomicU64::new(0),
        flag_counts: (0..nflags).map(|_| AtomicU64::new(0)).collect(),
        states: ShardedSet::new(),
        outcomes: ShardedSet::new(),
        found: Mutex::new(BTreeMap::new()),
        machinery: Mutex::new(None),
        capped: AtomicBool::new(false),
        samples: Mutex::new(Vec::new()),
        det_checked: AtomicU64::new(0),
    };
    std::thread::scope(|s| {
        for _ in 0..cfg.threads.max(1) {
            s.spawn(|| shared.worker());
        }
    });
    if let Some(m) = shared.machinery.lock().unwrap().take() {
        let mut found = shared.found.lock().unwrap();
        if found.is_empty() {
            return Err(MachineryError(m));
        }
        // violations were witnessed in real executions: report them, and say that the run was not reproducible
        for f in found.values_mut() {
            f.violation.message = format!("{} [note: the exploration also met nondeterminism the harness does not own: {}]", f.violation.message, m);
        }
    }
    let stats = Stats {
        executions: shared.executions.load(Ordering::SeqCst),
        executions_with_deviation: shared.executions_dev.load(Ordering::SeqCst),
        transitions: shared.transitions.load(Ordering::SeqCst),
        states: shared.states.len(),
        distinct_outcomes: shared.outcomes.len(),
        max_points: shared.max_points.load(Ordering::SeqCst),
        flag_counts: shared.flag_counts.iter().map(|c| c.load(Ordering::SeqCst)).collect(),
        scenarios: 1,
        completed_bound: cfg.max_dev,
        capped: shared.capped.load(Ordering::SeqCst),
        samples: shared.samples.lock().unwrap().clone(),
        determinism_checked: shared.det_checked.load(Ordering::SeqCst),
    };
    let found = shared.found.lock().unwrap().values().cloned().collect();
    Ok(ExploreResult { stats, found })
}

/// Replays one stored schedule twice (determinism gate) and returns the verbose log.
pub fn replay<S: Scenario>(scenario: &S, choices: &[u16]) -> Result<(Vec<String>, Option<Violation>), MachineryError> {
    let mut c1 = Ctx::new(choices, true);
    let o1 = scenario.run(&mut c1);
    let mut c2 = Ctx::new(choices, true);
    let o2 = scenario.run(&mut c2);
    if let Some(d) = c1.divergence {
        return Err(MachineryError(format!("replay diverged: {}", d)));
    }
    if hash_run(&c1, &o1) != hash_run(&c2, &o2) {
        return Err(MachineryError("replay is not deterministic".into()));
    }
    Ok((c1.log, o1.violation))
}

// ------------------------------------------------------------------------------------------
// M1: explicit-state DFS with de-duplication
// ------------------------------------------------------------------------------------------

pub trait World: Clone + Send + Sync {
    type Action: Clone + std::fmt::Debug + Send + Sync;
    fn actions(&self) -> Vec<Self::Action>;
    /// applies the action to the real objects; Err = property violated by this step
    fn step(&mut self, a: &Self::Action) -> Result<(), Violation>;
    /// canonical fingerprint of everything future behaviour and the oracle depend on
    fn fingerprint(&self) -> u128;
    /// optional: bit set of mechanisms exercised so far (vacuity guard)
    fn flags(&self) -> u64 {
        0
    }
}

pub struct DfsCfg {
    pub depth: u32,
    pub threads: usize,
    pub wall_cap_s: f64,
    pub max_signatures: usize,
}

pub struct DfsFound<A> {
    /// (index into `actions()` at that state, action)
    pub trace: Vec<(u16, A)>,
    pub violation: Violation,
}

pub struct DfsResult<A> {
    pub states: u64,
    pub transitions: u64,
    pub max_depth: u32,
    pub terminal_paths: u64,
    pub flags_seen: u64,
    pub capped: bool,
    pub found: Vec<DfsFound<A>>,
    pub sample_traces: Vec<Vec<(u16, A)>>,
}

struct DfsShared<'a, W: World> {
    cfg: &'a DfsCfg,
    visited: Vec<Mutex<HashMap<u128, u32>>>,
    transitions: AtomicU64,
    terminal: AtomicU64,
    max_depth: AtomicU64,
    flags_seen: AtomicU64,
    stop: AtomicBool,
    capped: AtomicBool,
    start: Instant,
    found: Mutex<BTreeMap<String, DfsFound<W::Action>>>,
    samples: Mutex<Vec<Vec<(u16, W::Action)>>>,
}

impl<'a, W: World> DfsShared<'a, W> {
    /// returns true if the state must be expanded with `remaining` depth left
    fn visit(&self, fp: u128, remaining: u32) -> bool {
        let mut m = self.visited[(fp as usize) % SHARDS].lock().unwrap();
        match m.get_mut(&fp) {
            Some(r) => {
                if *r >= remaining {
                    false
                } else {
                    *r = remaining;
                    true
                }
            }
            None => {
                m.insert(fp, remaining);
                true
            }
        }
    }

    fn dfs(&self, w: &W, trace: &mut Vec<(u16, W::Action)>, remaining: u32) {
        if self.stop.load(Ordering::Relaxed) {
            return;
        }
        self.max_depth.fetch_max(trace.len() as u64, Ordering::Relaxed);
        if remaining == 0 {
            self.terminal.fetch_add(1, Ordering::Relaxed);
            let t = self.terminal.load(Ordering::Relaxed);
            if t < 4 || t % 1_000_003 == 0 {
                let mut s = self.samples.lock().unwrap();
                if s.len() < 6 {
                    s.push(trace.clone());
                }
            }
            return;
        }
        if self.transitions.load(Ordering::Relaxed) % 4096 == 0 && self.start.elapsed().as_secs_f64() > self.cfg.wall_cap_s {
            self.capped.store(true, Ordering::SeqCst);
            self.stop.store(true, Ordering::SeqCst);
            return;
        }
        for (ai, a) in w.actions().into_iter().enumerate() {
            let mut n = w.clone();
            self.transitions.fetch_add(1, Ordering::Relaxed);
            let r = n.step(&a);
            trace.push((ai as u16, a));
            self.flags_seen.fetch_or(n.flags(), Ordering::Relaxed);
            match r {
                Err(v) => {
                    let mut f = self.found.lock().unwrap();
                    let better = match f.get(&v.signature) {
                        None => true,
                        Some(o) => trace.len() < o.trace.len(),
                    };
                    if better {
                        f.insert(
                            v.signature.clone(),
                            DfsFound {
                                trace: trace.clone(),
                                violation: v,
                            },
                        );
                    }
                    if f.len() >= self.cfg.max_signatures {
                        self.stop.store(true, Ordering::SeqCst);
                    }
                }
                Ok(()) => {
                    if self.visit(n.fingerprint(), remaining - 1) {
                        self.dfs(&n, trace, remaining - 1);
                    }
                }
            }
            trace.pop();
        }
    }
}

/// Explores every action sequence of length <= depth from `init` (modulo state de-duplication).
pub fn dfs<W: World>(init: &W, cfg: &DfsCfg) -> DfsResult<W::Action> {
    let shared: DfsShared<W> = DfsShared {
        cfg,
        visited: (0..SHARDS).map(|_| Mutex::new(HashMap::new())).collect(),
        transitions: AtomicU64::new(0),
        terminal: AtomicU64::new(0),
        max_depth: AtomicU64::new(0),
        flags_seen: AtomicU64::new(0),
        stop: AtomicBool::new(false),
        capped: AtomicBool::new(false),
        start: Instant::now(),
        found: Mutex::new(BTreeMap::new()),
        samples: Mutex::new(Vec::new()),
    };
    shared.visit(init.fingerprint(), cfg.depth);
    // seed work items: breadth-first expansion until there are enough items for all threads
    let mut items: Vec<(W, Vec<(u16, W::Action)>, u32)> = vec![(init.clone(), vec![], cfg.depth)];
    let want = cfg.threads * 8;
    while items.len() < want {
        // expand the shallowest item
        let Some(pos) = items.iter().position(|(_, _, r)| *r > 0) else { break };
        let shallow = items
            .iter()
            .enumerate()
            .filter(|(_, (_, _, r))| *r > 0)
            .max_by_key(|(_, (_, _, r))| *r)
            .map(|(i, _)| i)
            .unwrap_or(pos);
        let (w, trace, rem) = items.remove(shallow);
        let mut progressed = false;
        for (ai, a) in w.actions().into_iter().enumerate() {
            let mut n = w.clone();
            shared.transitions.fetch_add(1, Ordering::Relaxed);
            let r = n.step(&a);
            let mut t = trace.clone();
            t.push((ai as u16, a));
            shared.flags_seen.fetch_or(n.flags(), Ordering::Relaxed);
            shared.max_depth.fetch_max(t.len() as u64, Ordering::Relaxed);
            match r {
                Err(v) => {
                    let mut f = shared.found.lock().unwrap();
                    let better = match f.get(&v.signature) {
                        None => true,
                        Some(o) => t.len() < o.trace.len(),
                    };
                    if better {
                        f.insert(v.signature.clone(), DfsFound { trace: t, violation: v });
                    }
                }
                Ok(()) => {
                    if shared.visit(n.fingerprint(), rem - 1) {
                        if rem - 1 == 0 {
                            shared.terminal.fetch_add(1, Ordering::Relaxed);
                        }
                        items.push((n, t, rem - 1));
                        progressed = true;
                    }
                }
            }
        }
        if !progressed && items.iter().all(|(_, _, r)| *r == 0) {
            break;
        }
        if items.len() > 100_000 {
            break;
        }
    }
    let next = AtomicUsize::new(0);
    let items_ref = &items;
    let shared_ref = &shared;
    std::thread::scope(|s| {
        for _ in 0..cfg.threads.max(1) {
            s.spawn(|| loop {
                let i = next.fetch_add(1, Ordering::SeqCst);
                if i >= items_ref.len() {
                    return;
                }
                let (w, trace, rem) = &items_ref[i];
                let mut t = trace.clone();
                shared_ref.dfs(w, &mut t, *rem);
            });
        }
    });
    let states = shared.visited.iter().map(|m| m.lock().unwrap().len() as u64).sum();
    let found = std::mem::take(&mut *shared.found.lock().unwrap()).into_values().collect();
    let sample_traces = std::mem::take(&mut *shared.samples.lock().unwrap());
    DfsResult {
        states,
        transitions: shared.transitions.load(Ordering::SeqCst),
        max_depth: shared.max_depth.load(Ordering::SeqCst) as u32,
        terminal_paths: shared.terminal.load(Ordering::SeqCst),
        flags_seen: shared.flags_seen.load(Ordering::SeqCst),
        capped: shared.capped.load(Ordering::SeqCst),
        found,
        sample_traces,
    }
}

pub fn h64<T: Hash>(t: &T) -> u64 {
    let mut h = DefaultHasher::new();
    t.hash(&mut h);
    h.finish()
}

pub fn h128<T: Hash>(t: &T) -> u128 {
    let mut h1 = DefaultHasher::new();
    0x9e37u16.hash(&mut h1);
    t.hash(&mut h1);
    let mut h2 = DefaultHasher::new();
    0x1234_5678u32.hash(&mut h2);
    t.hash(&mut h2);
    ((h1.finish() as u128) << 64) | h2.finish() as u128
}

pub type SharedFlag = Arc<AtomicBool>;

// ------------------------------------------------------------------------------------------
// exhaustive sweeps over finite case lists (parallel)
// ------------------------------------------------------------------------------------------

pub struct SweepResult {
    pub cases: u64,
    pub distinct_outcomes: u64,
    /// (case index, violation), first per signature
    pub found: Vec<(usize, Violation)>,
}

/// Runs `f` on every case index 0..n on all threads. `f` returns an outcome hash and an optional violation.
pub fn sweep<F>(n: usize, f: F) -> SweepResult
where
    F: Fn(usize) -> (u64, Option<Violation>) + Sync,
{
    let next = AtomicUsize::new(0);
    let outcomes = ShardedSet::new();
    let found: Mutex<BTreeMap<String, (usize, Violation)>> = Mutex::new(BTreeMap::new());
    let t = threads().max(1);
    std::thread::scope(|s| {
        for _ in 0..t {
            s.spawn(|| loop {
                let i = next.fetch_add(64, Ordering::Relaxed);
                if i >= n {
                    return;
                }
                for c in i..(i + 64).min(n) {
                    let (o, v) = f(c);
                    outcomes.insert(o);
                    if let Some(v) = v {
                        let mut g = found.lock().unwrap();
                        let better = match g.get(&v.signature) {
                            None => true,
                            Some((old, _)) => c < *old,
                        };
                        if better {
                            g.insert(v.signature.clone(), (c, v));
                        }
                    }
                }
            });
        }
    });
    SweepResult {
        cases: n as u64,
        distinct_outcomes: outcomes.len(),
        found: found.into_inner().unwrap().into_values().collect(),
    }
}

/// Runs `f` on every case index 0..n, one case at a time per thread (for few, heavy cases); results in index order.
pub fn par_cases<T: Send, F>(n: usize, f: F) -> Vec<T>
where
    F: Fn(usize) -> T + Sync,
{
    let next = AtomicUsize::new(0);
    let out: Mutex<Vec<(usize, T)>> = Mutex::new(vec![]);
    std::thread::scope(|s| {
        for _ in 0..threads().max(1).min(n.max(1)) {
            s.spawn(|| loop {
                let i = next.fetch_add(1, Ordering::Relaxed);
                if i >= n {
                    return;
                }
                let r = f(i);
                out.lock().unwrap().push((i, r));
            });
        }
    });
    let mut v = out.into_inner().unwrap();
    v.sort_by_key(|x| x.0);
    v.into_iter().map(|x| x.1).collect()
}

/// all permutations of 0..n (n small)
pub fn permutations(n: usize) -> Vec<Vec<usize>> {
    fn rec(cur: &mut Vec<usize>, used: &mut Vec<bool>, n: usize, out: &mut Vec<Vec<usize>>) {
        if cur.len() == n {
            out.push(cur.clone());
            return;
        }
        for i in 0..n {
            if !used[i] {
                used[i] = true;
                cur.push(i);
                rec(cur, used, n, out);
                cur.pop();
                used[i] = false;
            }
        }
    }
    let mut out = vec![];
    rec(&mut vec![], &mut vec![false; n], n, &mut out);
    out
}
