//! World R1: a RenetClient (endpoint 0, "A") and a RenetServer holding one connection
//! (endpoint 1, "B"), a harness-owned network in both directions, a harness-owned clock and
//! scripted applications. Direction d means "sent by endpoint d".

use crate::explore::{Ctx, Violation};
use bytes::Bytes;
use renet::verif::{ConnectionSnapshot, Packet, StatusSnapshot};
use renet::{ChannelConfig, ConnectionConfig, DisconnectReason, RenetClient, RenetServer, SendType};
use std::collections::hash_map::DefaultHasher;
use std::hash::{Hash, Hasher};
use std::panic::{catch_unwind, AssertUnwindSafe};
use std::time::Duration;

pub const CID: u64 = 7;

#[derive(Clone, Copy, Debug, PartialEq, Eq, Hash)]
pub enum Kind {
    Unreliable,
    Ordered,
    Unordered,
}

#[derive(Clone, Debug)]
pub struct Chan {
    pub id: u8,
    pub kind: Kind,
    pub max: usize,
    pub resend_ms: u64,
}

impl Chan {
    pub fn new(id: u8, kind: Kind, max: usize, resend_ms: u64) -> Self {
        Chan { id, kind, max, resend_ms }
    }
    pub fn cfg(&self) -> ChannelConfig {
        let resend_time = Duration::from_millis(self.resend_ms);
        ChannelConfig {
            channel_id: self.id,
            max_memory_usage_bytes: self.max,
            send_type: match self.kind {
                Kind::Unreliable => SendType::Unreliable,
                Kind::Ordered => SendType::ReliableOrdered { resend_time },
                Kind::Unordered => SendType::ReliableUnordered { resend_time },
            },
        }
    }
}

#[derive(Clone, Debug)]
pub struct Send {
    pub tick: u32,
    pub dir: usize,
    pub ch: u8,
    pub len: usize,
}

impl Send {
    pub fn at(tick: u32, dir: usize, ch: u8, len: usize) -> Self {
        Send { tick, dir, ch, len }
    }
}

#[derive(Clone, Debug)]
pub struct LinkCfg {
    pub name: String,
    /// chans[d] = channels endpoint d sends on (0: client_channels_config, 1: server_channels_config)
    pub chans: [Vec<Chan>; 2],
    pub bytes_per_tick: u64,
    pub script: Vec<Send>,
    /// tick lengths in ms, cycled
    pub dt_ms: Vec<u64>,
    /// ticks in which the network / application may deviate
    pub horizon: u32,
    /// fault-free ticks after the horizon
    pub tail: u32,
    /// fates offered per packet (index 0 must be Ok)
    pub fates: Vec<Fate>,
    pub allow_reverse: bool,
    /// drain alternatives offered per delivery phase (index 0 must be End)
    pub drains: Vec<Drain>,
    /// packets of direction d are decision points only if faults_dir[d]
    pub faults_dir: [bool; 2],
    /// start the counters at these values (varint classes); None = 0
    pub seq0: Option<u64>,
    pub msg_id0: Option<u64>,
    /// lossy baseline: slice packets with this slice index are dropped by default
    /// (delivering them is then the deviation)
    pub base_drop_slice_idx: Option<usize>,
    /// a budget-respecting application: a scripted send waits (keeping script order) until the
    /// sender's channel offers its whole budget again, i.e. everything earlier was acknowledged
    pub gated_sends: bool,
    /// both endpoints have been up for this long before the scenario starts (one long update call)
    pub initial_uptime_ms: u64,
    /// link latency: every packet needs this many extra ticks (a scale class, not a deviation)
    pub base_delay_ticks: u32,
    /// link outage: every packet of either direction emitted in ticks [from, to) is lost (a scale class of
    /// the baseline, not a deviation: no decision is taken for these packets)
    pub outage: Option<(u32, u32)>,
    /// lossy baseline: in ticks [from, to) every second packet (odd position within its flush) of direction `dir` is lost
    pub alt_drop: Option<(usize, u32, u32)>,
    /// lossy baseline: in ticks [from, to) every packet of direction `dir` is lost
    pub dir_outage: Option<(usize, u32, u32)>,
}

#[derive(Clone, Copy, Debug, PartialEq, Eq)]
pub enum Fate {
    Ok,
    Drop,
    Dup,
    Delay1,
    Delay2,
    DupLate,
    Delay4,
}

#[derive(Clone, Copy, Debug, PartialEq, Eq)]
pub enum Drain {
    /// drain everything after all arrivals of the tick
    End,
    /// do not drain in this tick
    Skip,
    /// drain after every single arrival
    Each,
}

pub const ALL_FATES: [Fate; 6] = [Fate::Ok, Fate::Drop, Fate::Dup, Fate::Delay1, Fate::Delay2, Fate::DupLate];

impl LinkCfg {
    pub fn base(name: &str, chans0: Vec<Chan>, chans1: Vec<Chan>) -> Self {
        LinkCfg {
            name: name.to_string(),
            chans: [chans0, chans1],
            bytes_per_tick: 60_000,
            script: vec![],
            dt_ms: vec![100],
            horizon: 6,
            tail: 8,
            fates: ALL_FATES.to_vec(),
            allow_reverse: true,
            drains: vec![Drain::End, Drain::Skip],
            faults_dir: [true, true],
            seq0: None,
            msg_id0: None,
            base_drop_slice_idx: None,
            gated_sends: false,
            initial_uptime_ms: 0,
            base_delay_ticks: 0,
            outage: None,
            alt_drop: None,
            dir_outage: None,
        }
    }
    pub fn connection_config(&self) -> ConnectionConfig {
        ConnectionConfig {
            available_bytes_per_tick: self.bytes_per_tick,
            client_channels_config: self.chans[0].iter().map(|c| c.cfg()).collect(),
            server_channels_config: self.chans[1].iter().map(|c| c.cfg()).collect(),
        }
    }
    pub fn chan(&self, dir: usize, id: u8) -> &Chan {
        self.chans[dir].iter().find(|c| c.id == id).expect("channel")
    }
}

/// Self-describing payload: byte i of message k on channel c in direction d.
pub fn payload(dir: usize, ch: u8, k: usize, len: usize) -> Bytes {
    let mut v = Vec::with_capacity(len);
    for i in 0..len {
        let x = (i as u64)
            .wrapping_mul(31)
            .wrapping_add((k as u64 + 1).wrapping_mul(97))
            .wrapping_add((ch as u64 + 1).wrapping_mul(53))
            .wrapping_add((dir as u64 + 1).wrapping_mul(29))
            .wrapping_add(((i / 1200) as u64).wrapping_mul(11));
        v.push((x ^ (x >> 8)) as u8);
    }
    // stamp a header when there is room so identity does not rest on the pattern alone
    if len >= 8 {
        v[0] = 0xA5;
        v[1] = dir as u8;
        v[2] = ch;
        v[3] = k as u8;
        v[4..8].copy_from_slice(&(len as u32).to_le_bytes());
    }
    v.into()
}

#[derive(Clone, Debug, PartialEq, Eq, Hash)]
pub enum PktInfo {
    SmallReliable { ch: u8, msgs: Vec<(u64, usize)> },
    SmallUnreliable { ch: u8, lens: Vec<usize> },
    ReliableSlice { ch: u8, id: u64, idx: usize, n: usize, len: usize },
    UnreliableSlice { ch: u8, id: u64, idx: usize, n: usize, len: usize },
    Ack { ranges: Vec<(u64, u64)> },
    Undecodable,
}

pub fn decode(bytes: &[u8]) -> (u64, PktInfo, Option<Packet>) {
    let mut o = octets::Octets::with_slice(bytes);
    match Packet::from_bytes(&mut o) {
        Err(_) => (0, PktInfo::Undecodable, None),
        Ok(p) => {
            let seq = p.sequence();
            let info = match &p {
                Packet::SmallReliable { channel_id, messages, .. } => PktInfo::SmallReliable {
                    ch: *channel_id,
                    msgs: messages.iter().map(|(id, m)| (*id, m.len())).collect(),
                },
                Packet::SmallUnreliable { channel_id, messages, .. } => PktInfo::SmallUnreliable {
                    ch: *channel_id,
                    lens: messages.iter().map(|m| m.len()).collect(),
                },
                Packet::ReliableSlice { channel_id, slice, .. } => PktInfo::ReliableSlice {
                    ch: *channel_id,
                    id: slice.message_id,
                    idx: slice.slice_index,
                    n: slice.num_slices,
                    len: slice.payload.len(),
                },
                Packet::UnreliableSlice { channel_id, slice, .. } => PktInfo::UnreliableSlice {
                    ch: *channel_id,
                    id: slice.message_id,
                    idx: slice.slice_index,
                    n: slice.num_slices,
                    len: slice.payload.len(),
                },
                Packet::Ack { ack_ranges, .. } => PktInfo::Ack {
                    ranges: ack_ranges.iter().map(|r| (r.start, r.end)).collect(),
                },
            };
            (seq, info, Some(p))
        }
    }
}

#[derive(Clone, Debug)]
pub struct Emitted {
    pub dir: usize,
    pub tick: u32,
    /// time on the sender's clock at the flush, ms
    pub at_ms: u64,
    /// index of the flush (per direction)
    pub flush: u32,
    pub bytes: Vec<u8>,
    pub seq: u64,
    pub info: PktInfo,
    /// how many times the harness handed it to the (connected) peer
    pub delivered: u32,
    pub first_delivered_tick: Option<u32>,
}

#[derive(Clone, Debug)]
pub struct Obtained {
    pub tick: u32,
    pub bytes: Bytes,
}

#[derive(Clone)]
pub struct Flight {
    pkt: usize,
    due: u32,
}

/// The two real endpoints.
#[derive(Clone)]
pub struct Ends {
    pub a: RenetClient,
    pub b: RenetServer,
}

impl Ends {
    pub fn new(cfg: &LinkCfg) -> Self {
        let cc = cfg.connection_config();
        let mut a = RenetClient::new(cc.clone());
        a.set_connected();
        let mut b = RenetServer::new(cc);
        b.add_connection(CID);
        while b.get_event().is_some() {}
        if let Some(s) = cfg.seq0 {
            a.verif_set_packet_sequence(s);
            b.verif_connection_mut(CID).unwrap().verif_set_packet_sequence(s);
        }
        if let Some(m) = cfg.msg_id0 {
            for d in 0..2 {
                for c in &cfg.chans[d] {
                    let (snd, rcv): (&mut RenetClient, &mut RenetClient) = if d == 0 {
                        (&mut a, unsafe_conn(&mut b))
                    } else {
                        (unsafe_conn(&mut b), &mut a)
                    };
                    match c.kind {
                        Kind::Unreliable => snd.verif_set_sliced_message_id(c.id, m),
                        _ => {
                            snd.verif_set_next_reliable_message_id(c.id, m);
                            rcv.verif_set_oldest_pending_message_id(c.id, m);
                        }
                    }
                }
            }
        }
        if cfg.initial_uptime_ms > 0 {
            a.update(Duration::from_millis(cfg.initial_uptime_ms));
            b.update(Duration::from_millis(cfg.initial_uptime_ms));
        }
        Ends { a, b }
    }
    pub fn snapshot(&self, e: usize) -> Option<ConnectionSnapshot> {
        if e == 0 {
            Some(self.a.verif_snapshot())
        } else {
            self.b.verif_connection(CID).map(|c| c.verif_snapshot())
        }
    }
    pub fn disconnect_reason(&self, e: usize) -> Option<DisconnectReason> {
        if e == 0 {
            self.a.disconnect_reason()
        } else {
            self.b.disconnect_reason(CID)
        }
    }
    pub fn available_memory(&self, e: usize, ch: u8) -> usize {
        if e == 0 {
            self.a.channel_available_memory(ch)
        } else {
            self.b.channel_available_memory(CID, ch)
        }
    }
}

fn unsafe_conn(b: &mut RenetServer) -> &mut RenetClient {
    b.verif_connection_mut(CID).unwrap()
}

pub fn guard<T>(what: &str, f: impl FnOnce() -> T) -> Result<T, Violation> {
    match catch_unwind(AssertUnwindSafe(f)) {
        Ok(t) => Ok(t),
        Err(e) => {
            let msg = if let Some(s) = e.downcast_ref::<&str>() {
                s.to_string()
            } else if let Some(s) = e.downcast_ref::<String>() {
                s.clone()
            } else {
                "panic".to_string()
            };
            // signature = call site + class of the panic message (digits dropped)
            let class: String = msg
                .split_whitespace()
                .filter(|w| !w.chars().any(|c| c.is_ascii_digit()))
                .take(5)
                .collect::<Vec<_>>()
                .join("-")
                .chars()
                .filter(|c| c.is_ascii_alphanumeric() || *c == '-')
                .collect();
            Err(Violation::new(format!("panic/{}/{}", what, class), format!("library call {} panicked: {}", what, msg)))
        }
    }
}

/// Oracle callbacks; a probe sees the whole world after every library-visible step.
#[allow(unused_variables)]
pub trait Probe {
    fn on_send(&mut self, l: &Link, dir: usize, ch: u8, k: usize) -> Result<(), Violation> {
        Ok(())
    }
    fn on_update(&mut self, l: &Link, end: usize) -> Result<(), Violation> {
        Ok(())
    }
    /// packets l.emitted[first..] were just produced by one get_packets_to_send of endpoint `dir`
    fn on_flush(&mut self, l: &Link, dir: usize, first: usize) -> Result<(), Violation> {
        Ok(())
    }
    /// emitted[pkt] was just processed by the receiver of direction `dir`
    fn on_deliver(&mut self, l: &Link, dir: usize, pkt: usize) -> Result<(), Violation> {
        Ok(())
    }
    /// the application of the receiver of direction `dir` just drained its channels
    fn on_drain(&mut self, l: &Link, dir: usize) -> Result<(), Violation> {
        Ok(())
    }
    fn on_tick_end(&mut self, l: &Link) -> Result<(), Violation> {
        Ok(())
    }
    fn on_end(&mut self, l: &Link) -> Result<(), Violation> {
        Ok(())
    }
    /// extra observation folded into the outcome hash
    fn outcome(&self) -> u64 {
        0
    }
    fn flags(&self) -> u64 {
        0
    }
}

#[derive(Clone)]
pub struct Link<'c> {
    pub cfg: &'c LinkCfg,
    pub ends: Ends,
    pub tick: u32,
    /// per endpoint clock, ms
    pub now_ms: [u64; 2],
    pub emitted: Vec<Emitted>,
    pub flights: [Vec<Flight>; 2],
    pub flushes: [u32; 2],
    /// submitted[d][channel index] = payloads in submission order
    pub submitted: [Vec<Vec<Bytes>>; 2],
    /// obtained[d][channel index] = messages obtained by the receiver of direction d
    pub obtained: [Vec<Vec<Obtained>>; 2],
    /// a send that the library refused or that disconnected the sender is noted here
    pub faults_open: bool,
    pub deviations_seen: u32,
    pub script_done: Vec<bool>,
}

pub const F_RETRANSMIT: u64 = 1;
pub const F_DUP_DELIVERED: u64 = 2;
pub const F_REORDERED: u64 = 4;
pub const F_DROPPED: u64 = 8;
pub const F_DISCONNECT: u64 = 16;
pub const F_SLICED: u64 = 32;
pub const LINK_FLAG_NAMES: [&str; 6] = [
    "runs_with_retransmission",
    "runs_with_duplicate_delivery",
    "runs_with_reordering",
    "runs_with_loss",
    "runs_with_disconnect",
    "runs_with_sliced_message",
];

impl<'c> Link<'c> {
    pub fn new(cfg: &'c LinkCfg) -> Self {
        Link {
            cfg,
            ends: Ends::new(cfg),
            tick: 0,
            now_ms: [cfg.initial_uptime_ms, cfg.initial_uptime_ms],
            emitted: Vec::new(),
            flights: [Vec::new(), Vec::new()],
            flushes: [0, 0],
            submitted: [vec![Vec::new(); cfg.chans[0].len()], vec![Vec::new(); cfg.chans[1].len()]],
            obtained: [vec![Vec::new(); cfg.chans[0].len()], vec![Vec::new(); cfg.chans[1].len()]],
            faults_open: true,
            deviations_seen: 0,
            script_done: vec![false; cfg.script.len()],
        }
    }

    pub fn chan_index(&self, dir: usize, ch: u8) -> usize {
        self.cfg.chans[dir].iter().position(|c| c.id == ch).expect("channel")
    }

    pub fn send(&mut self, dir: usize, ch: u8, len: usize) -> Result<usize, Violation> {
        let ci = self.chan_index(dir, ch);
        let k = self.submitted[dir][ci].len();
        let p = payload(dir, ch, k, len);
        self.submitted[dir][ci].push(p.clone());
        let ends = &mut self.ends;
        guard("send_message", || {
            if dir == 0 {
                ends.a.send_message(ch, p)
            } else {
                ends.b.send_message(CID, ch, p)
            }
        })?;
        Ok(k)
    }

    pub fn update(&mut self, end: usize, dt: u64) -> Result<(), Violation> {
        self.now_ms[end] += dt;
        let ends = &mut self.ends;
        guard("update", || {
            if end == 0 {
                ends.a.update(Duration::from_millis(dt))
            } else {
                ends.b.update(Duration::from_millis(dt))
            }
        })
    }

    pub fn flush(&mut self, dir: usize) -> Result<usize, Violation> {
        let ends = &mut self.ends;
        let pkts = guard("get_packets_to_send", || {
            if dir == 0 {
                ends.a.get_packets_to_send()
            } else {
                ends.b.get_packets_to_send(CID).unwrap_or_default()
            }
        })?;
        let first = self.emitted.len();
        for bytes in pkts {
            let (seq, info, _) = decode(&bytes);
            self.emitted.push(Emitted {
                dir,
                tick: self.tick,
                at_ms: self.now_ms[dir],
                flush: self.flushes[dir],
                bytes,
                seq,
                info,
                delivered: 0,
                first_delivered_tick: None,
            });
        }
        self.flushes[dir] += 1;
        Ok(first)
    }

    pub fn deliver(&mut self, dir: usize, pkt: usize) -> Result<(), Violation> {
        let rx = 1 - dir;
        let receiver_alive = self.ends.disconnect_reason(rx).is_none();
        let bytes = self.emitted[pkt].bytes.clone();
        let ends = &mut self.ends;
        guard("process_packet", || {
            if rx == 0 {
                ends.a.process_packet(&bytes)
            } else {
                let _ = ends.b.process_packet_from(&bytes, CID);
            }
        })?;
        if receiver_alive {
            let e = &mut self.emitted[pkt];
            e.delivered += 1;
            if e.first_delivered_tick.is_none() {
                e.first_delivered_tick = Some(self.tick);
            }
        }
        Ok(())
    }

    pub fn drain(&mut self, dir: usize) -> Result<(), Violation> {
        let rx = 1 - dir;
        for ci in 0..self.cfg.chans[dir].len() {
            let ch = self.cfg.chans[dir][ci].id;
            loop {
                let ends = &mut self.ends;
                let m = guard("receive_message", || {
                    if rx == 0 {
                        ends.a.receive_message(ch)
                    } else {
                        ends.b.receive_message(CID, ch)
                    }
                })?;
                match m {
                    None => break,
                    Some(bytes) => self.obtained[dir][ci].push(Obtained { tick: self.tick, bytes }),
                }
            }
        }
        Ok(())
    }

    pub fn fingerprint(&self) -> u64 {
        let mut h = DefaultHasher::new();
        self.tick.hash(&mut h);
        for e in 0..2 {
            match self.ends.snapshot(e) {
                Some(s) => hash_conn(&s, &mut h),
                None => 0u8.hash(&mut h),
            }
        }
        for d in 0..2 {
            for f in &self.flights[d] {
                (f.due - self.tick, &self.emitted[f.pkt].bytes).hash(&mut h);
            }
            for c in &self.obtained[d] {
                c.len().hash(&mut h);
            }
        }
        h.finish()
    }

    /// Runs the whole scenario under the schedule chosen through `ctx`.
    pub fn run(cfg: &'c LinkCfg, ctx: &mut Ctx, probe: &mut dyn Probe) -> (Option<Violation>, u64) {
        let mut l = Link::new(cfg);
        let r = l.run_inner(ctx, probe);
        let mut h = DefaultHasher::new();
        for d in 0..2 {
            for c in &l.obtained[d] {
                for o in c {
                    (o.tick, &o.bytes[..]).hash(&mut h);
                }
                0xffu8.hash(&mut h);
            }
        }
        for e in &l.emitted {
            (e.dir, e.tick, &e.bytes, e.delivered).hash(&mut h);
        }
        for e in 0..2 {
            format!("{:?}", l.ends.disconnect_reason(e)).hash(&mut h);
        }
        probe.outcome().hash(&mut h);
        ctx.flags |= probe.flags();
        let mut seen = std::collections::HashSet::new();
        for e in &l.emitted {
            match &e.info {
                PktInfo::SmallReliable { ch, msgs } => {
                    for (id, _) in msgs {
                        if !seen.insert((e.dir, *ch, *id, 0usize)) {
                            ctx.flags |= F_RETRANSMIT;
                        }
                    }
                }
                PktInfo::ReliableSlice { ch, id, idx, .. } => {
                    ctx.flags |= F_SLICED;
                    if !seen.insert((e.dir, *ch, *id, *idx + 1)) {
                        ctx.flags |= F_RETRANSMIT;
                    }
                }
                PktInfo::UnreliableSlice { .. } => ctx.flags |= F_SLICED,
                _ => {}
            }
            if e.delivered > 1 {
                ctx.flags |= F_DUP_DELIVERED;
            }
            if e.delivered == 0 {
                ctx.flags |= F_DROPPED;
            }
        }
        if l.ends.disconnect_reason(0).is_some() || l.ends.disconnect_reason(1).is_some() {
            ctx.flags |= F_DISCONNECT;
        }
        (r.err(), h.finish())
    }

    fn run_inner(&mut self, ctx: &mut Ctx, probe: &mut dyn Probe) -> Result<(), Violation> {
        let cfg = self.cfg;
        let total = cfg.horizon + cfg.tail;
        for tick in 0..total {
            self.tick = tick;
            self.faults_open = tick < cfg.horizon;
            let dt = cfg.dt_ms[(tick as usize) % cfg.dt_ms.len()];
            let mut blocked_tick: Option<u32> = None;
            for (si, s) in cfg.script.iter().enumerate() {
                if self.script_done[si] || s.tick > tick {
                    continue;
                }
                if cfg.gated_sends {
                    // sends of one scripted tick go out together, later ticks wait for an idle channel
                    if blocked_tick.is_some() {
                        break;
                    }
                    let group_started = cfg.script.iter().enumerate().any(|(j, o)| o.tick == s.tick && self.script_done[j]);
                    let idle = cfg.chans[s.dir].iter().all(|c| self.ends.available_memory(s.dir, c.id) == c.max);
                    if !group_started && !idle {
                        blocked_tick = Some(s.tick);
                        break;
                    }
                } else if s.tick != tick {
                    continue;
                }
                self.script_done[si] = true;
                let k = self.send(s.dir, s.ch, s.len)?;
                ctx.note(|| format!("t{} end{} send ch{} msg#{} len {}", tick, s.dir, s.ch, k, s.len));
                probe.on_send(self, s.dir, s.ch, k)?;
            }
            for dir in 0..2 {
                self.update(dir, dt)?;
                ctx.transitions += 1;
                probe.on_update(self, dir)?;
                let first = self.flush(dir)?;
                ctx.transitions += 1;
                if ctx.verbose {
                    for i in first..self.emitted.len() {
                        let e = &self.emitted[i];
                        ctx.log
                            .push(format!("t{} end{} emits pkt{} seq {} {:?} ({} B)", tick, dir, i, e.seq, e.info, e.bytes.len()));
                    }
                }
                probe.on_flush(self, dir, first)?;
                // fates
                for i in first..self.emitted.len() {
                    let base_drop = match (&self.emitted[i].info, cfg.base_drop_slice_idx) {
                        (PktInfo::ReliableSlice { idx, .. }, Some(b)) | (PktInfo::UnreliableSlice { idx, .. }, Some(b)) => {
                            *idx == b && self.faults_open
                        }
                        _ => false,
                    };
                    let in_outage = matches!(cfg.outage, Some((from, to)) if tick >= from && tick < to)
                        || matches!(cfg.dir_outage, Some((d, from, to)) if d == dir && tick >= from && tick < to)
                        || matches!(cfg.alt_drop, Some((d, from, to)) if d == dir && tick >= from && tick < to && (i - first) % 2 == 1);
                    let mut fate = if in_outage {
                        Fate::Drop
                    } else if self.faults_open && cfg.faults_dir[dir] && cfg.fates.len() > 1 {
                        cfg.fates[ctx.choose(cfg.fates.len())]
                    } else {
                        Fate::Ok
                    };
                    if base_drop && !in_outage {
                        // default answer is Drop, the alternative "Drop" slot means deliver
                        fate = match fate {
                            Fate::Ok => Fate::Drop,
                            Fate::Drop => Fate::Ok,
                            f => f,
                        };
                    }
                    if fate != Fate::Ok && !in_outage {
                        ctx.note(|| format!("t{} net: pkt{} fate {:?}", tick, i, fate));
                    }
                    let fl = &mut self.flights[dir];
                    let tick = tick + cfg.base_delay_ticks;
                    match fate {
                        Fate::Ok => fl.push(Flight { pkt: i, due: tick }),
                        Fate::Drop => {}
                        Fate::Dup => {
                            fl.push(Flight { pkt: i, due: tick });
                            fl.push(Flight { pkt: i, due: tick });
                        }
                        Fate::Delay1 => fl.push(Flight { pkt: i, due: tick + 1 }),
                        Fate::Delay2 => fl.push(Flight { pkt: i, due: tick + 2 }),
                        Fate::Delay4 => fl.push(Flight { pkt: i, due: tick + 4 }),
                        Fate::DupLate => {
                            fl.push(Flight { pkt: i, due: tick });
                            fl.push(Flight { pkt: i, due: tick + 2 });
                        }
                    }
                }
                // arrivals due now
                let mut due: Vec<usize> = Vec::new();
                self.flights[dir].retain(|f| {
                    if f.due <= tick {
                        due.push(f.pkt);
                        false
                    } else {
                        true
                    }
                });
                due.sort();
                if due.len() >= 2 && self.faults_open && cfg.allow_reverse && cfg.faults_dir[dir] {
                    if ctx.choose(2) == 1 {
                        due.reverse();
                        ctx.note(|| format!("t{} net: batch of direction {} reversed", tick, dir));
                    }
                }
                let drain = if self.faults_open && cfg.drains.len() > 1 {
                    cfg.drains[ctx.choose(cfg.drains.len())]
                } else {
                    Drain::End
                };
                for pkt in due {
                    self.deliver(dir, pkt)?;
                    ctx.transitions += 1;
                    ctx.note(|| format!("t{} end{} processes pkt{}", tick, 1 - dir, pkt));
                    probe.on_deliver(self, dir, pkt)?;
                    if drain == Drain::Each {
                        self.drain(dir)?;
                        probe.on_drain(self, dir)?;
                    }
                }
                if drain != Drain::Skip {
                    self.drain(dir)?;
                    ctx.transitions += 1;
                    probe.on_drain(self, dir)?;
                } else {
                    ctx.note(|| format!("t{} end{} application does not drain", tick, 1 - dir));
                }
            }
            probe.on_tick_end(self)?;
            ctx.state(self.fingerprint());
        }
        probe.on_end(self)
    }
}

pub fn hash_conn(s: &ConnectionSnapshot, h: &mut impl Hasher) {
    s.packet_sequence.hash(h);
    s.current_time.hash(h);
    s.pending_acks.hash(h);
    s.sent_packets.hash(h);
    s.send_reliable.hash(h);
    s.send_unreliable.hash(h);
    s.receive_reliable.hash(h);
    s.receive_unreliable.hash(h);
    match &s.status {
        StatusSnapshot::Connected => 1u8.hash(h),
        StatusSnapshot::Connecting => 2u8.hash(h),
        StatusSnapshot::Disconnected(r) => {
            3u8.hash(h);
            format!("{:?}", r).hash(h);
        }
    }
}

/// Finds which submitted message (index) an obtained payload is identical to.
pub fn identify(submitted: &[Bytes], got: &Bytes) -> Option<usize> {
    submitted.iter().position(|s| s == got)
}

pub fn describe(b: &Bytes) -> String {
    if b.len() >= 8 && b[0] == 0xA5 {
        format!("msg(dir {}, ch {}, #{}, len {} / actual {})", b[1], b[2], b[3], u32::from_le_bytes([b[4], b[5], b[6], b[7]]), b.len())
    } else {
        format!("{} bytes {:02x?}", b.len(), &b[..b.len().min(8)])
    }
}

impl<'c> Link<'c> {
    /// one fault-free tick: both endpoints update, flush, everything is delivered in order, applications drain
    pub fn lockstep_tick(&mut self, dt: u64) -> Result<(), Violation> {
        self.tick += 1;
        for dir in 0..2 {
            self.update(dir, dt)?;
            let first = self.flush(dir)?;
            for p in first..self.emitted.len() {
                self.deliver(dir, p)?;
            }
            self.drain(dir)?;
        }
        Ok(())
    }
}
