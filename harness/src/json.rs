//! Minimal JSON value, writer and parser (no third-party crates are available offline
//! beyond what the repository itself locks).

use std::collections::BTreeMap;
use std::fmt::Write;

#[derive(Debug, Clone, PartialEq)]
pub enum J {
    Null,
    Bool(bool),
    Int(i128),
    Num(f64),
    Str(String),
    Arr(Vec<J>),
    Obj(Vec<(String, J)>),
}

impl J {
    pub fn obj() -> J {
        J::Obj(vec![])
    }
    pub fn set(mut self, k: &str, v: J) -> J {
        if let J::Obj(ref mut o) = self {
            if let Some(e) = o.iter_mut().find(|(kk, _)| kk == k) {
                e.1 = v;
            } else {
                o.push((k.to_string(), v));
            }
        }
        self
    }
    pub fn put(&mut self, k: &str, v: J) {
        if let J::Obj(ref mut o) = self {
            if let Some(e) = o.iter_mut().find(|(kk, _)| kk == k) {
                e.1 = v;
            } else {
                o.push((k.to_string(), v));
            }
        }
    }
    pub fn s(x: impl Into<String>) -> J {
        J::Str(x.into())
    }
    pub fn i(x: impl TryInto<i128>) -> J {
        J::Int(x.try_into().ok().unwrap_or(0))
    }
    pub fn arr_s<I: IntoIterator<Item = String>>(it: I) -> J {
        J::Arr(it.into_iter().map(J::Str).collect())
    }
    pub fn arr_u16(v: &[u16]) -> J {
        J::Arr(v.iter().map(|&x| J::Int(x as i128)).collect())
    }
    pub fn get(&self, k: &str) -> Option<&J> {
        match self {
            J::Obj(o) => o.iter().find(|(kk, _)| kk == k).map(|(_, v)| v),
            _ => None,
        }
    }
    pub fn as_str(&self) -> Option<&str> {
        match self {
            J::Str(s) => Some(s),
            _ => None,
        }
    }
    pub fn as_i(&self) -> Option<i128> {
        match self {
            J::Int(i) => Some(*i),
            J::Num(f) => Some(*f as i128),
            _ => None,
        }
    }
    pub fn as_arr(&self) -> Option<&Vec<J>> {
        match self {
            J::Arr(a) => Some(a),
            _ => None,
        }
    }

    pub fn render(&self) -> String {
        let mut s = String::new();
        self.write(&mut s, 0);
        s.push('\n');
        s
    }

    fn write(&self, out: &mut String, ind: usize) {
        match self {
            J::Null => out.push_str("null"),
            J::Bool(b) => out.push_str(if *b { "true" } else { "false" }),
            J::Int(i) => {
                let _ = write!(out, "{}", i);
            }
            J::Num(f) => {
                if f.is_finite() {
                    let _ = write!(out, "{:.3}", f);
                } else {
                    out.push_str("0");
                }
            }
            J::Str(s) => write_str(out, s),
            J::Arr(a) => {
                if a.is_empty() {
                    out.push_str("[]");
                    return;
                }
                let simple = a.iter().all(|x| matches!(x, J::Int(_) | J::Num(_) | J::Bool(_) | J::Null));
                if simple {
                    out.push('[');
                    for (i, x) in a.iter().enumerate() {
                        if i > 0 {
                            out.push_str(", ");
                        }
                        x.write(out, ind);
                    }
                    out.push(']');
                    return;
                }
                out.push_str("[\n");
                for (i, x) in a.iter().enumerate() {
                    pad(out, ind + 1);
                    x.write(out, ind + 1);
                    if i + 1 < a.len() {
                        out.push(',');
                    }
                    out.push('\n');
                }
                pad(out, ind);
                out.push(']');
            }
            J::Obj(o) => {
                if o.is_empty() {
                    out.push_str("{}");
                    return;
                }
                out.push_str("{\n");
                for (i, (k, v)) in o.iter().enumerate() {
                    pad(out, ind + 1);
                    write_str(out, k);
                    out.push_str(": ");
                    v.write(out, ind + 1);
                    if i + 1 < o.len() {
                        out.push(',');
                    }
                    out.push('\n');
                }
                pad(out, ind);
                out.push('}');
            }
        }
    }
}

fn pad(out: &mut String, n: usize) {
    for _ in 0..n {
        out.push(' ');
    }
}

fn write_str(out: &mut String, s: &str) {
    out.push('"');
    for c in s.chars() {
        match c {
            '"' => out.push_str("\\\""),
            '\\' => out.push_str("\\\\"),
            '\n' => out.push_str("\\n"),
            '\r' => out.push_str("\\r"),
            '\t' => out.push_str("\\t"),
            c if (c as u32) < 0x20 => {
                let _ = write!(out, "\\u{:04x}", c as u32);
            }
            c => out.push(c),
        }
    }
    out.push('"');
}

pub fn parse(src: &str) -> Result<J, String> {
    let b = src.as_bytes();
    let mut p = 0usize;
    let v = parse_val(b, &mut p)?;
    skip_ws(b, &mut p);
    if p != b.len() {
        return Err(format!("trailing data at {}", p));
    }
    Ok(v)
}

fn skip_ws(b: &[u8], p: &mut usize) {
    while *p < b.len() && (b[*p] as char).is_ascii_whitespace() {
        *p += 1;
    }
}

fn parse_val(b: &[u8], p: &mut usize) -> Result<J, String> {
    skip_ws(b, p);
    if *p >= b.len() {
        return Err("eof".into());
    }
    match b[*p] {
        b'{' => {
            *p += 1;
            let mut o = Vec::new();
            loop {
                skip_ws(b, p);
                if *p < b.len() && b[*p] == b'}' {
                    *p += 1;
                    break;
                }
                let k = match parse_val(b, p)? {
                    J::Str(s) => s,
                    _ => return Err("key".into()),
                };
                skip_ws(b, p);
                if *p >= b.len() || b[*p] != b':' {
                    return Err("colon".into());
                }
                *p += 1;
                let v = parse_val(b, p)?;
                o.push((k, v));
                skip_ws(b, p);
                if *p < b.len() && b[*p] == b',' {
                    *p += 1;
                }
            }
            Ok(J::Obj(o))
        }
        b'[' => {
            *p += 1;
            let mut a = Vec::new();
            loop {
                skip_ws(b, p);
                if *p < b.len() && b[*p] == b']' {
                    *p += 1;
                    break;
                }
                a.push(parse_val(b, p)?);
                skip_ws(b, p);
                if *p < b.len() && b[*p] == b',' {
                    *p += 1;
                }
            }
            Ok(J::Arr(a))
        }
        b'"' => {
            *p += 1;
            let mut s = String::new();
            while *p < b.len() && b[*p] != b'"' {
                if b[*p] == b'\\' && *p + 1 < b.len() {
                    *p += 1;
                    match b[*p] {
                        b'n' => s.push('\n'),
                        b't' => s.push('\t'),
                        b'r' => s.push('\r'),
                        b'u' => {
                            let h = std::str::from_utf8(&b[*p + 1..*p + 5]).map_err(|e| e.to_string())?;
                            let c = u32::from_str_radix(h, 16).map_err(|e| e.to_string())?;
                            s.push(char::from_u32(c).unwrap_or('?'));
                            *p += 4;
                        }
                        c => s.push(c as char),
                    }
                    *p += 1;
                } else {
                    // copy utf-8 bytes through
                    let start = *p;
                    *p += 1;
                    while *p < b.len() && (b[*p] & 0xC0) == 0x80 {
                        *p += 1;
                    }
                    s.push_str(std::str::from_utf8(&b[start..*p]).map_err(|e| e.to_string())?);
                }
            }
            *p += 1;
            Ok(J::Str(s))
        }
        b't' => {
            *p += 4;
            Ok(J::Bool(true))
        }
        b'f' => {
            *p += 5;
            Ok(J::Bool(false))
        }
        b'n' => {
            *p += 4;
            Ok(J::Null)
        }
        _ => {
            let start = *p;
            while *p < b.len() && (b[*p] == b'-' || b[*p] == b'+' || b[*p] == b'.' || b[*p] == b'e' || b[*p] == b'E' || b[*p].is_ascii_digit()) {
                *p += 1;
            }
            let t = std::str::from_utf8(&b[start..*p]).map_err(|e| e.to_string())?;
            if let Ok(i) = t.parse::<i128>() {
                Ok(J::Int(i))
            } else {
                t.parse::<f64>().map(J::Num).map_err(|e| format!("number {:?}: {}", t, e))
            }
        }
    }
}

pub fn obj_from(m: BTreeMap<String, J>) -> J {
    J::Obj(m.into_iter().collect())
}
