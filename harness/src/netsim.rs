//! World N1 under the M2 engine: a real NetcodeServer, K real NetcodeClients, a harness-owned
//! network (per-datagram fates), clock, scripted application events and an on-path attacker.
//! Tick order mirrors the transports: clients receive + update; server update, receive,
//! update_client for every id.

use crate::explore::{Ctx, Violation};
use crate::link::guard;
use crate::nc::{self, client_addr, make_token, new_client, new_server, server_addr, TokenSpec, PROTOCOL, SR};
use renetcode::verif::{ClientStateSnapshot, Packet};
use renetcode::{ConnectToken, NetcodeClient, NetcodeServer};
use std::collections::hash_map::DefaultHasher;
use std::hash::{Hash, Hasher};
use std::net::SocketAddr;
use std::time::Duration;

#[derive(Clone, Copy, Debug, PartialEq, Eq)]
pub enum NFate {
    Ok,
    Drop,
    Dup,
    Delay1,
    Delay2,
    Delay4,
    /// delivered now and once more three ticks later
    DupLate3,
}

#[derive(Clone, Debug)]
pub struct ClientCfg {
    pub id: u64,
    pub timeout: i32,
    pub expire: u64,
    /// indices into SimCfg::server_addrs listed in the token, in order
    pub addr_list: Vec<usize>,
    pub start_tick: u32,
    /// from this tick on the client process is gone (no update, no receive)
    pub silent_from: Option<u32>,
    pub disconnect_at: Option<u32>,
    pub payload_ticks: Vec<u32>,
    /// the client's own clock (the time it passes to NetcodeClient::new) when it starts, in seconds; None = the
    /// server's clock. Clients and token issuers do not share a time base in general
    pub clock_s: Option<u64>,
}

impl ClientCfg {
    pub fn new(id: u64) -> Self {
        ClientCfg {
            id,
            timeout: 5,
            expire: 30,
            addr_list: vec![0],
            start_tick: 0,
            silent_from: None,
            clock_s: None,
            disconnect_at: None,
            payload_ticks: vec![],
        }
    }
}

#[derive(Clone, Debug)]
pub struct SimCfg {
    pub name: String,
    pub dt_ms: u64,
    /// server uptime (and token creation time) in seconds when the scenario starts
    pub epoch_s: u64,
    /// clients (and, by the scenario's server_addrs, the server) use IPv6 addresses
    pub ipv6: bool,
    /// deviations are offered in ticks fault_from..horizon
    pub fault_from: u32,
    pub horizon: u32,
    pub tail: u32,
    pub max_clients: usize,
    pub set_max: Option<(u32, usize)>,
    /// public addresses; `alive[i]` says whether a server listens there (address 0 is the real server)
    pub server_addrs: Vec<SocketAddr>,
    pub alive: Vec<bool>,
    pub clients: Vec<ClientCfg>,
    pub server_disconnect: Option<(u32, u64)>,
    /// from this tick on nothing the server sends reaches anybody
    pub server_silent_from: Option<u32>,
    pub server_payload_ticks: Vec<u32>,
    pub fates: Vec<NFate>,
    /// attacker injections as decision points (at the server, once per tick inside the horizon)
    pub inject: bool,
    /// the scenario guarantees room for every undisturbed client at the end (e.g. the other client was disconnected)
    pub room_guaranteed: bool,
    /// lossy baseline: every client -> server datagram emitted before this tick is lost
    pub c2s_blackout_until: u32,
    /// lossy baseline: every client -> server datagram emitted in ticks [from, until) is lost
    pub c2s_blackout_window: Option<(u32, u32)>,
    /// lossy baseline: every server -> client datagram emitted in ticks [from, until) is lost
    pub s2c_blackout_window: Option<(u32, u32)>,
    /// attacker injections towards client 0 as decision points (replays of the server's handshake replies)
    pub inject_to_client: bool,
}

impl SimCfg {
    pub fn base(name: &str, clients: Vec<ClientCfg>) -> Self {
        SimCfg {
            name: name.to_string(),
            dt_ms: 250,
            epoch_s: 0,
            ipv6: false,
            fault_from: 0,
            horizon: 6,
            tail: 12,
            max_clients: 4,
            set_max: None,
            server_addrs: vec![server_addr(0)],
            alive: vec![true],
            clients,
            server_disconnect: None,
            server_silent_from: None,
            server_payload_ticks: vec![],
            fates: vec![NFate::Ok, NFate::Drop, NFate::Dup, NFate::Delay1, NFate::Delay2],
            inject: false,
            room_guaranteed: false,
            c2s_blackout_until: 0,
            c2s_blackout_window: None,
            s2c_blackout_window: None,
            inject_to_client: false,
        }
    }
    pub fn token_for(&self, i: usize) -> ConnectToken {
        let c = &self.clients[i];
        let mut s = TokenSpec::new(c.id, 10 + i as u8, c.addr_list.iter().map(|&a| self.server_addrs[a]).collect());
        s.timeout = c.timeout;
        s.create = self.epoch_s;
        s.expire = self.epoch_s + c.expire;
        make_token(&s)
    }
}

#[derive(Clone, Copy, Debug, PartialEq, Eq, Hash)]
pub enum Who {
    Client(usize),
    Server,
    Attacker,
}

#[derive(Clone, Debug)]
pub struct Dg {
    pub by: Who,
    pub from: SocketAddr,
    pub to: SocketAddr,
    pub bytes: Vec<u8>,
    pub tick: u32,
    pub deliveries: u32,
    /// opened by the monitor with the session keys: (packet type id, sequence)
    pub opened: Option<(u8, u64)>,
    /// which client's session keys it is about (for server datagrams: the destination client)
    pub session: Option<usize>,
}

#[derive(Clone, Debug, PartialEq, Eq)]
pub enum Ev {
    ServerConnected { tick: u32, id: u64, addr: SocketAddr },
    ServerDisconnected { tick: u32, id: u64, timed_out: bool },
    ClientState { tick: u32, i: usize, state: String },
    ServerPayload { tick: u32, id: u64, bytes: Vec<u8> },
    ClientPayload { tick: u32, i: usize, bytes: Vec<u8> },
}

#[allow(unused_variables)]
pub trait NetProbe {
    /// datagram `d` (index into sim.dgs) was just emitted
    fn on_emit(&mut self, sim: &Sim, d: usize) -> Result<(), Violation> {
        Ok(())
    }
    /// server.update_client(id) was just called at server time `now_ms` with this result
    fn on_update_client(&mut self, sim: &Sim, id: u64, r: &SR) -> Result<(), Violation> {
        Ok(())
    }
    /// client i was just updated
    fn on_client_update(&mut self, sim: &Sim, i: usize) -> Result<(), Violation> {
        Ok(())
    }
    fn on_server_update(&mut self, sim: &Sim) -> Result<(), Violation> {
        Ok(())
    }
    fn on_tick_end(&mut self, sim: &Sim) -> Result<(), Violation> {
        Ok(())
    }
    fn on_end(&mut self, sim: &Sim) -> Result<(), Violation> {
        Ok(())
    }
    fn flags(&self) -> u64 {
        0
    }
}

pub struct Sim<'c> {
    pub cfg: &'c SimCfg,
    pub server: NetcodeServer,
    pub clients: Vec<Option<NetcodeClient>>,
    pub tokens: Vec<ConnectToken>,
    pub tick: u32,
    pub now_ms: u64,
    pub dgs: Vec<Dg>,
    /// (datagram, due tick)
    pub c2s: Vec<(usize, u32)>,
    pub s2c: Vec<(usize, u32)>,
    pub events: Vec<Ev>,
    /// server side: time (ms) of the last authentic datagram from client i processed while it was connected / connecting
    pub last_auth_at_server: Vec<Option<u64>>,
    /// multi-homed server: the public address each peer last sent to (replies leave from there)
    pub reply_from: std::collections::HashMap<SocketAddr, SocketAddr>,
    /// client side: client clock time (ms) of the last authentic server datagram processed
    pub last_auth_at_client: Vec<Option<u64>>,
    pub client_now_ms: Vec<u64>,
    /// the client's clock when it was created
    pub client_start_ms: Vec<u64>,
    pub faults_open: bool,
    pub current_max: usize,
    pub deviations: u32,
}

pub const NF_CONNECTED: u64 = 1;
pub const NF_TIMEOUT: u64 = 2;
pub const NF_DENIED: u64 = 4;
pub const NF_RETRY: u64 = 8;
pub const NF_FAILOVER: u64 = 16;
pub const NF_INJECT: u64 = 32;
pub const NET_FLAG_NAMES: [&str; 6] = [
    "runs_with_completed_handshake",
    "runs_with_timeout",
    "runs_with_denial",
    "runs_with_retransmitted_handshake_packet",
    "runs_with_address_failover",
    "runs_with_attacker_injection",
];

impl<'c> Sim<'c> {
    pub fn new(cfg: &'c SimCfg) -> Self {
        let public: Vec<SocketAddr> = cfg.server_addrs.clone();
        let server = new_server(cfg.max_clients, public, Duration::from_secs(cfg.epoch_s));
        let tokens = (0..cfg.clients.len()).map(|i| cfg.token_for(i)).collect();
        Sim {
            cfg,
            server,
            clients: vec![None; cfg.clients.len()],
            tokens,
            tick: 0,
            now_ms: cfg.epoch_s * 1000,
            dgs: vec![],
            c2s: vec![],
            s2c: vec![],
            events: vec![],
            last_auth_at_server: vec![None; cfg.clients.len()],
            reply_from: Default::default(),
            last_auth_at_client: vec![None; cfg.clients.len()],
            client_now_ms: vec![0; cfg.clients.len()],
            client_start_ms: vec![0; cfg.clients.len()],
            faults_open: true,
            current_max: cfg.max_clients,
            deviations: 0,
        }
    }

    pub fn caddr(&self, i: usize) -> SocketAddr {
        if self.cfg.ipv6 {
            nc::client_addr6(i as u16 + 1)
        } else {
            client_addr(i as u16 + 1)
        }
    }

    fn client_of_addr(&self, a: SocketAddr) -> Option<usize> {
        (0..self.cfg.clients.len()).find(|&i| self.caddr(i) == a)
    }

    fn record(&mut self, by: Who, from: SocketAddr, to: SocketAddr, bytes: Vec<u8>) -> usize {
        // monitor: open with the keys of the session it belongs to
        let session = match by {
            Who::Client(i) => Some(i),
            Who::Server => self.client_of_addr(to),
            Who::Attacker => None,
        };
        let mut opened = None;
        if let Some(i) = session {
            let key = match by {
                Who::Client(_) => self.tokens[i].client_to_server_key,
                _ => self.tokens[i].server_to_client_key,
            };
            if !bytes.is_empty() && bytes[0] & 0x0f != 0 {
                let mut b = bytes.clone();
                if let Some((seq, p)) = nc::open(&mut b, PROTOCOL, &key) {
                    opened = Some((p.id(), seq));
                }
            } else if !bytes.is_empty() {
                opened = Some((0, 0));
            }
        }
        self.dgs.push(Dg { by, from, to, bytes, tick: self.tick, deliveries: 0, opened, session });
        self.dgs.len() - 1
    }

    fn fate(&mut self, ctx: &mut Ctx, d: usize, to_server: bool) {
        let fate = if self.faults_open && self.cfg.fates.len() > 1 {
            self.cfg.fates[ctx.choose(self.cfg.fates.len())]
        } else {
            NFate::Ok
        };
        if fate != NFate::Ok {
            self.deviations += 1;
            ctx.note(|| format!("t{} net: datagram #{} fate {:?}", self.tick, d, fate));
        }
        let t = self.tick;
        let q = if to_server { &mut self.c2s } else { &mut self.s2c };
        // client -> server datagrams emitted in the client phase reach the server in the same tick;
        // server -> client datagrams reach the client in the next tick's client phase
        let base = if to_server { t } else { t + 1 };
        match fate {
            NFate::Ok => q.push((d, base)),
            NFate::Drop => {}
            NFate::Dup => {
                q.push((d, base));
                q.push((d, base));
            }
            NFate::Delay1 => q.push((d, base + 1)),
            NFate::Delay2 => q.push((d, base + 2)),
            NFate::Delay4 => q.push((d, base + 4)),
            NFate::DupLate3 => {
                q.push((d, base));
                q.push((d, base + 3));
            }
        }
    }

    fn emit_from_server(&mut self, ctx: &mut Ctx, probe: &mut dyn NetProbe, to: SocketAddr, bytes: Vec<u8>) -> Result<(), Violation> {
        let from = self.reply_from.get(&to).copied().unwrap_or(self.cfg.server_addrs[0]);
        let d = self.record(Who::Server, from, to, bytes);
        ctx.note(|| format!("t{} server -> {}: #{} {}", self.tick, to, d, self.describe(d)));
        probe.on_emit(self, d)?;
        if self.cfg.server_silent_from.map(|t| self.tick >= t).unwrap_or(false) {
            return Ok(());
        }
        if self.cfg.s2c_blackout_window.map(|(a, b)| self.tick >= a && self.tick < b).unwrap_or(false) {
            return Ok(());
        }
        self.fate(ctx, d, false);
        Ok(())
    }

    fn emit_from_client(&mut self, ctx: &mut Ctx, probe: &mut dyn NetProbe, i: usize, to: SocketAddr, bytes: Vec<u8>) -> Result<(), Violation> {
        let d = self.record(Who::Client(i), self.caddr(i), to, bytes);
        ctx.note(|| format!("t{} client{} -> {}: #{} {}", self.tick, i, to, d, self.describe(d)));
        probe.on_emit(self, d)?;
        let alive = self.cfg.server_addrs.iter().position(|a| *a == to).map(|k| self.cfg.alive[k]).unwrap_or(false);
        let in_window = self.cfg.c2s_blackout_window.map(|(a, b)| self.tick >= a && self.tick < b).unwrap_or(false);
        if !alive || self.tick < self.cfg.c2s_blackout_until || in_window {
            return Ok(()); // nobody listens there / lossy baseline
        }
        self.fate(ctx, d, true);
        Ok(())
    }

    pub fn describe(&self, d: usize) -> String {
        let g = &self.dgs[d];
        let ty = match g.opened {
            Some((0, _)) => "request".to_string(),
            Some((t, s)) => format!("{} seq {}", ["request", "denied", "challenge", "response", "keep-alive", "payload", "disconnect"][t as usize], s),
            None => "unopened".to_string(),
        };
        format!("{} ({} B)", ty, g.bytes.len())
    }

    fn handle_server_result(&mut self, ctx: &mut Ctx, probe: &mut dyn NetProbe, r: SR, timed_out: bool) -> Result<(), Violation> {
        match r {
            SR::None => {}
            SR::Send { addr, bytes } => self.emit_from_server(ctx, probe, addr, bytes)?,
            SR::Payload { client_id, bytes } => self.events.push(Ev::ServerPayload { tick: self.tick, id: client_id, bytes }),
            SR::Connected { client_id, addr, bytes, .. } => {
                ctx.flags |= NF_CONNECTED;
                ctx.note(|| format!("t{} server: ClientConnected id {} at {}", self.tick, client_id, addr));
                self.events.push(Ev::ServerConnected { tick: self.tick, id: client_id, addr });
                self.emit_from_server(ctx, probe, addr, bytes)?;
            }
            SR::Disconnected { client_id, addr, bytes } => {
                ctx.note(|| format!("t{} server: ClientDisconnected id {} (timed out: {})", self.tick, client_id, timed_out));
                self.events.push(Ev::ServerDisconnected { tick: self.tick, id: client_id, timed_out });
                if let Some(b) = bytes {
                    self.emit_from_server(ctx, probe, addr, b)?;
                }
            }
        }
        Ok(())
    }

    fn client_state_name(c: &NetcodeClient) -> String {
        match c.verif_snapshot().state {
            ClientStateSnapshot::Connected => "connected".into(),
            ClientStateSnapshot::SendingConnectionRequest => "requesting".into(),
            ClientStateSnapshot::SendingConnectionResponse => "responding".into(),
            ClientStateSnapshot::Disconnected(r) => format!("disconnected({:?})", r),
        }
    }

    pub fn run(cfg: &'c SimCfg, ctx: &mut Ctx, probe: &mut dyn NetProbe) -> (Option<Violation>, u64) {
        let mut sim = Sim::new(cfg);
        let r = sim.run_inner(ctx, probe);
        let mut h = DefaultHasher::new();
        for e in &sim.events {
            format!("{:?}", e).hash(&mut h);
        }
        for d in &sim.dgs {
            (d.by, d.tick, d.bytes.len(), d.deliveries, d.opened).hash(&mut h);
        }
        ctx.flags |= probe.flags();
        (r.err(), h.finish())
    }

    fn run_inner(&mut self, ctx: &mut Ctx, probe: &mut dyn NetProbe) -> Result<(), Violation> {
        let cfg = self.cfg;
        let dt = Duration::from_millis(cfg.dt_ms);
        for tick in 0..cfg.horizon + cfg.tail {
            self.tick = tick;
            self.faults_open = tick >= cfg.fault_from && tick < cfg.horizon;
            // ---------------- clients ----------------
            for i in 0..cfg.clients.len() {
                let cc = &cfg.clients[i];
                if tick < cc.start_tick || cc.silent_from.map(|t| tick >= t).unwrap_or(false) {
                    continue;
                }
                if self.clients[i].is_none() {
                    let start_ms = cc.clock_s.map(|s| s * 1000).unwrap_or(self.now_ms);
                    self.clients[i] = Some(new_client(Duration::from_millis(start_ms), &self.tokens[i]));
                    self.client_now_ms[i] = start_ms;
                    self.client_start_ms[i] = start_ms;
                    self.last_auth_at_client[i] = Some(start_ms);
                }
                // arrivals
                let mut due: Vec<usize> = vec![];
                let me = self.caddr(i);
                let dgs = &self.dgs;
                self.s2c.retain(|(d, t)| {
                    if *t <= tick && dgs[*d].to == me {
                        due.push(*d);
                        false
                    } else {
                        true
                    }
                });
                due.sort();
                if cfg.inject_to_client && i == 0 && self.faults_open {
                    let opts: Vec<usize> = [2u8, 1, 4]
                        .iter()
                        .filter_map(|ty| self.dgs.iter().position(|g| g.by == Who::Server && g.to == me && g.opened.map(|o| o.0) == Some(*ty) && g.deliveries > 0))
                        .collect();
                    let k = ctx.choose(opts.len() + 1);
                    if k > 0 {
                        let src = opts[k - 1];
                        let (from, bytes) = (self.dgs[src].from, self.dgs[src].bytes.clone());
                        let d = self.record(Who::Attacker, from, me, bytes);
                        ctx.flags |= NF_INJECT;
                        ctx.note(|| format!("t{} attacker -> client{}: #{} replay of datagram #{} ({})", tick, i, d, src, self.describe(src)));
                        due.push(d);
                    }
                }
                for d in due {
                    let bytes = self.dgs[d].bytes.clone();
                    let before = Self::client_state_name(self.clients[i].as_ref().unwrap());
                    let first = self.dgs[d].deliveries == 0;
                    self.dgs[d].deliveries += 1;
                    let c = self.clients[i].as_mut().unwrap();
                    // transports drop datagrams that do not come from the server address in use
                    if self.dgs[d].from != c.server_addr() {
                        continue;
                    }
                    let p = nc::cli_process(c, &bytes)?;
                    ctx.transitions += 1;
                    let after = Self::client_state_name(c);
                    // authentic for a connected client = genuine keep-alive / payload of the server for this
                    // client, delivered for the first time (the harness's own bookkeeping, not the library's)
                    let ty = self.dgs[d].opened.map(|o| o.0);
                    if self.dgs[d].by == Who::Server && first && matches!(ty, Some(4) | Some(5)) && c.is_connected() {
                        self.last_auth_at_client[i] = Some(self.client_now_ms[i]);
                    }
                    if let Some(p) = p {
                        self.events.push(Ev::ClientPayload { tick, i, bytes: p });
                    }
                    if before != after {
                        ctx.note(|| format!("t{} client{}: {} -> {} on #{}", tick, i, before, after, d));
                        self.events.push(Ev::ClientState { tick, i, state: after });
                    }
                }
                // scripted application actions
                if cc.disconnect_at == Some(tick) {
                    let c = self.clients[i].as_mut().unwrap();
                    let r = guard("NetcodeClient::disconnect", || c.disconnect().map(|(a, p)| (a, p.to_vec())).ok())?;
                    if let Some((a, p)) = r {
                        self.emit_from_client(ctx, probe, i, a, p)?;
                    }
                    self.events.push(Ev::ClientState { tick, i, state: Self::client_state_name(self.clients[i].as_ref().unwrap()) });
                }
                if cc.payload_ticks.contains(&tick) {
                    let c = self.clients[i].as_mut().unwrap();
                    let body = format!("c{}t{}", i, tick).into_bytes();
                    let r = guard("NetcodeClient::generate_payload_packet", || c.generate_payload_packet(&body).map(|(a, p)| (a, p.to_vec())).ok())?;
                    if let Some((a, p)) = r {
                        self.emit_from_client(ctx, probe, i, a, p)?;
                    }
                }
                // update
                let before = Self::client_state_name(self.clients[i].as_ref().unwrap());
                let before_addr = self.clients[i].as_ref().unwrap().server_addr();
                self.client_now_ms[i] += cfg.dt_ms;
                let c = self.clients[i].as_mut().unwrap();
                let out = nc::cli_update(c, dt)?;
                ctx.transitions += 1;
                let after = Self::client_state_name(c);
                if c.server_addr() != before_addr {
                    ctx.flags |= NF_FAILOVER;
                    // a new attempt starts: the client restarts its receive timer
                    self.last_auth_at_client[i] = Some(self.client_now_ms[i]);
                }
                if before != after {
                    ctx.note(|| format!("t{} client{}: {} -> {} on update", tick, i, before, after));
                    self.events.push(Ev::ClientState { tick, i, state: after });
                }
                probe.on_client_update(self, i)?;
                if let Some((p, a)) = out {
                    self.emit_from_client(ctx, probe, i, a, p)?;
                }
            }
            // ---------------- server ----------------
            self.now_ms += cfg.dt_ms;
            if let Some((t, m)) = cfg.set_max {
                if t == tick {
                    self.server.set_max_clients(m);
                    self.current_max = m;
                    ctx.note(|| format!("t{} server: set_max_clients({})", tick, m));
                }
            }
            {
                let s = &mut self.server;
                guard("NetcodeServer::update", || s.update(dt))?;
            }
            ctx.transitions += 1;
            probe.on_server_update(self)?;
            let mut due: Vec<usize> = vec![];
            self.c2s.retain(|(d, t)| {
                if *t <= tick {
                    due.push(*d);
                    false
                } else {
                    true
                }
            });
            due.sort();
            // the attacker may add one datagram per tick inside the horizon
            if cfg.inject && self.faults_open {
                let opts = self.attacker_options();
                let k = ctx.choose(opts.len() + 1);
                if k > 0 {
                    let (desc, from, bytes) = opts[k - 1].clone();
                    let d = self.record(Who::Attacker, from, cfg.server_addrs[0], bytes);
                    ctx.flags |= NF_INJECT;
                    ctx.note(|| format!("t{} attacker -> server from {}: #{} {}", tick, from, d, desc));
                    due.push(d);
                }
            }
            for d in due {
                let bytes = self.dgs[d].bytes.clone();
                let from = self.dgs[d].from;
                let first = self.dgs[d].deliveries == 0;
                self.dgs[d].deliveries += 1;
                if cfg.server_addrs.len() > 1 && matches!(self.dgs[d].by, Who::Client(_)) {
                    self.reply_from.insert(from, self.dgs[d].to);
                }
                let before: Vec<Option<Duration>> = (0..cfg.clients.len()).map(|i| self.server.time_since_last_received_packet(cfg.clients[i].id)).collect();
                let r = nc::srv_process(&mut self.server, from, &bytes)?;
                ctx.transitions += 1;
                if let SR::Send { bytes: rb, .. } = &r {
                    if let Some(i) = self.client_of_addr(from) {
                        let mut b = rb.clone();
                        if let Some((_, Packet::ConnectionDenied)) = nc::open(&mut b, PROTOCOL, &self.tokens[i].server_to_client_key) {
                            ctx.flags |= NF_DENIED;
                        }
                    }
                }
                // authentic = genuine datagram of the honest client, first delivery, keep-alive / payload / response
                if let (Who::Client(i), true) = (self.dgs[d].by, first) {
                    let ty = self.dgs[d].opened.map(|o| o.0);
                    let connected_now = matches!(r, SR::Connected { .. });
                    if connected_now || matches!(ty, Some(4) | Some(5)) {
                        if self.server.is_client_connected(cfg.clients[i].id) {
                            self.last_auth_at_server[i] = Some(self.now_ms);
                        }
                    }
                }
                let _ = before;
                self.handle_server_result(ctx, probe, r, false)?;
            }
            for id in self.server.clients_id() {
                let r = nc::srv_update_client(&mut self.server, id)?;
                ctx.transitions += 1;
                probe.on_update_client(self, id, &r)?;
                let timed_out = matches!(r, SR::Disconnected { .. });
                if timed_out {
                    ctx.flags |= NF_TIMEOUT;
                }
                self.handle_server_result(ctx, probe, r, timed_out)?;
            }
            if let Some((t, id)) = cfg.server_disconnect {
                if t == tick {
                    let s = &mut self.server;
                    let r = guard("NetcodeServer::disconnect", || nc::own(s.disconnect(id)))?;
                    self.handle_server_result(ctx, probe, r, false)?;
                }
            }
            if cfg.server_payload_ticks.contains(&tick) {
                for id in self.server.clients_id() {
                    let body = format!("s{}t{}", id, tick).into_bytes();
                    let s = &mut self.server;
                    let r = guard("NetcodeServer::generate_payload_packet", || s.generate_payload_packet(id, &body).map(|(a, p)| (a, p.to_vec())).ok())?;
                    if let Some((a, p)) = r {
                        self.emit_from_server(ctx, probe, a, p)?;
                    }
                }
            }
            probe.on_tick_end(self)?;
            let mut h = DefaultHasher::new();
            (tick, self.now_ms).hash(&mut h);
            let s = self.server.verif_snapshot();
            for c in s.slots.iter().flatten() {
                (c.client_id, c.addr, c.sequence, c.last_packet_received_time, c.replay_window_digest).hash(&mut h);
            }
            for c in &s.pending {
                (c.client_id, c.addr).hash(&mut h);
            }
            (s.global_sequence, s.challenge_sequence).hash(&mut h);
            for c in self.clients.iter().flatten() {
                let cs = c.verif_snapshot();
                (format!("{:?}", cs.state), cs.sequence, cs.last_packet_received_time, cs.server_addr_index).hash(&mut h);
            }
            (self.c2s.len(), self.s2c.len()).hash(&mut h);
            ctx.state(h.finish());
        }
        // retransmission flag
        let mut seen = std::collections::HashSet::new();
        for d in &self.dgs {
            if let (Who::Client(i), Some((t, _))) = (d.by, d.opened) {
                if (t == 0 || t == 3) && !seen.insert((i, t, d.to)) {
                    ctx.flags |= NF_RETRY;
                }
            }
        }
        probe.on_end(self)
    }

    /// forged / replayed datagrams the attacker can put on the wire from client 0's address
    fn attacker_options(&self) -> Vec<(String, SocketAddr, Vec<u8>)> {
        let mut v = vec![];
        let a0 = self.caddr(0);
        let mut garbage = vec![0u8; 1078];
        garbage[1] = 0x4e;
        v.push(("request-typed garbage".to_string(), a0, garbage));
        for ty in [3u8, 4, 5] {
            // replay of the first genuine datagram of that type client 0 emitted
            if let Some(d) = self.dgs.iter().find(|d| d.by == Who::Client(0) && d.opened.map(|o| o.0) == Some(ty)) {
                v.push((format!("replay of client 0's first {}", ["request", "denied", "challenge", "response", "keep-alive", "payload", "disconnect"][ty as usize]), a0, d.bytes.clone()));
            }
        }
        v.push(("forged keep-alive under a wrong key".to_string(), a0, nc::seal(&Packet::KeepAlive { client_index: 0, max_clients: 0 }, PROTOCOL, 1 << 40, &[9u8; 32])));
        v.push(("forged payload under a wrong key".to_string(), a0, nc::seal(&Packet::Payload(b"zz"), PROTOCOL, (1 << 40) + 1, &[9u8; 32])));
        v
    }
}
