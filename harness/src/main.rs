mod explore;
mod json;
mod link;
mod nc;
mod netsim;
mod props;
mod report;

use report::Tier;

fn usage() -> ! {
    eprintln!("usage: verif <C01..C20> [--tier quick|thorough] [--replay <file>]");
    std::process::exit(2)
}

fn main() {
    let args: Vec<String> = std::env::args().collect();
    if args.len() < 2 {
        usage();
    }
    let prop = args[1].to_uppercase();
    let mut tier = match std::env::var("VERIF_TIER").ok().as_deref() {
        Some("thorough") => Tier::Thorough,
        _ => Tier::Quick,
    };
    let mut replay: Option<String> = None;
    let mut i = 2;
    while i < args.len() {
        match args[i].as_str() {
            "--tier" => {
                i += 1;
                tier = match args.get(i).map(|s| s.as_str()) {
                    Some("quick") => Tier::Quick,
                    Some("thorough") => Tier::Thorough,
                    _ => usage(),
                };
            }
            "quick" => tier = Tier::Quick,
            "thorough" => tier = Tier::Thorough,
            "--replay" => {
                i += 1;
                replay = Some(args.get(i).cloned().unwrap_or_else(|| usage()));
            }
            _ => usage(),
        }
        i += 1;
    }
    // library panics are observations, not crashes: keep the default hook quiet
    std::panic::set_hook(Box::new(|_| {}));
    if prop == "DEBUG" { props::c13::debug_shapes(); return; }
    let code = match replay {
        Some(path) => props::replay(&prop, &path),
        None => props::run(&prop, tier),
    };
    std::process::exit(code);
}
