//! Per-check bookkeeping: evidence file, replay files, known findings, exit code.

use crate::explore::{DfsResult, ExploreResult, Violation};
use crate::json::{self, J};
use std::collections::BTreeSet;
use std::path::PathBuf;
use std::time::Instant;

#[derive(Clone, Copy, PartialEq, Eq, Debug)]
pub enum Tier {
    Quick,
    Thorough,
}

impl Tier {
    pub fn name(&self) -> &'static str {
        match self {
            Tier::Quick => "quick",
            Tier::Thorough => "thorough",
        }
    }
    pub fn pick<T>(&self, q: T, t: T) -> T {
        match self {
            Tier::Quick => q,
            Tier::Thorough => t,
        }
    }
}

static DEEP: std::sync::atomic::AtomicBool = std::sync::atomic::AtomicBool::new(false);

/// For the properties whose quick tier already runs the former thorough bounds: `note_tier` remembers whether the
/// caller asked for the thorough tier, `deep()` lets the case generators pick an even deeper bound then.
pub fn note_tier(t: Tier) {
    DEEP.store(t == Tier::Thorough, std::sync::atomic::Ordering::Relaxed);
}

pub fn deep() -> bool {
    DEEP.load(std::sync::atomic::Ordering::Relaxed)
}

pub fn verif_dir() -> PathBuf {
    std::env::var("VERIF_DIR").map(PathBuf::from).unwrap_or_else(|_| PathBuf::from("/verif"))
}

pub struct ViolRec {
    pub part: String,
    pub signature: String,
    pub message: String,
    /// everything needed to re-execute (part specific)
    pub replay: J,
}

pub struct Report {
    pub prop: &'static str,
    pub tier: Tier,
    start: Instant,
    pub evaluations: u64,
    pub states: u64,
    pub transitions: u64,
    pub distinct: u64,
    pub samples: Vec<J>,
    pub parts: Vec<J>,
    pub rule: Vec<String>,
    pub assumptions: Vec<String>,
    pub exhaustive: bool,
    pub capped: bool,
    pub violations: Vec<ViolRec>,
    pub machinery: Option<String>,
    pub vacuity: Vec<(String, u64)>,
}

impl Report {
    pub fn new(prop: &'static str, tier: Tier) -> Self {
        Report {
            prop,
            tier,
            start: Instant::now(),
            evaluations: 0,
            states: 0,
            transitions: 0,
            distinct: 0,
            samples: vec![],
            parts: vec![],
            rule: vec![],
            assumptions: vec![],
            exhaustive: true,
            capped: false,
            violations: vec![],
            machinery: None,
            vacuity: vec![],
        }
    }

    pub fn elapsed(&self) -> f64 {
        self.start.elapsed().as_secs_f64()
    }

    pub fn rule(&mut self, s: impl Into<String>) {
        self.rule.push(s.into());
    }

    pub fn assume(&mut self, s: impl Into<String>) {
        self.assumptions.push(s.into());
    }

    pub fn vac(&mut self, name: &str, n: u64) {
        if let Some(e) = self.vacuity.iter_mut().find(|(k, _)| k == name) {
            e.1 += n;
        } else {
            self.vacuity.push((name.to_string(), n));
        }
    }

    /// records the result of one M2 exploration (one scenario)
    pub fn add_explore(&mut self, part: &str, r: &ExploreResult, flag_names: &[&str]) {
        let st = &r.stats;
        self.evaluations += st.executions;
        self.states += st.states;
        self.transitions += st.transitions;
        self.distinct += st.distinct_outcomes;
        if st.capped {
            self.capped = true;
            self.exhaustive = false;
        }
        for (i, n) in flag_names.iter().enumerate() {
            self.vac(n, st.flag_counts.get(i).copied().unwrap_or(0));
        }
        for s in st.samples.iter().take(2) {
            if self.samples.len() < 16 {
                self.samples.push(J::s(format!("[{}] {}", part, s)));
            }
        }
        self.parts.push(
            J::obj()
                .set("part", J::s(part))
                .set("engine", J::s("M2 deviation-bounded schedule enumeration"))
                .set("deviation_bound_completed", J::i(st.completed_bound))
                .set("executions", J::i(st.executions))
                .set("executions_with_deviation", J::i(st.executions_with_deviation))
                .set("distinct_states", J::i(st.states))
                .set("transitions", J::i(st.transitions))
                .set("distinct_outcomes", J::i(st.distinct_outcomes))
                .set("max_decision_points", J::i(st.max_points))
                .set("determinism_double_runs", J::i(st.determinism_checked))
                .set("capped", J::Bool(st.capped)),
        );
        for f in &r.found {
            self.violations.push(ViolRec {
                part: part.to_string(),
                signature: f.violation.signature.clone(),
                message: f.violation.message.clone(),
                replay: J::obj()
                    .set("kind", J::s("schedule"))
                    .set("part", J::s(part))
                    .set("scenario_index", J::i(f.scenario_index as u64))
                    .set("scenario", J::s(f.scenario.clone()))
                    .set("deviations", J::i(f.deviations))
                    .set("choices", J::arr_u16(&f.choices)),
            });
        }
    }

    /// records the result of one M1 search
    pub fn add_dfs<A: std::fmt::Debug>(&mut self, part: &str, index: usize, depth: u32, r: &DfsResult<A>) {
        self.evaluations += r.terminal_paths.max(1);
        self.states += r.states;
        self.transitions += r.transitions;
        self.distinct += r.states;
        if r.capped {
            self.capped = true;
            self.exhaustive = false;
        }
        for t in r.sample_traces.iter().take(2) {
            if self.samples.len() < 16 {
                self.samples.push(J::s(format!(
                    "[{}] {:?}",
                    part,
                    t.iter().map(|(_, a)| a).collect::<Vec<_>>()
                )));
            }
        }
        self.parts.push(
            J::obj()
                .set("part", J::s(part))
                .set("engine", J::s("M1 explicit-state DFS with de-duplication"))
                .set("depth_bound_completed", J::i(depth))
                .set("distinct_states", J::i(r.states))
                .set("transitions", J::i(r.transitions))
                .set("max_depth_reached", J::i(r.max_depth))
                .set("terminal_paths", J::i(r.terminal_paths))
                .set("capped", J::Bool(r.capped)),
        );
        for f in &r.found {
            self.violations.push(ViolRec {
                part: part.to_string(),
                signature: f.violation.signature.clone(),
                message: f.violation.message.clone(),
                replay: J::obj()
                    .set("kind", J::s("trace"))
                    .set("part", J::s(part))
                    .set("scenario_index", J::i(index as u64))
                    .set("actions", J::Arr(f.trace.iter().map(|(i, _)| J::Int(*i as i128)).collect()))
                    .set("actions_text", J::Arr(f.trace.iter().map(|(_, a)| J::s(format!("{:?}", a))).collect())),
            });
        }
    }

    /// records an exhaustive sweep over a finite case list
    pub fn add_sweep(&mut self, part: &str, cases: u64, distinct_outcomes: u64, states: u64, samples: Vec<String>) {
        self.evaluations += cases;
        self.transitions += cases;
        self.states += states;
        self.distinct += distinct_outcomes;
        for s in samples.into_iter().take(3) {
            if self.samples.len() < 16 {
                self.samples.push(J::s(format!("[{}] {}", part, s)));
            }
        }
        self.parts.push(
            J::obj()
                .set("part", J::s(part))
                .set("engine", J::s("exhaustive sweep of a finite alphabet over prepared states"))
                .set("cases", J::i(cases))
                .set("distinct_outcomes", J::i(distinct_outcomes))
                .set("prepared_states", J::i(states)),
        );
    }

    pub fn violation(&mut self, part: &str, v: Violation, replay: J) {
        // keep one record per signature
        if self.violations.iter().any(|x| x.signature == v.signature) {
            return;
        }
        self.violations.push(ViolRec {
            part: part.to_string(),
            signature: v.signature,
            message: v.message,
            replay: replay.set("part", J::s(part)),
        });
    }

    /// writes evidence + replay files, prints verdict lines, returns the process exit code
    pub fn finish(mut self) -> i32 {
        let dir = verif_dir();
        let known = load_known(self.prop);
        let mut exit = 0;
        let mut unlisted = 0;
        let mut known_seen: Vec<J> = vec![];
        let mut seen = BTreeSet::new();
        let _ = std::fs::create_dir_all(dir.join("replays"));
        let _ = std::fs::create_dir_all(dir.join("evidence"));
        let prop = self.prop;
        let mut violations = std::mem::take(&mut self.violations);
        for v in violations.iter_mut() {
            // a panic inside a library call is reported under the property whose check saw it
            if v.signature.starts_with("panic/") {
                v.signature = format!("{}/{}", prop, v.signature);
            }
        }
        self.violations = violations;
        for v in &self.violations {
            if !seen.insert(v.signature.clone()) {
                continue;
            }
            let slug: String = v
                .signature
                .chars()
                .map(|c| if c.is_ascii_alphanumeric() { c } else { '-' })
                .collect();
            let path = dir.join("replays").join(format!("{}-{}.json", self.prop, slug));
            let body = v
                .replay
                .clone()
                .set("property", J::s(self.prop))
                .set("tier", J::s(self.tier.name()))
                .set("signature", J::s(v.signature.clone()))
                .set("message", J::s(v.message.clone()));
            let _ = std::fs::write(&path, body.render());
            if let Some(k) = known.iter().find(|k| k.sig == v.signature) {
                println!("KNOWN-FINDING: property={} {}", self.prop, k.text);
                known_seen.push(J::obj().set("signature", J::s(v.signature.clone())).set("listed_as", J::s(k.text.clone())).set("witness", J::s(v.message.clone())));
            } else {
                unlisted += 1;
                exit = 1;
                println!("VIOLATION property={} replay={}", self.prop, path.display());
                println!("  signature: {}", v.signature);
                println!("  {}", v.message);
            }
        }
        if let Some(m) = &self.machinery {
            eprintln!("MACHINERY ERROR ({}): {}", self.prop, m);
            // a violation witnessed in a real execution stands; without one a machinery error is never a verdict
            if exit == 0 {
                exit = 2;
            }
        }
        let seed: i128 = std::env::var("VERIF_SEED").ok().and_then(|s| s.parse().ok()).unwrap_or(0);
        let mut cov = J::obj()
            .set("states", J::i(self.states.max(1)))
            .set("transitions", J::i(self.transitions.max(1)))
            .set("traces_validated_against_impl", J::i(self.evaluations))
            .set("evaluations", J::i(self.evaluations.max(1)))
            .set("distinct_nontrivial", J::i(self.distinct))
            .set(
                "rule",
                J::s(format!(
                    "{} | distinct_nontrivial = number of distinct observation logs (outcomes) / distinct reachable states produced by the enumerated cases, as hashed by the engine",
                    self.rule.join(" ; ")
                )),
            )
            .set(
                "samples",
                J::Arr(if self.samples.is_empty() { vec![J::s("(none)")] } else { self.samples.clone() }),
            )
            .set("exhaustive", J::Bool(self.exhaustive && !self.capped && self.machinery.is_none()))
            .set("capped", J::Bool(self.capped))
            .set("parts", J::Arr(self.parts.clone()))
            .set(
                "explanation",
                J::s("every enumerated schedule / action sequence / input was executed on the real renet and renetcode code built from /repo's working tree; there is no separate model, so traces_validated_against_impl equals the number of executions"),
            );
        let mut vac = J::obj();
        for (k, n) in &self.vacuity {
            vac.put(k, J::i(*n));
        }
        cov.put("mechanism_hits", vac);
        let ev = J::obj()
            .set("property_id", J::s(self.prop))
            .set("tier", J::s(self.tier.name()))
            .set("seed", J::Int(seed))
            .set("level", J::s("model_checking"))
            .set("coverage", cov)
            .set("assumptions", J::arr_s(self.assumptions.iter().cloned()))
            .set("wall_s", J::Num(self.start.elapsed().as_secs_f64()))
            .set("violations", J::i(unlisted as u64))
            .set("known_findings_reproduced", J::Arr(known_seen));
        let path = dir.join("evidence").join(format!("{}.json", self.prop));
        if let Err(e) = std::fs::write(&path, ev.render()) {
            eprintln!("cannot write evidence {}: {}", path.display(), e);
            return 2;
        }
        println!(
            "{} {}: executions={} states={} transitions={} distinct={} violations={} wall={:.1}s{}",
            self.prop,
            self.tier.name(),
            self.evaluations,
            self.states,
            self.transitions,
            self.distinct,
            unlisted,
            self.start.elapsed().as_secs_f64(),
            if self.capped { " (CAPPED)" } else { "" }
        );
        if self.capped && exit == 0 {
            // the property held on everything that was explored; the evidence says `capped: true, exhaustive: false`
            // and the parts list which searches were cut short (a cap is reported, never passed off as a completed bound)
            eprintln!("NOTE: wall-clock cap reached before the bound was completed (evidence: capped = true, exhaustive = false)");
        }
        exit
    }
}

pub struct Known {
    pub sig: String,
    pub text: String,
}

/// `finding: property=<id> sig=<signature> <what fails>` lines of /verif/known_findings.txt
pub fn load_known(prop: &str) -> Vec<Known> {
    let path = verif_dir().join("known_findings.txt");
    let Ok(s) = std::fs::read_to_string(path) else { return vec![] };
    let mut out = vec![];
    for line in s.lines() {
        let line = line.trim();
        let Some(rest) = line.strip_prefix("finding:") else { continue };
        let rest = rest.trim();
        let mut it = rest.splitn(3, ' ');
        let p = it.next().unwrap_or("");
        let sig = it.next().unwrap_or("");
        let text = it.next().unwrap_or("");
        if p != format!("property={}", prop) {
            continue;
        }
        let Some(sig) = sig.strip_prefix("sig=") else { continue };
        out.push(Known {
            sig: sig.to_string(),
            text: text.to_string(),
        });
    }
    out
}

pub fn read_replay(path: &str) -> Result<J, String> {
    let s = std::fs::read_to_string(path).map_err(|e| format!("{}: {}", path, e))?;
    json::parse(&s)
}

pub fn choices_of(j: &J) -> Vec<u16> {
    j.get("choices")
        .and_then(|c| c.as_arr())
        .map(|a| a.iter().filter_map(|x| x.as_i()).map(|x| x as u16).collect())
        .unwrap_or_default()
}
